"""LOCAL DEVELOPMENT SHIM (not part of /verif): pure-Python stand-in for cachebox 6.2 after the sandbox's Python 3.12 was lost.
Mirrors the documented behaviour used by streamflow: cached(cache) memoises; on hit/miss returns a shallow copy of dict/list/set."""
import copy, functools, inspect
from collections import OrderedDict

class BaseCacheImpl(dict):
    def __init__(self, maxsize=0, *a, **k):
        super().__init__(); self.maxsize = maxsize
class Cache(BaseCacheImpl): pass
class FIFOCache(BaseCacheImpl): pass
class LRUCache(BaseCacheImpl): pass
class LFUCache(BaseCacheImpl): pass
class RRCache(BaseCacheImpl): pass
class TTLCache(BaseCacheImpl):
    """entries expire `ttl` seconds after insertion (checked on lookup)"""
    def __init__(self, maxsize=0, ttl=0, *a, global_ttl=None, **k):
        super().__init__(maxsize); self.ttl = global_ttl if global_ttl is not None else ttl; self._t = {}
    def __setitem__(self, key, value):
        import time
        self._t[key] = time.monotonic(); dict.__setitem__(self, key, value)
    def _fresh(self, key):
        import time
        if dict.__contains__(self, key) and self.ttl and time.monotonic() - self._t.get(key, 0) >= self.ttl:
            dict.pop(self, key, None); self._t.pop(key, None)
        return dict.__contains__(self, key)
    def __contains__(self, key): return self._fresh(key)
    def __getitem__(self, key):
        if not self._fresh(key): raise KeyError(key)
        return dict.__getitem__(self, key)
    def get(self, key, default=None): return dict.__getitem__(self, key) if self._fresh(key) else default
    def clear(self, *a, **k):
        self._t.clear(); dict.clear(self)
class VTTLCache(TTLCache): pass

def _copy(v):
    return copy.copy(v) if isinstance(v, (dict, list, set)) else v
def postprocess_copy_mutables(v): return _copy(v)
def postprocess_copy(v): return copy.copy(v)
def postprocess_deepcopy_mutables(v): return copy.deepcopy(v) if type(v) in (dict, list, set) else v
def postprocess_deepcopy(v): return copy.deepcopy(v)

_KWDS_MARK = object()
def make_key(*args, **kwds):
    # cachebox 6.2 utils.make_key: a single int or str argument is the key itself, otherwise the argument tuple
    if not kwds:
        if len(args) == 1 and type(args[0]) in (int, str):
            return args[0]
        return args
    key = args + (_KWDS_MARK,)
    for item in kwds.items():
        key += item
    return key
make_hash_key = make_typed_key = make_key

def cached(cache=None, key_maker=make_key, clear_reuse=False, callback=None, copy_level=1, postprocess=postprocess_copy_mutables, **kw):
    _copy = postprocess if postprocess is not None else (lambda v: v)
    if cache is None: cache = Cache(0)
    dyn = callable(cache) and not isinstance(cache, dict)
    def deco(fn):
        def getc(a):
            return (cache(a[0]), a[1:]) if dyn else (cache, a)
        if inspect.iscoroutinefunction(fn):
            @functools.wraps(fn)
            async def w(*a, **k):
                c, ka = getc(a); key = key_maker(*ka, **k)
                if key in c: return _copy(c[key])
                r = await fn(*a, **k); c[key] = r; return _copy(r)
        else:
            @functools.wraps(fn)
            def w(*a, **k):
                c, ka = getc(a); key = key_maker(*ka, **k)
                if key in c: return _copy(c[key])
                r = fn(*a, **k); c[key] = r; return _copy(r)
        if not dyn:
            w.cache = cache; w.cache_clear = cache.clear
        return w
    return deco
def cachedmethod(cache, **kw):
    return cached(cache, **kw)
