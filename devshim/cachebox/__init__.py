"""LOCAL DEVELOPMENT SHIM (not part of /verif): pure-Python stand-in for cachebox 6.2 after the sandbox's Python 3.12 was lost.
Mirrors the documented behaviour used by streamflow: cached(cache) memoises; on hit/miss returns a shallow copy of dict/list/set."""
import copy, functools, inspect
from collections import OrderedDict

class BaseCacheImpl(dict):
    def __init__(self, maxsize=0, *a, **k):
        super().__init__(); self.maxsize = maxsize
class Cache(BaseCacheImpl): pass
class FIFOCache(BaseCacheImpl): pass
class LRUCache(BaseCacheImpl): pass
class LFUCache(BaseCacheImpl): pass
class RRCache(BaseCacheImpl): pass
class TTLCache(BaseCacheImpl):
    def __init__(self, maxsize=0, ttl=0, *a, **k): super().__init__(maxsize)
class VTTLCache(TTLCache): pass

def _copy(v):
    return copy.copy(v) if isinstance(v, (dict, list, set)) else v

def make_key(args, kwds, fn=None):
    return (args, tuple(sorted(kwds.items())))
make_hash_key = make_typed_key = make_key

def cached(cache, key_maker=make_key, clear_reuse=False, callback=None, copy_level=1, **kw):
    if cache is None: cache = Cache(0)
    dyn = callable(cache) and not isinstance(cache, dict)
    def deco(fn):
        def getc(a):
            return (cache(a[0]), a[1:]) if dyn else (cache, a)
        if inspect.iscoroutinefunction(fn):
            @functools.wraps(fn)
            async def w(*a, **k):
                c, ka = getc(a); key = key_maker(ka, k)
                if key in c: return _copy(c[key])
                r = await fn(*a, **k); c[key] = r; return _copy(r)
        else:
            @functools.wraps(fn)
            def w(*a, **k):
                c, ka = getc(a); key = key_maker(ka, k)
                if key in c: return _copy(c[key])
                r = fn(*a, **k); c[key] = r; return _copy(r)
        if not dyn:
            w.cache = cache; w.cache_clear = cache.clear
        return w
    return deco
def cachedmethod(cache, **kw):
    return cached(cache, **kw)
