"""native driver for contracts/HW.py: Hardware.get_storage / get_mount_point on random storage tables (nested mount points, paths
resolved before, paths merely beneath a mount point, unrelated paths), compared with the contract evaluated in Python"""
import json
import sys

from common import finish_replay, load_replay, main, rng

from streamflow.core.scheduling import Hardware, Storage

MOUNTS = ["/", "/scratch", "/scratch/fast", "/data", "/data vol/x"]


def check_lookup(n):
    for _ in range(n):
        mps = rng.sample(MOUNTS, rng.randint(1, len(MOUNTS)))
        if rng.random() < 0.6:
            mps.sort()  # parent volumes listed first, as a connector that walks `df` reports them
        storage = {}
        for k, mp in enumerate(mps):
            key = mp if rng.random() < 0.7 else f"disk{k}"
            storage[key] = Storage(mp, float(rng.randint(1, 1000)), paths={mp + "/job" + str(j) for j in range(rng.randint(0, 2))} if rng.random() < 0.5 else None)
        hw = Hardware(cores=1.0, memory=1.0, storage=storage)
        disks = list(hw.storage.values())
        cands = [mp for mp in MOUNTS] + [p for d in disks for p in d.paths] + [mp.rstrip("/") + "/tmp/x" for mp in MOUNTS] + ["/elsewhere", ""]
        for path in rng.sample(cands, min(len(cands), 8)):
            want = next((d for d in disks if path == d.mount_point or path in d.paths), None)
            for fn, proj in ((hw.get_storage, lambda d: d), (hw.get_mount_point, lambda d: d.mount_point)):
                try:
                    got = fn(path)
                    raised = False
                except KeyError:
                    got, raised = None, True
                if raised != (want is None) or (want is not None and got is not proj(want) and got != proj(want)):
                    return {"unit": "Hardware." + fn.__name__, "failure": "the lookup does not return the first storage whose mount point is the path or that the path "
                            "was resolved to (KeyError when there is none)", "path": path, "storages": [(d.mount_point, sorted(d.paths)) for d in disks],
                            "got": "KeyError" if raised else (got.mount_point if isinstance(got, Storage) else got),
                            "expected": "KeyError" if want is None else want.mount_point}
    return None


def replay(path):
    load_replay(path)
    finish_replay(path, check_lookup(3000), "(3000 storage tables x 8 paths)")


def crosscheck(n):
    k = int(n) * 20
    bad = check_lookup(k)
    print(json.dumps({"inputs": k, "native_contract_failures": 1 if bad else 0, "samples": [bad] if bad else [], "known_findings": []}, default=str))
    sys.exit(1 if bad else 0)


if __name__ == "__main__":
    main({"replay": replay, "crosscheck": crosscheck})
