"""C02 native driver: the real combinators fed token by token.  Oracles from the statement:
  (1) arrival-order invariance: the multiset of emitted (tag, per-port value) combinations is the same for every arrival order
      (all permutations up to 6 tokens, a sample beyond);
  (2) dot product (flat): exactly one combination per deepest tag, each port contributing its token with that tag or with the
      ancestor tag it carries (broadcast), tagged with the deepest tag;
  (3) cartesian product (flat, depth 1): exactly the full cross product with the composite tags prefix.i.j;
  (4) nested trees (dot over cartesian, cartesian over dot): order invariance, and the expected composition for the generated shapes."""
import asyncio
import itertools
import json
import sys
from collections import Counter

from common import finish_replay, load_replay, main, rng

from streamflow.core.workflow import Token
from streamflow.workflow.combinator import CartesianProductCombinator, DotProductCombinator

KNOWN = set()
INDICES = ["0", "1", "2", "10", "11"]


def build(tree):
    """tree = ("dot"|"cart", [children]) with children port names or trees"""
    kind, children = tree
    c = DotProductCombinator(name_of(tree), None) if kind == "dot" else CartesianProductCombinator(name_of(tree), None, depth=2 if kind == "cart2" else 1)
    for ch in children:
        if isinstance(ch, str):
            c.add_item(ch)
        else:
            inner = build(ch)
            c.add_combinator(inner, inner.get_items(recursive=True))
    return c


def name_of(tree):
    return tree[0] + "(" + ",".join(ch if isinstance(ch, str) else name_of(ch) for ch in tree[1]) + ")"


async def run(tree, arrivals):
    comb = build(tree)
    out = []
    for port, tag in arrivals:
        async for schema in comb.combine(port, Token(value=f"{port}@{tag}", tag=tag)):
            out.append(tuple(sorted((k, v["token"].tag, v["token"].value) for k, v in schema.items())))
    return Counter(out)


def prefix(tag, depth):
    return ".".join(tag.split(".")[:depth])


def gen_dot():
    """ports a, b[, c]; one port carries the deepest tags, the others the same tags or their ancestors at a shallower depth"""
    nports = rng.choice([2, 2, 3])
    ports = ["a", "b", "c"][:nports]
    depth = rng.choice([2, 3])  # number of components of the deepest tags
    leaves = set()
    while len(leaves) < rng.randint(1, 4):
        leaves.add(".".join(["0"] + [rng.choice(INDICES) for _ in range(depth - 1)]))
    depths = {p: (depth if i == 0 else rng.randint(1, depth)) for i, p in enumerate(ports)}
    arrivals = []
    for p in ports:
        for t in sorted({prefix(l, depths[p]) for l in leaves}):
            arrivals.append((p, t))
    expected = Counter(tuple(sorted((p, l, f"{p}@{prefix(l, depths[p])}") for p in ports)) for l in leaves)
    return ("dot", ports), arrivals, expected


def gen_dot_three_depths():
    """three ports at three different tag depths (c: 0, b: 0.x, a: 0.x.y): broadcasting has to pass through two levels, for every
    arrival order"""
    leaves = set()
    while len(leaves) < rng.randint(2, 3):
        leaves.add(".".join(["0", rng.choice(["0", "1", "10"]), rng.choice(["0", "1"])]))
    depths = {"a": 3, "b": 2, "c": 1}
    arrivals = [(p, t) for p in ("a", "b", "c") for t in sorted({prefix(l, depths[p]) for l in leaves})]
    expected = Counter(tuple(sorted((p, l, f"{p}@{prefix(l, depths[p])}") for p in depths)) for l in leaves)
    return ("dot", ["a", "b", "c"]), arrivals, expected


def gen_cart():
    ports = ["a", "b"]
    n = {p: rng.randint(1, 3) for p in ports}
    idx = {p: rng.sample(INDICES, n[p]) for p in ports}
    arrivals = [(p, "0." + i) for p in ports for i in idx[p]]
    expected = Counter(tuple(sorted([("a", f"0.{i}.{j}", f"a@0.{i}"), ("b", f"0.{i}.{j}", f"b@0.{j}")])) for i in idx["a"] for j in idx["b"])
    return ("cart", ports), arrivals, expected


def gen_cart_depth2():
    """cartesian product with depth 2 (a cross product inside a nested scatter): the last TWO components of the tags are the scatter
    indices, the common prefix is kept; tokens of one port may share their last index and differ in the middle one"""
    def tags(k):
        out = set()
        while len(out) < k:
            out.add("0." + rng.choice(["0", "1"]) + "." + rng.choice(["0", "1", "10"]))
        return sorted(out)

    ta, tb = tags(rng.randint(1, 3)), tags(rng.randint(1, 2))
    arrivals = [("a", t) for t in ta] + [("b", t) for t in tb]
    # the full cross product: every pair of an `a` token and a `b` token exactly once (the composite tags are checked only for
    # arrival-order invariance: the statement does not spell out the tag rule for depth 2)
    return ("cart2", ["a", "b"]), arrivals, ("pairs", Counter((f"a@{x}", f"b@{y}") for x in ta for y in tb))


def gen_dot_over_cart():
    """dot(a, cart(b, c)): b and c are scattered independently below 0 (tags 0.i, 0.j); a carries the tag 0 (broadcast to every
    combination).  Expected: one combination per (i, j) with the tag 0.i.j"""
    ib, ic = rng.sample(INDICES, rng.randint(1, 2)), rng.sample(INDICES, rng.randint(1, 2))
    arrivals = [("a", "0")] + [("b", "0." + i) for i in ib] + [("c", "0." + j) for j in ic]
    expected = Counter(tuple(sorted([("a", f"0.{i}.{j}", "a@0"), ("b", f"0.{i}.{j}", f"b@0.{i}"), ("c", f"0.{i}.{j}", f"c@0.{j}")])) for i in ib for j in ic)
    return ("dot", ["a", ("cart", ["b", "c"])]), arrivals, expected


def gen_cart_over_dot():
    """cart(dot(a, b), c): a and b scattered together (same tags 0.i), c independently (0.j).  Expected: (a_i, b_i) x c_j, tag 0.i.j"""
    iab, ic = rng.sample(INDICES, rng.randint(1, 2)), rng.sample(INDICES, rng.randint(1, 2))
    arrivals = [(p, "0." + i) for p in ("a", "b") for i in iab] + [("c", "0." + j) for j in ic]
    expected = Counter(tuple(sorted([("a", f"0.{i}.{j}", f"a@0.{i}"), ("b", f"0.{i}.{j}", f"b@0.{i}"), ("c", f"0.{i}.{j}", f"c@0.{j}")])) for i in iab for j in ic)
    return ("cart", [("dot", ["a", "b"]), "c"]), arrivals, expected


def orders(arrivals):
    if len(arrivals) <= 6:
        return list(itertools.permutations(arrivals))
    out = [tuple(arrivals), tuple(reversed(arrivals))]
    for _ in range(150):
        x = list(arrivals)
        rng.shuffle(x)
        out.append(tuple(x))
    return out


def case(gen):
    tree, arrivals, expected = gen()
    if tree[0].startswith("cart") and any(not isinstance(ch, str) for ch in tree[1]):
        # recorded finding: a cartesian product over an inner combinator fails for every input
        try:
            asyncio.run(run(tree, arrivals))
        except AttributeError:
            KNOWN.add("KF-C02-cartesian-over-combinator")
            return None
    first = None
    for order in orders(arrivals):
        try:
            got = asyncio.run(run(tree, order))
        except Exception as e:  # an exception for some arrival order only is an order dependence too
            got = Counter({("exception", type(e).__name__, str(e)[:80]): 1})
        if first is None:
            first = (order, got)
        if got != first[1]:
            return {"failure": "the emitted combinations depend on the arrival order", "combinator": name_of(tree), "order_1": " ".join(f"{p}:{t}" for p, t in first[0]),
                    "order_2": " ".join(f"{p}:{t}" for p, t in order), "only_in_1": sorted((first[1] - got).elements())[:4], "only_in_2": sorted((got - first[1]).elements())[:4]}
        if isinstance(expected, tuple) and expected[0] == "pairs":
            pairs = Counter(tuple(sorted(v for (_, _, v) in combo)) for combo in got.elements())
            if pairs != expected[1]:
                return {"failure": "the cartesian product is not the full cross product", "combinator": name_of(tree), "order": " ".join(f"{p}:{t}" for p, t in order),
                        "missing": sorted((expected[1] - pairs).elements())[:4], "unexpected": sorted((pairs - expected[1]).elements())[:4]}
        elif expected is not None and got != expected:
            return {"failure": "the emitted combinations are not the ones the statement prescribes", "combinator": name_of(tree), "order": " ".join(f"{p}:{t}" for p, t in order),
                    "missing": sorted((expected - got).elements())[:4], "unexpected": sorted((got - expected).elements())[:4]}
    return None


GENS = [gen_dot, gen_dot_three_depths, gen_cart, gen_dot_over_cart, gen_cart_over_dot, gen_cart_depth2]


def mixed_port_case():
    """a dot product in which ONE port carries a tag and an ancestor of it (0 and 0.1 on port a).  The statement prescribes one combination
    per deepest tag and order invariance; which of the port's two candidates goes into the combination of 0.1 depends on the arrival order
    on the unchanged tree (recorded finding KF-C02-tag-and-ancestor-on-one-port).  Everything else about the output — the tags, the
    other ports' values, the number of combinations — must not depend on the order."""
    leaf_idx = rng.sample(INDICES, 2)
    own, other = f"0.{leaf_idx[0]}", f"0.{leaf_idx[1]}"
    arrivals = [("a", "0"), ("a", own), ("b", own)] + ([("b", other)] if rng.random() < 0.6 else [])
    tree = ("dot", ["a", "b"])
    raw, norm = set(), set()
    for order in itertools.permutations(arrivals):
        try:
            got = asyncio.run(run(tree, order))
        except Exception as e:  # noqa
            return {"failure": f"the combinator raised {type(e).__name__}: {e}", "combinator": name_of(tree), "order": " ".join(f"{p}:{t}" for p, t in order)}
        raw.add(tuple(sorted(got.items())))
        norm.add(tuple(sorted(Counter(tuple((p, t, "a@<0 or own>" if (p == "a" and t == own) else v) for (p, t, v) in combo) for combo in got.elements()).items())))
    want = Counter([(("a", own, "a@<0 or own>"), ("b", own, f"b@{own}"))] + ([(("a", other, "a@0"), ("b", other, f"b@{other}"))] if len(arrivals) == 4 else []))
    if len(norm) != 1 or dict(next(iter(norm))) != dict(want):
        return {"failure": "a dot product with a tag and its ancestor on one port: the combinations (apart from which of the two candidates is taken) depend on the order or are "
                "not one per deepest tag", "arrivals": arrivals, "outcomes": [list(x) for x in list(norm)[:3]]}
    if len(raw) > 1:
        KNOWN.add("KF-C02-tag-and-ancestor-on-one-port")
    return None


def search(n):
    for _ in range(3):
        bad = mixed_port_case()
        if bad:
            return bad
    for k in range(n):
        bad = case(GENS[k % len(GENS)])
        if bad:
            return bad
    return None


def replay(path):
    load_replay(path)
    finish_replay(path, search(120), "(120 token-stream cases, every arrival order up to 6 tokens)")


def crosscheck(n):
    k = max(150, int(n) * 3)
    bad = search(k)
    print(json.dumps({"inputs": k, "native_contract_failures": 1 if bad else 0, "samples": [bad] if bad else [], "known_findings": sorted(KNOWN)}, default=str))
    sys.exit(1 if bad else 0)


main({"replay": replay, "crosscheck": crosscheck})
