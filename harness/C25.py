"""C25 native drivers: /bin/sh is the oracle.  Environment values and working directories with shell metacharacters must
reach the process verbatim through a fresh process (LocalConnector) and through the persistent shell (BaseConnector);
command sequences on the persistent shell must be observationally equal to fresh processes; validation of the quoting
axiom (a POSIX shell expands shlex.quote(x) to exactly x)."""
import asyncio
import json
import os
import shlex
import shutil
import subprocess
import sys
import tempfile

from common import finish_replay, load_replay, main, rng

from streamflow.core.deployment import ExecutionLocation
from streamflow.core.scheduling import AvailableLocation
from streamflow.deployment.connector.base import BaseConnector
from streamflow.deployment.connector.local import LocalConnector

KNOWN = set()
NASTY = ["plain", "two words", "$HOME", "`echo X`", 'q"uote', "single'quote", "back\\slash", "semi;colon", "a&&b", "star*", "$(id)", "tab\tx", "üñí", "", "#hash", "~", "a=b",
         "two\\\\backslashes", 'backslash\\"quote', "trailing\\", "cr\rx", "ff\x0cx", "ls\u2028x", "nl\nx"]


class PlainConnector(BaseConnector):
    async def deploy(self, external):
        pass

    async def undeploy(self, external):
        await super().undeploy(external)

    async def get_available_locations(self, service=None):
        return {"loc": AvailableLocation(name="loc", deployment=self.deployment_name, service=service, hostname="localhost", local=False, slots=1, hardware=None)}

    @classmethod
    def get_schema(cls):
        return json.dumps({"type": "object", "properties": {}})


def check_quote_axiom():
    """A-SHLEX/A-SH: sh expands shlex.quote(x) to the single word x"""
    for v in NASTY + ["".join(rng.choice("ab $`\"'\;&|*?~#()<>\n") for _ in range(rng.randint(0, 8))) for _ in range(40)]:
        out = subprocess.run(["/bin/sh", "-c", "printf '%s' " + shlex.quote(v)], capture_output=True).stdout.decode()
        if out != v:
            return ("shlex.quote", v, out)
    return None


async def verbatim(n):
    base_dir = os.path.realpath(tempfile.mkdtemp(prefix="c25."))
    local = LocalConnector(deployment_name="local", config_dir=tempfile.gettempdir())
    # a tiny read buffer: chunk boundaries fall inside multi-byte characters and inside the end marker
    conn = PlainConnector(deployment_name="base", config_dir=tempfile.gettempdir(), transferBufferSize=rng.choice([1, 2, 3, 5]))
    lloc = ExecutionLocation(deployment="local", name="__LOCAL__", local=True)
    bloc = ExecutionLocation(deployment="base", name="loc")
    try:
        for k in range(n):
            v = rng.choice(NASTY)
            w = rng.choice(["plain", "two words", "do$llar", "qu'ote", "semi;colon", "üñí", "two\\\\backslashes", 'bs\\"q'])
            wd = os.path.join(base_dir, w)
            os.makedirs(wd, exist_ok=True)
            env = {"SF_V": v, "SF_W": rng.choice(NASTY)}
            # (${X-UNSET}: a variable exported with the EMPTY value is still a set variable)
            cmd = ["printf", "'%s|%s|'", '"${SF_V-UNSET}"', '"${SF_W-UNSET}"', "&&", "pwd"]
            want = f"{env['SF_V']}|{env['SF_W']}|{wd}".strip()
            for name, c, loc in (("fresh process", local, lloc), ("persistent shell", conn, bloc)):
                try:
                    out = await asyncio.wait_for(c.run(location=loc, command=cmd, environment=env, workdir=wd, capture_output=True, timeout=20), 30)
                except asyncio.TimeoutError:
                    raise
                except Exception as e:  # noqa
                    out = (f"the connector raised {type(e).__name__}: {e}", -1)
                if out is None or out[1] != 0 or out[0] != want:
                    return {"failure": "environment value / working directory did not reach the command verbatim", "via": name, "environment": env, "workdir": wd,
                            "got": out, "expected": want}
        # sequences: state must not leak between commands of the persistent shell; output/status must equal a fresh process
        seq = [(["pwd"], None, None), (["echo", '"${SF_A-unset}"'], None, None), (["pwd"], {"SF_A": "it's"}, base_dir), (["false"], {"SF_A": "2"}, base_dir),
               (["printf", "no-newline"], None, None), (["pwd"], None, None), (["echo", '"${SF_A-unset}"'], None, None),
               (["printf", "'" + "€ü漢" * 40 + "'"], None, None), (["sh", "-c", "'exit 7'"], None, None), (["echo", "after"], None, None)]
        for i, (cmd, env, wd) in enumerate(seq):
            a = await asyncio.wait_for(conn.run(location=bloc, command=cmd, environment=env, workdir=wd, capture_output=True, timeout=20), 30)
            b = await asyncio.wait_for(local.run(location=lloc, command=cmd, environment=env, workdir=wd, capture_output=True, timeout=20), 30)
            if a != b:
                return {"failure": "persistent shell differs from a fresh process", "step": i, "command": cmd, "persistent": a, "fresh": b}
        # commands whose output is NOT captured: executed exactly once too (the end marker of the persistent shell is read in chunks of
        # a few bytes here, so it always straddles read boundaries)
        counter = os.path.join(base_dir, "count")
        for i in range(3):
            await asyncio.wait_for(conn.run(location=bloc, command=["sh", "-c", shlex.quote(f"echo x >> {shlex.quote(counter)}; echo some discarded output")],
                                            capture_output=False, timeout=4), 30)
            runs = len(open(counter).read().split())
            if runs != i + 1:
                return {"failure": "a command run without capturing its output was not executed exactly once", "executions_so_far": runs, "expected": i + 1}
        # large output through a fresh process (the pipe must be drained while waiting)
        big = await asyncio.wait_for(local.run(location=lloc, command=["head", "-c", "1048576", "/dev/zero", "|", "tr", "'\\0'", "x"], capture_output=True, timeout=30), 60)
        if big is None or len(big[0]) != 1048576 or big[1] != 0:
            return {"failure": "1 MiB of output through a fresh process is not returned completely", "got_len": None if big is None else len(big[0])}
    except asyncio.TimeoutError:
        return {"failure": "command hangs"}
    finally:
        await conn.undeploy(False)
    return None


async def timeout_reexecution():
    """the recorded finding: a command that outlives the timeout of the persistent shell is executed a second time"""
    d = tempfile.mkdtemp(prefix="c25t.")
    counter = os.path.join(d, "count")
    conn = PlainConnector(deployment_name="base", config_dir=tempfile.gettempdir(), transferBufferSize=2 ** 16)
    loc = ExecutionLocation(deployment="base", name="loc")
    try:
        try:
            await asyncio.wait_for(conn.run(location=loc, command=["sh", "-c", shlex.quote(f"echo x >> {counter}; sleep 2; echo late")], capture_output=True, timeout=1), 20)
        except Exception:
            pass
        await asyncio.sleep(2.5)
        n = len(open(counter).read().split()) if os.path.exists(counter) else 0
        return n
    finally:
        await conn.undeploy(False)


async def after_timeout_sequence():
    """commands that follow a timed-out command on the same persistent shell.  The command right after the timeout is covered by the
    recorded finding (the late output and end marker of the timed-out command sit in front of its output); every LATER command must
    again return its own output and exit status, as in a fresh process"""
    conn = PlainConnector(deployment_name="base", config_dir=tempfile.gettempdir(), transferBufferSize=2 ** 16)
    loc = ExecutionLocation(deployment="base", name="loc")
    try:
        await asyncio.wait_for(conn.run(location=loc, command=["echo", "warm-up"], capture_output=True, timeout=10), 30)
        try:
            await asyncio.wait_for(conn.run(location=loc, command=["sh", "-c", shlex.quote("sleep 1.5; echo late")], capture_output=True, timeout=1), 20)
        except Exception:
            pass
        got = []
        for k in range(4):
            cmd = ["sh", "-c", shlex.quote(f"printf 'out-{k}'; exit {k}")]
            try:
                got.append(await asyncio.wait_for(conn.run(location=loc, command=cmd, capture_output=True, timeout=10), 30))
            except Exception as e:  # noqa
                got.append(f"{type(e).__name__}: {e}")
        want = [(f"out-{k}", k) for k in range(4)]
        if got[1:] != want[1:]:
            return {"failure": "commands run after a timed-out command on the same persistent shell do not return their own output and exit status",
                    "returned": [repr(g)[:120] for g in got], "expected_from_the_second_on": want[1:]}
        return None
    finally:
        await conn.undeploy(False)


def template_case():
    """the queue-manager path: the command built by create_command is rendered into the job script through a command template and the
    script is run by sh.  Values with line-boundary characters other than newline (CR, FF, VT, U+2028, ...) reach the command verbatim
    (values with $, backtick, double quote or backslash are the recorded finding about the template's double quotes and are not used)"""
    import subprocess

    from streamflow.core.utils import create_command
    from streamflow.deployment.template import CommandTemplateMap

    values = ["plain value", "line1\nline2", "carriage\rreturn", "dos\r\nline", "form\x0cfeed and vertical\x0btab", "line\u2028separator and paragraph\u2029separator",
              "next\x85line and \x1c\x1d\x1e separators", "trailing newline\n"]
    tm = CommandTemplateMap(default="#!/bin/sh\n\n{{streamflow_command}}", template_map={"svc": "#!/bin/sh\n#SBATCH --nodes=1\n\ncd {{ streamflow_workdir }}\n{{ streamflow_command }}\n"})
    workdir = os.path.realpath(tempfile.mkdtemp(prefix="c25tpl."))
    try:
        for service in (None, "svc"):
            for i, value in enumerate(values):
                env = {"SF_VALUE": value}
                command = create_command(class_name="SlurmConnector", command=["printf", "'[%s]'", '"$SF_VALUE"'], environment=env, workdir=workdir)
                script = tm.get_command(command=command, template=service, environment=env, workdir=workdir)
                path = os.path.join(workdir, f"job_{service}_{i}.sh")
                with open(path, "w", encoding="utf-8", newline="") as f:
                    f.write(script)
                proc = subprocess.run(["sh", path], capture_output=True, timeout=30)
                out = proc.stdout.decode("utf-8", errors="replace")
                if proc.returncode != 0 or out != f"[{value}]":
                    return {"failure": "an environment value did not reach the command verbatim through the job-script template", "template": service or "default",
                            "value": repr(value), "got": repr(out), "exit": proc.returncode}
        return None
    finally:
        shutil.rmtree(workdir, ignore_errors=True)


def replay(path):
    d = load_replay(path)
    if (d.get("info") or {}).get("known") == "KF-C25-timeout-reexecution":
        n = asyncio.run(timeout_reexecution())
        finish_replay(path, {"executions_of_one_command_after_a_shell_timeout": n} if n != 1 else None)
    finish_replay(path, asyncio.run(verbatim(25)) or asyncio.run(after_timeout_sequence()) or template_case(), "(25 environment/workdir cases x 2 executors + command sequences, one with a timeout)")


def crosscheck(n):
    ax = check_quote_axiom()
    if ax:
        print(json.dumps({"axiom_disagreements": 1, "samples": [ax]}, default=str))
        sys.exit(3)
    k = max(6, int(n) // 5)
    bad = asyncio.run(verbatim(k)) or asyncio.run(after_timeout_sequence()) or template_case()
    if asyncio.run(timeout_reexecution()) != 1:
        KNOWN.add("KF-C25-timeout-reexecution")
    from streamflow.deployment.template import CommandTemplateMap

    rendered = CommandTemplateMap("{{streamflow_environment}}\n{{streamflow_command}}").get_command("true", environment={"A": "$HOME"})
    if 'export A="$HOME"' in rendered:
        KNOWN.add("KF-C25-template-env-quoting")
    print(json.dumps({"inputs": k * 2 + 11, "native_contract_failures": 1 if bad else 0, "samples": [bad] if bad else [], "known_findings": sorted(KNOWN)}, default=str))
    sys.exit(1 if bad else 0)


main({"replay": replay, "crosscheck": crosscheck})
