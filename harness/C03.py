"""C03 native drivers: random put/get/subscribe histories on the real Port classes against a reference model taken from
the statement (every consumer sees every token once, in put order; filters admit; boundary rules fire when complete)."""
import asyncio
import json
import sys

from common import finish_replay, load_replay, main, rng

from streamflow.core.workflow import Port, Status, Token
from streamflow.workflow.port import BoundaryAction, FilterTokenPort, InterWorkflowPort
from streamflow.workflow.token import TerminationToken

WF = None  # ports only keep a reference to the workflow


async def drain(port, consumer, n):
    return [await asyncio.wait_for(port.get(consumer), 5) for _ in range(n)]


async def plain_history():
    """late and early subscribers, interleaved puts and gets, same-tag tokens"""
    kind = rng.choice(["plain", "filter"])
    if kind == "plain":
        port, admit = Port(WF, "p"), (lambda t: True)
    else:
        admit = lambda t: isinstance(t, TerminationToken) or int(t.value) % 2 == 0
        port = FilterTokenPort(WF, "p", filter_function=lambda t: int(t.value) % 2 == 0)
    model, seen, closed, no_close = [], {}, set(), set()
    consumers = [f"c{i}" for i in range(rng.randint(1, 4))]
    for step in range(rng.randint(3, 25)):
        if rng.random() < 0.55:
            tok = Token(value=step, tag=rng.choice(["0", "0.1", "0.2", "0.10"]))
            port.put(tok)
            if admit(tok):
                model.append(tok)
        else:
            c = rng.choice(consumers)
            k = seen.get(c, 0)
            if k < len(model):
                got = await asyncio.wait_for(port.get(c), 5)
                if got is not model[k]:
                    return {"failure": "consumer did not get the next token in put order", "consumer": c, "position": k,
                            "got": (got.tag, got.value), "expected": (model[k].tag, model[k].value), "kind": kind}
                seen[c] = k + 1
                if rng.random() < 0.2 and c not in closed and c not in no_close:
                    # the consumer closes its side (Step.terminate does, once); it stays subscribed: reading on gives the next tokens only
                    closed.add(c)
                    port.close(c)
            elif rng.random() < 0.35:
                # nothing to read yet: the consumer waits, and its pending get() is cancelled (a timeout, a cancelled step); it must
                # not cost the consumer any later token
                if c not in port.queues:
                    no_close.add(c)  # (asyncio.Queue.task_done() bookkeeping: a consumer whose FIRST get() was cancelled has no spare task_done left for close())
                try:
                    await asyncio.wait_for(port.get(c), 0.005)
                    return {"failure": "get() returned although every token had been delivered to this consumer", "consumer": c, "kind": kind}
                except asyncio.TimeoutError:
                    pass
    if [id(t) for t in port.token_list] != [id(t) for t in model]:
        return {"failure": "token_list is not the admitted tokens in put order", "kind": kind}
    for c in consumers + ["late"]:
        k = seen.get(c, 0)
        rest = await drain(port, c, len(model) - k)
        if [id(t) for t in rest] != [id(t) for t in model[k:]]:
            return {"failure": "remaining tokens differ from the not-yet-delivered tail", "consumer": c, "kind": kind,
                    "got": [(t.tag, t.value) for t in rest], "expected": [(t.tag, t.value) for t in model[k:]]}
    return None


def deliveries(port):
    return [("T" if isinstance(t, TerminationToken) else (t.tag, t.value)) for t in port.token_list]


async def inter_history():
    """boundary rules on an InterWorkflowPort: each rule fires on the token that completes its tag set (and on every later
    one), delivering token / termination token to its port, in put order; the port itself gets each token exactly once"""
    src = InterWorkflowPort(WF, "src")
    sinks = [Port(WF, f"sink{i}") for i in range(2)]
    tags = [f"0.{i}" for i in rng.sample([0, 1, 2, 3, 9, 10, 11, 12], rng.randint(2, 6))]
    rng.shuffle(tags)
    rules = []  # (port, action, remaining list)
    expect = {id(p): [] for p in sinks + [src]}

    def fire(rule, tok):
        port, action, _ = rule
        if BoundaryAction.PROPAGATE in action:
            expect[id(port)].append((tok.tag, tok.value))
        if BoundaryAction.TERMINATE in action:
            expect[id(port)].append("T")

    def model_put(tok):
        matched_self = False
        for r in rules:
            if tok.tag in r[2]:
                r[2].remove(tok.tag)
            if not r[2]:
                fire(r, tok)
                if r[0] is src:
                    matched_self = True
        if not matched_self:
            expect[id(src)].append((tok.tag, tok.value))

    def model_add(port, btags, action):
        r = (port, action, list(btags))
        rules.append(r)
        for tok in [t for t in list(src.token_list) if not isinstance(t, TerminationToken)]:
            if tok.tag in r[2]:
                r[2].remove(tok.tag)
            if not r[2]:
                fire(r, tok)

    pending = list(tags)
    for step in range(rng.randint(4, 14)):
        if pending and rng.random() < 0.6:
            tok = Token(value=step, tag=pending.pop(0))
            model_put(tok)
            src.put(tok)
        else:
            port = rng.choice(sinks + [src])
            action = rng.choice([BoundaryAction.PROPAGATE, BoundaryAction.TERMINATE, BoundaryAction.PROPAGATE | BoundaryAction.TERMINATE])
            btags = rng.sample(tags, rng.randint(1, min(3, len(tags))))
            model_add(port, btags, action)
            src.add_inter_port(port, btags, action)
        for p in sinks + [src]:
            if deliveries(p) != expect[id(p)]:
                return {"failure": "deliveries differ from the rule semantics", "port": p.name, "got": deliveries(p), "expected": expect[id(p)],
                        "put_order_tags": tags}
    return None


async def search(n):
    for k in range(n):
        try:
            bad = await (plain_history() if k % 2 else inter_history())
        except asyncio.TimeoutError:
            bad = {"failure": "a token that was put on the port is never delivered to a consumer that reads it (get() still blocked after 5 s)",
                   "history": "plain" if k % 2 else "inter-workflow"}
        except Exception as e:  # noqa
            bad = {"failure": f"the port raised {type(e).__name__}: {e}", "history": "plain" if k % 2 else "inter-workflow"}
        if bad:
            return bad
    return None


def replay(path):
    load_replay(path)
    finish_replay(path, asyncio.run(search(1500)), "(1500 random port histories)")


def crosscheck(n):
    k = int(n) * 6
    bad = asyncio.run(search(k))
    print(json.dumps({"inputs": k, "native_contract_failures": 1 if bad else 0, "samples": [bad] if bad else []}, default=str))
    sys.exit(1 if bad else 0)


main({"replay": replay, "crosscheck": crosscheck})
