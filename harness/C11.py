"""C11/C10/C12 native drivers: the real DefaultScheduler on locations with a fixed hardware capacity, driven by random
schedule / notify histories.  Oracle from the statements: reserved cores and memory never exceed the capacity; they are
exactly the sum over the jobs that are FIREABLE or RUNNING; zero once every job has left those states; a waiting request is
granted as soon as a release makes it fit."""
import asyncio
import json
import logging
import os
import shutil
import sys
import tempfile

from common import finish_replay, load_replay, main, rng

import streamflow.deployment.connector
from streamflow.core.config import BindingConfig
from streamflow.core.deployment import DeploymentConfig, Target
from streamflow.core.scheduling import AvailableLocation, Hardware, Storage
from streamflow.core.workflow import Job, Status
from streamflow.cwl.hardware import CWLHardwareRequirement
from streamflow.deployment.connector import LocalConnector
from streamflow.log_handler import logger
from streamflow.main import build_context

logger.setLevel(logging.CRITICAL)
KNOWN = set()
CAP_CORES, CAP_MEM = 4.0, 4096.0


class FixedHardwareConnector(LocalConnector):
    hardware = None

    async def get_available_locations(self, service=None):
        return {self.deployment_name: AvailableLocation(name=self.deployment_name, deployment=self.deployment_name, service=service, hostname="localhost",
                                                        local=True, slots=1, hardware=self.hardware)}


from streamflow.data import remotepath as _remotepath

_REAL_USAGES = _remotepath.get_storage_usages
_orig_usages = None


async def _flaky_usages(context, location, hardware):
    # the measurement of the job directories can fail (lost connection): the reservation must be released all the same
    from streamflow.core.exception import WorkflowExecutionException

    if rng.random() < 0.3:
        raise WorkflowExecutionException("connection lost")
    return {k: 0 for k in hardware.storage}


async def history(in_protocol=True):
    from streamflow.data import remotepath

    remotepath.get_storage_usages = _flaky_usages
    streamflow.deployment.connector.connector_classes["fixed-hardware"] = FixedHardwareConnector
    workdir = tempfile.mkdtemp(prefix="c11.")
    ctx = build_context({"database": {"type": "default", "config": {"connection": ":memory:"}}, "path": workdir})
    bad = None
    try:
        cfg = DeploymentConfig(name="dep", type="fixed-hardware", config={}, external=True, lazy=False, workdir=workdir)
        await ctx.deployment_manager.deploy(cfg)
        conn = ctx.deployment_manager.get_connector("dep")
        conn.hardware = Hardware(cores=CAP_CORES, memory=CAP_MEM, storage={os.sep: Storage(os.sep, 10 ** 7)})
        binding = BindingConfig(targets=[Target(deployment=cfg, service=None, workdir=workdir)])
        sched = ctx.scheduler
        jobs, pending = {}, {}
        trace = []

        def reserved():
            hw = sched.hardware_locations.get("dep")
            return (hw.cores, hw.memory) if hw else (0.0, 0.0)

        def expected():
            c = sum(j["cores"] for j in jobs.values() if j["status"] in (Status.FIREABLE, Status.RUNNING))
            m = sum(j["mem"] for j in jobs.values() if j["status"] in (Status.FIREABLE, Status.RUNNING))
            return (float(c), float(m))

        for step in range(rng.randint(4, 14)):
            for name, task in list(pending.items()):
                if task.done():
                    task.result()
                    jobs[name]["status"] = Status.FIREABLE
                    del pending[name]
            act = rng.random()
            retry = [n for n, j in jobs.items() if n not in pending and j["status"] == Status.FAILED]
            if act < 0.25 and retry and in_protocol:
                # the same job is scheduled again after a failure (retry without an intermediate rollback)
                name = rng.choice(retry)
                j = jobs[name]
                req = CWLHardwareRequirement(cwl_version="v1.2", cores=j["cores"], memory=j["mem"], tmpdir=1, outdir=1) if j["cores"] else None
                job = Job(name=name, workflow_id=0, inputs={}, input_directory=None, output_directory=None, tmp_directory=None)
                j["status"] = Status.WAITING
                pending[name] = asyncio.create_task(sched.schedule(job, binding, req))
                trace.append(("reschedule", name))
            elif act < 0.4 and len(jobs) < 6:
                name = f"/step/0.{len(jobs)}"
                # (now and then a request that the location can NEVER satisfy, also as the very first one: it stays waiting)
                cores, mem = rng.choice([1, 2, 3, 3, 6]), rng.choice([256, 1024, 2048, 2048, 8192])
                req = CWLHardwareRequirement(cwl_version="v1.2", cores=cores, memory=mem, tmpdir=1, outdir=1)
                if rng.random() < (0.5 if not jobs else 0.15):
                    # a step without any hardware requirement (often the first one a location sees): it reserves nothing
                    cores, mem, req = 0, 0, None
                job = Job(name=name, workflow_id=0, inputs={}, input_directory=None, output_directory=None, tmp_directory=None)
                jobs[name] = {"cores": cores, "mem": mem, "status": Status.WAITING}
                pending[name] = asyncio.create_task(sched.schedule(job, binding, req))
                trace.append(("schedule", name, cores, mem))
            else:
                cands = [n for n, j in jobs.items() if n not in pending]
                if not cands:
                    continue
                name = rng.choice(cands)
                cur = jobs[name]["status"]
                if in_protocol:
                    nxt = {Status.FIREABLE: [Status.RUNNING, Status.FIREABLE, Status.FAILED, Status.CANCELLED], Status.RUNNING: [Status.COMPLETED, Status.FAILED, Status.RUNNING],
                           Status.COMPLETED: [Status.COMPLETED], Status.FAILED: [Status.RECOVERY, Status.FAILED], Status.RECOVERY: [Status.ROLLBACK],
                           Status.ROLLBACK: [Status.ROLLBACK], Status.CANCELLED: [Status.CANCELLED]}.get(cur, [cur])
                else:
                    nxt = [Status.RUNNING, Status.FIREABLE, Status.COMPLETED, Status.FAILED]
                new = rng.choice(nxt)
                await sched.notify_status(name, new)
                jobs[name]["status"] = new
                trace.append(("notify", name, new.name))
            for _ in range(50):
                await asyncio.sleep(0)
            for name, task in list(pending.items()):
                if task.done() or (name in sched.job_allocations and sched.job_allocations[name].status == Status.FIREABLE):
                    # granted: the allocation exists (the schedule() coroutine itself may need a few more loop turns to return)
                    await asyncio.wait_for(task, 10)
                    jobs[name]["status"] = Status.FIREABLE
                    del pending[name]
            got, want = reserved(), expected()
            if got[0] > CAP_CORES + 1e-9 or got[1] > CAP_MEM + 1e-9:
                bad = {"failure": "C10: reserved hardware exceeds the location's capacity", "reserved": got, "capacity": (CAP_CORES, CAP_MEM), "trace": trace[-8:]}
                break
            if got != want:
                bad = {"failure": "C11: reserved cores/memory differ from the sum over fireable and running jobs", "reserved": got, "expected": want, "trace": trace[-8:]}
                break
            # C12: no request stays waiting while it would fit
            for name in pending:
                j = jobs[name]
                if want[0] + j["cores"] <= CAP_CORES and want[1] + j["mem"] <= CAP_MEM:
                    bad = {"failure": "C12: a request that fits is still waiting", "job": name, "reserved": got, "trace": trace[-8:]}
                    break
            if bad:
                break
        for t in pending.values():
            t.cancel()
    except Exception as e:  # a double release raises (negative storage) — that is a failure of C11 too
        bad = {"failure": f"exception {type(e).__name__}: {e}", "trace": trace[-8:] if 'trace' in dir() else None}
    finally:
        try:
            await ctx.deployment_manager.undeploy_all()
            await ctx.close()
        except Exception:
            pass
        shutil.rmtree(workdir, ignore_errors=True)
    return bad


async def multi_target_history():
    """jobs bound to TWO targets (each a deployment with its own capacity): a job that waited for a full target and was placed on the
    other one must not be placed a second time when the first target frees up; per location, the reservation is the sum over the
    fireable and running jobs allocated THERE"""
    from streamflow.data import remotepath

    remotepath.get_storage_usages = _flaky_usages
    streamflow.deployment.connector.connector_classes["fixed-hardware"] = FixedHardwareConnector
    workdir = tempfile.mkdtemp(prefix="c11m.")
    ctx = build_context({"database": {"type": "default", "config": {"connection": ":memory:"}}, "path": workdir})
    bad = None
    try:
        targets, cap = [], {}
        for name in ("depA", "depB"):
            cfg = DeploymentConfig(name=name, type="fixed-hardware", config={}, external=True, lazy=False, workdir=workdir)
            await ctx.deployment_manager.deploy(cfg)
            cap[name] = float(rng.choice([1, 2]))
            ctx.deployment_manager.get_connector(name).hardware = Hardware(cores=cap[name], memory=CAP_MEM, storage={os.sep: Storage(os.sep, 10 ** 7)})
            targets.append(Target(deployment=cfg, service=None, workdir=workdir))
        sched = ctx.scheduler
        jobs, pending, trace = {}, {}, []
        for step in range(rng.randint(5, 14)):
            if rng.random() < 0.5 and len(jobs) < 6:
                name = f"/step/0.{len(jobs)}"
                req = CWLHardwareRequirement(cwl_version="v1.2", cores=1, memory=100, tmpdir=1, outdir=1)
                job = Job(name=name, workflow_id=0, inputs={}, input_directory=None, output_directory=None, tmp_directory=None)
                jobs[name] = Status.WAITING
                pending[name] = asyncio.create_task(sched.schedule(job, BindingConfig(targets=list(targets)), req))
                trace.append(("schedule", name))
            else:
                live = [n for n, st in jobs.items() if n not in pending and st in (Status.FIREABLE, Status.RUNNING)]
                if live:
                    n = rng.choice(live)
                    new = Status.RUNNING if jobs[n] == Status.FIREABLE and rng.random() < 0.6 else Status.COMPLETED
                    await sched.notify_status(n, new)
                    jobs[n] = new
                    trace.append(("notify", n, new.name))
            for _ in range(60):
                await asyncio.sleep(0)
            for n, t in list(pending.items()):
                if t.done() or (n in sched.job_allocations and sched.job_allocations[n].status == Status.FIREABLE):
                    await asyncio.wait_for(t, 10)
                    jobs[n] = Status.FIREABLE
                    del pending[n]
            for loc in ("depA", "depB"):
                hw = sched.hardware_locations.get(loc)
                got = hw.cores if hw else 0.0
                want = float(sum(1 for n, a in sched.job_allocations.items() if jobs.get(n) in (Status.FIREABLE, Status.RUNNING) and a.status in (Status.FIREABLE, Status.RUNNING)
                                 and any(l.name == loc for l in a.locations)))
                if got > cap[loc] + 1e-9:
                    bad = {"failure": "C10: reserved cores exceed the capacity of a target", "location": loc, "reserved": got, "capacity": cap[loc], "trace": trace[-8:]}
                elif got != want:
                    bad = {"failure": "C11: the cores reserved on a target differ from the sum over the fireable and running jobs allocated there", "location": loc,
                           "reserved": got, "expected": want, "trace": trace[-8:]}
                if bad:
                    break
            if bad:
                break
        for t in pending.values():
            t.cancel()
    except Exception as e:
        bad = {"failure": f"exception {type(e).__name__}: {e}"}
    finally:
        try:
            await ctx.deployment_manager.undeploy_all()
            await ctx.close()
        except Exception:
            pass
        shutil.rmtree(workdir, ignore_errors=True)
    return bad


async def real_usage_history(variant=None):
    """the release of a completed job measures the job's directories with the REAL get_storage_usages: the directories hold a regular
    file, a link to a large file elsewhere and a dangling link.  Cores and memory go back to zero whatever the directories contain,
    and the storage kept is what the job really left there (links are not followed)"""
    _remotepath.get_storage_usages = _REAL_USAGES
    streamflow.deployment.connector.connector_classes["fixed-hardware"] = FixedHardwareConnector
    workdir = tempfile.mkdtemp(prefix="c11r.")
    ctx = build_context({"database": {"type": "default", "config": {"connection": ":memory:"}}, "path": workdir})
    bad = None
    try:
        cfg = DeploymentConfig(name="dep", type="fixed-hardware", config={}, external=True, lazy=False, workdir=workdir)
        await ctx.deployment_manager.deploy(cfg)
        ctx.deployment_manager.get_connector("dep").hardware = Hardware(cores=CAP_CORES, memory=CAP_MEM, storage={os.sep: Storage(os.sep, 10 ** 6)})
        # (directory names of which one is a string prefix of the other, as numbered job directories are: out-1, out-10)
        variants = [{"output": "output", "tmp": "tmp"}, {"output": "job-1", "tmp": "job-10"}, {"output": "job_b", "tmp": "job_b.tmp"}]
        names = variants[variant % 3] if variant is not None else rng.choice(variants)
        dirs = {k: os.path.join(workdir, names.get(k, k)) for k in ("input", "output", "tmp", "elsewhere")}
        for d in dirs.values():
            os.makedirs(d)
        job = Job(name="/step/0.0", workflow_id=0, inputs={}, input_directory=dirs["input"], output_directory=dirs["output"], tmp_directory=dirs["tmp"])
        req = CWLHardwareRequirement(cwl_version="v1.2", cores=2, memory=200, tmpdir=10, outdir=10)
        await asyncio.wait_for(ctx.scheduler.schedule(job, BindingConfig(targets=[Target(deployment=cfg, service=None, workdir=workdir)]), req), 30)
        await ctx.scheduler.notify_status(job.name, Status.RUNNING)
        open(os.path.join(dirs["output"], "out.dat"), "wb").write(b"x" * (1 << 20))
        open(os.path.join(dirs["tmp"], "scratch.dat"), "wb").write(b"z" * (2 << 20))
        open(os.path.join(dirs["elsewhere"], "big.dat"), "wb").write(b"y" * (4 << 20))
        kind = rng.choice(["link to a file elsewhere", "dangling link", "both"])
        if kind in ("link to a file elsewhere", "both"):
            os.symlink(os.path.join(dirs["elsewhere"], "big.dat"), os.path.join(dirs["output"], "linked.dat"))
        if kind in ("dangling link", "both"):
            os.symlink(os.path.join(dirs["tmp"], "removed.tmp"), os.path.join(dirs["output"], "dangling.dat"))
        try:
            await ctx.scheduler.notify_status(job.name, Status.COMPLETED)
        except Exception as e:
            bad = {"failure": f"notify_status(COMPLETED) raised {type(e).__name__}: {e}", "job_directory_holds": kind}
        hw = ctx.scheduler.hardware_locations.get("dep")
        if bad is None and hw is not None and (hw.cores != 0 or hw.memory != 0):
            bad = {"failure": "C11: cores/memory still reserved after the job completed", "reserved": (hw.cores, hw.memory), "job_directory_holds": kind}
        if bad is None and hw is not None:
            kept = sum(s.size for s in hw.storage.values())
            if kept > 3.5:  # MiB: the job left a 1 MiB and a 2 MiB file; what its links point to is not its usage
                bad = {"failure": "the storage kept for a completed job counts what its symbolic links point to", "kept_MiB": kept, "job_directory_holds": kind}
            elif kept < 2.99:
                bad = {"failure": "the storage kept for a completed job is less than the measured usage of its directories (1 MiB in the output directory, 2 MiB in the temporary one)",
                       "kept_MiB": kept, "directories": names}
    except Exception as e:
        bad = {"failure": f"exception {type(e).__name__}: {e}"}
    finally:
        try:
            await ctx.deployment_manager.undeploy_all()
            await ctx.close()
        except Exception:
            pass
        shutil.rmtree(workdir, ignore_errors=True)
    return bad


class _Host(LocalConnector):
    def __init__(self, name, workdir, cores, slots=None):
        super().__init__(name, workdir)
        self.cores, self.slots = cores, slots

    async def get_available_locations(self, service=None):
        hw = None if self.slots is not None else Hardware(cores=self.cores, memory=10 ** 6, storage={os.sep: Storage(os.sep, 10 ** 7)})
        return {"host": AvailableLocation(name="host", deployment=self.deployment_name, service=service, hostname="localhost", local=True,
                                          slots=self.slots if self.slots is not None else 1, hardware=hw)}


def _stacked_class():
    from streamflow.deployment.wrapper import ConnectorWrapper

    class _Stacked(ConnectorWrapper):
        def __init__(self, name, workdir, connector, loc_name, cores, slots=None, stacked=True):
            super().__init__(name, workdir, connector, None, 2 ** 16)
            self.loc_name, self.cores, self.slots, self.stacked = loc_name, cores, slots, stacked

        async def deploy(self, external):
            pass

        async def undeploy(self, external):
            pass

        @classmethod
        def get_schema(cls):
            return "{}"

        async def get_available_locations(self, service=None):
            inner = next(iter((await self.connector.get_available_locations()).values()))
            hw = None if self.slots is not None else Hardware(cores=self.cores, memory=10 ** 6, storage={os.sep: Storage(os.sep, 10 ** 7)})
            names = [self.loc_name] if getattr(self, "replicas", 1) == 1 else [f"{self.loc_name}-r{i}" for i in range(self.replicas)]
            return {n: AvailableLocation(name=n, deployment=self.deployment_name, service=service, hostname="localhost", local=True,
                                         slots=self.slots if self.slots is not None else 1,
                                         hardware=None if hw is None else Hardware(cores=hw.cores, memory=hw.memory, storage={os.sep: Storage(os.sep, 10 ** 7)}),
                                         stacked=self.stacked, wraps=inner) for n in names}

    return _Stacked


async def replica_history():
    """one deployment exposing 2..3 replica locations (containers) that are all stacked on ONE host, jobs that take 1..R of them: on the
    replicas and on the host the reservation is, at every point, the sum over the fireable and running jobs of what each of their
    locations needs (once per location a job holds), never more than the level has, and zero once every job has ended"""
    workdir = tempfile.mkdtemp(prefix="c10r.")
    ctx = build_context({"database": {"type": "default", "config": {"connection": ":memory:"}}, "path": workdir})
    Stacked = _stacked_class()
    bad = None
    try:
        host_cap, rep_cap, R = float(rng.choice([4, 6, 8])), float(rng.choice([2, 3, 4])), rng.randint(2, 3)
        host = _Host("host-dep", workdir, host_cap)
        cont = Stacked("cont", workdir, host, "c", rep_cap, stacked=True)
        cont.replicas = R
        ctx.deployment_manager.deployments_map.update({"host-dep": host, "cont": cont})
        caps = {"host": host_cap, **{f"c-r{i}": rep_cap for i in range(R)}}
        sched = ctx.scheduler
        jobs, pending, need, trace = {}, {}, {}, []

        def reserved():
            return {k: v.cores for k, v in sched.hardware_locations.items() if v.cores}

        for step in range(rng.randint(4, 14)):
            if rng.random() < 0.55 and len(jobs) < 6:
                name = f"/step/0.{len(jobs)}"
                job = Job(name=name, workflow_id=0, inputs={}, input_directory=workdir, output_directory=workdir, tmp_directory=workdir)
                jobs[name] = Status.WAITING
                need[name] = rng.choice([1, 1, 2])
                nloc = rng.randint(1, R)
                tg = Target(deployment=DeploymentConfig(name="cont", type="stacked", config={}), workdir=workdir, locations=nloc)
                req = CWLHardwareRequirement(cwl_version="v1.2", cores=need[name], memory=10, tmpdir=0, outdir=0)
                pending[name] = asyncio.create_task(sched.schedule(job, BindingConfig(targets=[tg]), req))
                trace.append(("schedule", name, f"{nloc} locations", f"{need[name]} cores each"))
            else:
                live = [n for n, st in jobs.items() if n not in pending and st in (Status.FIREABLE, Status.RUNNING)]
                if live:
                    n = rng.choice(live)
                    new = Status.RUNNING if jobs[n] == Status.FIREABLE and rng.random() < 0.5 else rng.choice([Status.COMPLETED, Status.FAILED])
                    await sched.notify_status(n, new)
                    jobs[n] = new
                    trace.append(("notify", n, new.name))
            for _ in range(50):
                await asyncio.sleep(0)
            for n, t in list(pending.items()):
                if t.done() or (n in sched.job_allocations and sched.job_allocations[n].status == Status.FIREABLE):
                    await asyncio.wait_for(t, 10)
                    jobs[n] = Status.FIREABLE
                    del pending[n]
            used = {}
            for n, alloc in sched.job_allocations.items():
                if alloc.status in (Status.FIREABLE, Status.RUNNING):
                    for loc in alloc.locations:
                        used[loc.name] = used.get(loc.name, 0.0) + need[n]
                        used["host"] = used.get("host", 0.0) + need[n]
            got = reserved()
            over = [k for k, u in used.items() if u > caps[k] + 1e-9]
            if over:
                bad = {"failure": "C10: the jobs active on a location need more than it has", "location": over[0], "needed": used[over[0]], "capacity": caps[over[0]], "trace": trace[-8:]}
                break
            # recorded finding KF-C11-replicas-share-a-host: the requirement booked on the shared host is summed over ALL the replicas the
            # deployment exposes (R) for every location a job holds, and released only once per held location
            held = {n: len(a.locations) for n, a in sched.job_allocations.items()}
            kf_host = sum(R * need[n] * held[n] for n, a in sched.job_allocations.items() if a.status in (Status.FIREABLE, Status.RUNNING)) \
                + sum((R - 1) * need[n] * held[n] for n, a in sched.job_allocations.items() if a.status in (Status.COMPLETED, Status.FAILED))
            want = {k: v for k, v in used.items() if v}
            if got != want and {k: v for k, v in got.items() if k != "host"} == {k: v for k, v in want.items() if k != "host"} and got.get("host", 0.0) == kf_host:
                KNOWN.add("KF-C11-replicas-share-a-host")
            elif got != want:
                bad = {"failure": "C11: the reservation on a replica or on the host they share is not the sum over the fireable and running jobs (once per location a job holds)",
                       "reserved_cores": got, "expected_cores": {k: v for k, v in used.items() if v}, "replicas": R, "trace": trace[-8:]}
                break
        for t in pending.values():
            t.cancel()
    except Exception as e:
        bad = {"failure": f"exception {type(e).__name__}: {e}", "trace": trace[-6:] if "trace" in dir() else None}
    finally:
        try:
            await ctx.close()
        except Exception:
            pass
        shutil.rmtree(workdir, ignore_errors=True)
    return bad


async def stacked_history(force_unstacked=False):
    """C10 on wrapped locations: one host under two chains of 1..3 wrappers, each level limited by cores (hardware) or by slots (no
    hardware information), wrappers stacked (their jobs also count on what they wrap) or not, the host also targeted directly now and
    then.  On EVERY level the active jobs that count there never need more than the level has."""
    workdir = tempfile.mkdtemp(prefix="c10s.")
    ctx = build_context({"database": {"type": "default", "config": {"connection": ":memory:"}}, "path": workdir})
    Stacked = _stacked_class()
    bad = None
    try:
        slot_mode = rng.random() < 0.35 and not force_unstacked
        host_cap = float(rng.choice([1, 2, 3]))
        host = _Host("host-dep", workdir, host_cap, slots=int(host_cap) if slot_mode else None)
        deployments = {"host-dep": host}
        caps = {"host": host_cap}
        stacked_flag = {}
        targets = []
        for s in ("a", "b"):
            conn = host
            stacked = rng.random() < 0.75 and not force_unstacked
            for lvl in range(rng.choice([1, 2, 2, 3, 3])):
                cap = float(rng.choice([2, 3, 4]))
                conn = Stacked(f"l{lvl}-{s}", workdir, conn, f"l{lvl}-{s}-loc", cap, slots=int(cap) if slot_mode else None, stacked=stacked)
                deployments[conn.deployment_name] = conn
                caps[f"l{lvl}-{s}-loc"] = cap
                stacked_flag[f"l{lvl}-{s}-loc"] = stacked
            targets.append(Target(deployment=DeploymentConfig(name=conn.deployment_name, type="stacked", config={}), workdir=workdir))
        if rng.random() < 0.5 or force_unstacked:
            # (the wrapped host is also a target of its own: what a non-stacked wrapper runs does not count there)
            targets += [Target(deployment=DeploymentConfig(name="host-dep", type="local", config={}), workdir=workdir)] * (3 if force_unstacked else 1)
        ctx.deployment_manager.deployments_map.update(deployments)
        sched = ctx.scheduler
        jobs, pending, trace, need = {}, {}, [], {}
        for step in range(rng.randint(4, 14)):
            if rng.random() < 0.55 and len(jobs) < 8:
                name = f"/step/0.{len(jobs)}"
                job = Job(name=name, workflow_id=0, inputs={}, input_directory=workdir, output_directory=workdir, tmp_directory=workdir)
                jobs[name] = Status.WAITING
                tg = rng.choice(targets)
                # (some requests need more than an inner level will ever have, also as the first request that level sees)
                need[name] = rng.choice([1, 1, 1, 2, 3])
                req = CWLHardwareRequirement(cwl_version="v1.2", cores=need[name], memory=10, tmpdir=0, outdir=0)
                pending[name] = asyncio.create_task(sched.schedule(job, BindingConfig(targets=[tg]), req))
                trace.append(("schedule", name, tg.deployment.name, need[name]))
            else:
                live = [n for n, st in jobs.items() if n not in pending and st in (Status.FIREABLE, Status.RUNNING)]
                if live:
                    n = rng.choice(live)
                    new = Status.RUNNING if jobs[n] == Status.FIREABLE and rng.random() < 0.6 else rng.choice([Status.COMPLETED, Status.FAILED])
                    await sched.notify_status(n, new)
                    jobs[n] = new
                    trace.append(("notify", n, new.name))
            for _ in range(50):
                await asyncio.sleep(0)
            for n, t in list(pending.items()):
                if t.done() or (n in sched.job_allocations and sched.job_allocations[n].status == Status.FIREABLE):
                    await asyncio.wait_for(t, 10)
                    jobs[n] = Status.FIREABLE
                    del pending[n]
            # what the active jobs need per level: a job counts on its own location and, through STACKED wrappers, on what they wrap
            used = {}
            for n, alloc in sched.job_allocations.items():
                if alloc.status in (Status.FIREABLE, Status.RUNNING):
                    for loc in alloc.locations:
                        l = loc
                        while l is not None:
                            used[l.name] = used.get(l.name, 0.0) + (1.0 if slot_mode else float(need[n]))
                            l = l.wraps if stacked_flag.get(l.name, False) else None
            for lname, u in used.items():
                if u > caps[lname] + 1e-9:
                    bad = {"failure": "C10: the jobs active on a location need more than it has", "location": lname, "needed": u, "capacity": caps[lname],
                           "limited_by": "slots" if slot_mode else "cores", "stacked": stacked_flag, "trace": trace[-8:]}
                    break
            if bad:
                break
        for t in pending.values():
            t.cancel()
    except Exception as e:
        bad = {"failure": f"exception {type(e).__name__}: {e}"}
    finally:
        try:
            await ctx.close()
        except Exception:
            pass
        shutil.rmtree(workdir, ignore_errors=True)
    return bad


async def _guard(coro, what):
    """a history in which a call on the scheduler never returns (a deadlock between the scheduler's condition and a per-job lock, a lost
    wake-up that leaves notify_status blocked) is a failure of the history, not of the driver"""
    try:
        return await asyncio.wait_for(coro, 90)
    except asyncio.TimeoutError:
        return {"failure": "C12: a schedule request or a status notification does not return (the scheduler hangs): every history ends within a second otherwise",
                "history": what}


async def search(n):
    if os.environ.get("VERIF_PROPERTY", "C11") == "C10":
        # on which storage of a location a job directory is booked (contracts/HW.py)
        import HW
        bad = HW.check_lookup(max(200, 10 * n))
        if bad:
            return bad
    for v in range(3):
        bad = await real_usage_history(v)
        if bad:
            return bad
    for _ in range(min(max(120, 4 * n), 2000)):
        bad = (await _guard(stacked_history(), "stacked wrappers") or await _guard(stacked_history(force_unstacked=True), "non-stacked wrappers")
               or await _guard(multi_target_history(), "two targets per job") or await _guard(replica_history(), "replicas sharing a host"))
        if bad:
            return bad
    for _ in range(min(max(80, 4 * n), 1500)):
        bad = await _guard(history(in_protocol=True), "one location")
        if bad:
            return bad
    # the recorded finding: notifications out of order
    if os.environ.get("VERIF_PROPERTY", "C11") == "C11":
        for _ in range(max(3, n // 4)):
            if await history(in_protocol=False):
                KNOWN.add("KF-C11-out-of-order-notifications")
                break
    return None


def replay(path):
    d = load_replay(path)
    if (d.get("info") or {}).get("known") == "KF-C11-out-of-order-notifications":
        for _ in range(30):
            bad = asyncio.run(history(in_protocol=False))
            if bad:
                finish_replay(path, bad)
        finish_replay(path, None, "(30 out-of-order histories)")
    finish_replay(path, asyncio.run(search(40)), "(40 in-protocol schedule/notify histories)")


def crosscheck(n):
    k = max(10, int(n) // 3)
    bad = asyncio.run(search(k))
    print(json.dumps({"inputs": k, "native_contract_failures": 1 if bad else 0, "samples": [bad] if bad else [], "known_findings": sorted(KNOWN)}, default=str))
    sys.exit(1 if bad else 0)


main({"replay": replay, "crosscheck": crosscheck})
