"""C33 native drivers: replay (concretise abstract-string counterexamples from a pool of tags) and cross-check of
the trusted string/path axioms of contracts/C33.py against CPython."""
import itertools
import asyncio
import json
import posixpath
import re
import sys

from common import finish_replay, load_replay, main, rng

from streamflow.core import utils

WF = re.compile(r"^0(\.(0|[1-9][0-9]*))*$")


def key(t):
    p = t.split(".")
    return (len(p), [int(x) for x in p])


def sign(x):
    return (x > 0) - (x < 0)


def tags(maxdepth=3, comps=(0, 1, 2, 9, 10, 11, 12, 100)):
    out = ["0"]
    for d in range(1, maxdepth):
        for c in itertools.product(comps, repeat=d):
            out.append("0." + ".".join(map(str, c)))
    return out


class Tok:
    def __init__(self, tag):
        self.tag = tag


def chains():
    base = tags(3, (0, 1, 9, 10, 12))
    for t in base:
        p = t.split(".")
        ch = [".".join(p[: i + 1]) for i in range(len(p))]
        for r in range(1, len(ch) + 1):
            for sub in itertools.combinations(ch, r):
                for perm in itertools.permutations(sub):
                    yield list(perm)


def replay(path):
    d = load_replay(path)
    unit = d["unit"]
    if unit == "compare_tags" or unit.startswith("lexlt") or unit == "numeric_not_lexicographic":
        ts = tags()
        for a in ts:
            for b in ts:
                r = utils.compare_tags(a, b)
                exp = sign((key(a) > key(b)) - (key(a) < key(b)))
                if sign(r) != exp:
                    finish_replay(path, {"tag1": a, "tag2": b, "result": r, "expected_sign": exp})
        finish_replay(path, None, f"({len(ts) ** 2} tag pairs tried)")
    if unit == "get_tag":
        n = 0
        for ch in chains():
            n += 1
            r = utils.get_tag([Tok(t) for t in ch])
            deepest = max(len(t.split(".")) for t in ch)
            if len(r.split(".")) != max(deepest, 1) or (r != "0" and r not in ch):
                finish_replay(path, {"tags": ch, "result": r})
        finish_replay(path, None, f"({n} chains tried)")
    if unit in ("get_job_step_name", "get_job_tag"):
        steps = ["/", "/a", "/a/b", "/s.1/b-c", "/x/y/z", "/0", "/a/0.1"]  # "/" is the step of a single-tool document
        for s in steps:
            for t in tags(3, (0, 1, 10)):
                j = posixpath.join(s, t)
                if utils.get_job_step_name(j) != s or utils.get_job_tag(j) != t:
                    finish_replay(path, {"job_name": j, "step": utils.get_job_step_name(j), "tag": utils.get_job_tag(j)})
        finish_replay(path, None)
    finish_replay(path, None, "(no native driver for this unit)")


def crosscheck(n):
    """validate the trusted axioms (A-STR, A-PATHLIB) on concrete strings; exit 3 on a disagreement"""
    n = int(n)
    bad = []
    checked = 0

    def rtag():
        d = rng.randint(1, 5)
        return ".".join(["0"] + [str(rng.choice([0, 1, 7, 9, 10, 11, 99, 100, 12345])) for _ in range(d - 1)])

    def prefix(a, b):
        pa, pb = a.split("."), b.split(".")
        return pa == pb[: len(pa)]

    for _ in range(n):
        a, b = rtag(), rtag()
        if rng.random() < 0.5:
            b = ".".join(a.split(".")[: rng.randint(1, len(a.split(".")))])
        checked += 1
        # wf_parts_are_naturals
        if not all(p.isdigit() and int(p) >= 0 for p in a.split(".")):
            bad.append(("wf_parts", a))
        # canonical_decimal_injective
        if key(a) == key(b) and a != b:
            bad.append(("injective", a, b))
        # root_tag
        if not (WF.match("0") and len("0".split(".")) == 1 and prefix("0", a) and len(a) >= 1):
            bad.append(("root", a))
        # prefix_chain_lengths
        for x, y in ((a, b), (b, a)):
            if prefix(x, y):
                dx, dy = len(x.split(".")), len(y.split("."))
                if not (dx <= dy and len(x) <= len(y) and ((dx < dy) == (len(x) < len(y)))):
                    bad.append(("chain", x, y))
        # job_name_splits
        s = "/" + "/".join(rng.choice(["a", "b.c", "step-1", "0", "x_y"]) for _ in range(rng.randint(0, 4)))
        j = posixpath.join(s, a)
        from pathlib import PurePosixPath

        if PurePosixPath(j).parent.as_posix() != s or PurePosixPath(j).name != a:
            bad.append(("pathlib", s, a))
    if bad:
        print(json.dumps({"inputs": checked, "axiom_disagreements": len(bad), "samples": bad[:3]}))
        sys.exit(3)
    wrong = asyncio.run(asyncio.wait_for(schedule_names(), 120))
    print(json.dumps({"inputs": checked, "axiom_disagreements": 0, "native_contract_failures": 1 if wrong else 0, "samples": [wrong] if wrong else []}))
    sys.exit(1 if wrong else 0)


async def schedule_names():
    """the job names the engine really builds: a real ScheduleStep (local deployment, in-memory database) for step names at the root
    (`/`, what a CWL document that is a single tool gets), one and two levels deep, tags with multi-digit components: every job name
    splits back into the step name and the tag"""
    import shutil
    import tempfile

    from streamflow.core.config import BindingConfig
    from streamflow.core.deployment import DeploymentConfig, Target
    from streamflow.core.workflow import Status, Token, Workflow
    from streamflow.main import build_context
    from streamflow.workflow.executor import StreamFlowExecutor
    from streamflow.workflow.port import ConnectorPort
    from streamflow.workflow.step import DeployStep, ScheduleStep
    from streamflow.workflow.token import JobToken, TerminationToken

    base = tempfile.mkdtemp(prefix="c33s.")
    context = build_context({"database": {"type": "default", "config": {"connection": ":memory:"}}, "path": base})
    try:
        for k, prefix in enumerate(["/", "/a", "/a/b", "/scatter-step"]):
            wf = Workflow(context=context, name=f"c33-{k}", config={})
            cfg = DeploymentConfig(name=f"site{k}", type="local", config={}, external=True, lazy=False, workdir=base)
            dep = wf.create_step(cls=DeployStep, name=posixpath.join("__deploy__", cfg.name), deployment_config=cfg, connector_port=wf.create_port(cls=ConnectorPort))
            sched = wf.create_step(cls=ScheduleStep, name=posixpath.join(prefix, "__schedule__"), job_prefix=prefix, connector_ports={cfg.name: dep.get_output_port()},
                                   binding_config=BindingConfig(targets=[Target(deployment=cfg)]))
            in_port = wf.create_port()
            sched.add_input_port("x", in_port)
            await wf.save(context.database)
            tags = ["0", "0.3", "0.10", "0.4.12"]
            for tag in tags:
                t = Token(value=tag, tag=tag, recoverable=True)
                await t.save(context.database, port_id=in_port.persistent_id)
                in_port.put(t)
            in_port.put(TerminationToken())
            await asyncio.wait_for(StreamFlowExecutor(wf).run(), 60)
            jobs = [t for t in sched.get_output_port("__job__").token_list if isinstance(t, JobToken)]
            for jt in jobs:
                await context.scheduler.notify_status(jt.value.name, Status.COMPLETED)
            if sorted(t.tag for t in jobs) != sorted(tags):
                return {"failure": "the schedule step did not create one job per tag", "step": prefix, "jobs": [t.value.name for t in jobs]}
            for jt in jobs:
                name = jt.value.name
                if utils.get_job_step_name(name) != prefix or utils.get_job_tag(name) != jt.tag:
                    return {"failure": "a job name built by the engine does not split back into its step name and tag", "step": prefix, "tag": jt.tag, "job_name": name,
                            "splits_into": [utils.get_job_step_name(name), utils.get_job_tag(name)]}
        return None
    finally:
        try:
            await context.deployment_manager.undeploy_all()
            await context.close()
        except Exception:
            pass
        shutil.rmtree(base, ignore_errors=True)


main({"replay": replay, "crosscheck": crosscheck})
