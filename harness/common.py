"""shared helpers for the native replay / cross-check drivers (run under /venv/bin/python, cwd = the tree under test)"""
import json
import os
import random
import sys

REPO = os.environ.get("VERIF_REPO", "/repo")
if REPO not in sys.path:
    sys.path.insert(0, REPO)
SEED = int(os.environ.get("VERIF_SEED", "0") or 0)
rng = random.Random(SEED)


def load_replay(path):
    return json.load(open(path))


def finish_replay(path, failing, note=""):
    """record the native outcome in the replay file; exit 1 iff a failing input was found on the real code"""
    d = json.load(open(path))
    d["native_replay"] = {"failing_input": failing, "note": note, "tree": REPO}
    json.dump(d, open(path, "w"), indent=1, default=str)
    if failing is not None:
        print(f"REPLAY reproduced on real code: {failing}")
        print("REPLAY-VERDICT: reproduced")
        sys.stdout.flush()
        sys.exit(1)
    print("REPLAY no failing input found natively " + note)
    sys.exit(0)


def main(modes):
    mode = sys.argv[1]
    arg = sys.argv[2] if len(sys.argv) > 2 else None
    if mode not in modes:
        print(f"mode {mode} not supported")
        sys.exit(2)
    modes[mode](arg)
