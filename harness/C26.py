"""C26 native driver (bounded; nothing of C26 is proved): random interleavings of concurrent deploy / use / undeploy requests on the
real DefaultDeploymentManager over a wraps chain inner <- mid <- outer of instrumented fake connectors (lazy or eager, with injected
deploy failures).  Oracle from the statement, evaluated on the connectors' call log:
  (1) a connector of a deployment is deployed at most once while that deployment is live;
  (2) a deploy request that returns normally returns after its (eager) connector finished deploying;
  (3) a wrapped deployment is never undeployed while a deployment wrapping it is live;
  (4) undeploy_all undeploys every live connector exactly once;
  (5) when a deployment fails, every request waiting for it fails instead of hanging (every request ends within the deadline)."""
import asyncio
import json
import os
import sys
from types import SimpleNamespace

from common import finish_replay, load_replay, main, rng

from streamflow.core.deployment import Connector, DeploymentConfig, WrapsConfig
from streamflow.deployment.connector import connector_classes
from streamflow.deployment.manager import DefaultDeploymentManager
from streamflow.deployment.wrapper import ConnectorWrapper

KNOWN = set()
LOG = []
FAIL = set()
DELAY = {}


class DeployFailure(Exception):
    pass


class _Mixin:
    @classmethod
    def get_schema(cls):
        return ""

    async def deploy(self, external):
        LOG.append(("deploy-start", self.deployment_name, id(self)))
        for _ in range(DELAY.get(self.deployment_name, 2)):
            await asyncio.sleep(0)
        if self.deployment_name in FAIL:
            LOG.append(("deploy-failed", self.deployment_name, id(self)))
            raise DeployFailure(self.deployment_name)
        LOG.append(("deploy-end", self.deployment_name, id(self)))

    async def undeploy(self, external):
        LOG.append(("undeploy-start", self.deployment_name, id(self)))
        await asyncio.sleep(0)
        LOG.append(("undeploy-end", self.deployment_name, id(self)))


class Inner(_Mixin, Connector):
    def __init__(self, deployment_name, config_dir, transferBufferSize=1024):
        super().__init__(deployment_name, config_dir, transferBufferSize)

    async def copy_local_to_remote(self, *a, **k): ...
    async def copy_remote_to_local(self, *a, **k): ...
    async def copy_remote_to_remote(self, *a, **k): ...

    async def get_available_locations(self, service=None):
        return {}

    async def get_shell(self, *a, **k): ...
    async def get_stream_reader(self, *a, **k): ...
    async def get_stream_writer(self, *a, **k): ...
    async def run(self, *a, **k): ...


class Outer(_Mixin, ConnectorWrapper):
    def __init__(self, deployment_name, config_dir, connector, service=None, **kwargs):
        super().__init__(deployment_name=deployment_name, config_dir=config_dir, connector=connector, service=service, transferBufferSize=1024)

    async def get_available_locations(self, service=None):
        return {}


WRAPS = {"mid": "inner", "outer": "mid"}


def config_of(name, lazy):
    return DeploymentConfig(name=name, type="fake-inner" if name == "inner" else "fake-outer", config={}, lazy=lazy[name],
                            wraps=WrapsConfig(deployment=WRAPS[name]) if name in WRAPS else None)


def live_set(upto):
    """deployments whose connector finished deploying and has not started undeploying, after the first `upto` log entries"""
    live = {}
    for kind, name, cid in LOG[:upto]:
        if kind == "deploy-end":
            live[name] = cid
        elif kind == "undeploy-start" and live.get(name) == cid:
            del live[name]
    return live


def check_log(lazy=None):
    active = {}  # name -> connector id being deployed or deployed
    for k, (kind, name, cid) in enumerate(LOG):
        if kind == "deploy-end" and lazy is not None and name in WRAPS and not lazy[WRAPS[name]] and not lazy[name] and WRAPS[name] not in live_set(k):
            return {"failure": "(3) a wrapper came up on a wrapped (eager) deployment that is not live: it was undeployed underneath the wrapper", "wrapper": name,
                    "wrapped": WRAPS[name], "log": LOG[max(0, k - 8):k + 1]}
        if kind == "deploy-start":
            if name in active:
                return {"failure": "(1) a second connector of a live deployment is deployed", "deployment": name, "log": LOG[max(0, k - 6):k + 1]}
            active[name] = cid
        elif kind in ("deploy-failed",):
            active.pop(name, None)
        elif kind == "undeploy-start":
            live = live_set(k)
            for w, inner in WRAPS.items():
                if inner == name and w in live:
                    return {"failure": "(3) a wrapped deployment is undeployed while a deployment wrapping it is live", "undeployed": name, "live_wrapper": w,
                            "log": LOG[max(0, k - 8):k + 1]}
        elif kind == "undeploy-end":
            if active.get(name) == cid:
                del active[name]
    for (name, cid) in {(n, c) for kind, n, c in LOG if kind == "deploy-end"}:
        n_un = sum(1 for kind, n, c in LOG if kind == "undeploy-start" and c == cid)
        if n_un > 1:
            return {"failure": "(4) a connector is undeployed more than once", "deployment": name, "times": n_un}
    return None


async def history():
    LOG.clear()
    FAIL.clear()
    DELAY.clear()
    connector_classes["fake-inner"] = Inner
    connector_classes["fake-outer"] = Outer
    lazy = {n: rng.random() < 0.4 for n in ("inner", "mid", "outer")}
    for n in ("inner", "mid", "outer"):
        DELAY[n] = rng.randint(0, 4)
    if rng.random() < 0.35:
        FAIL.add(rng.choice(["inner", "mid", "outer"]))
    in_file = {n: {"type": "fake-inner" if n == "inner" else "fake-outer", "config": {}, "external": False, "lazy": lazy[n], "scheduling_policy": None,
                   "wraps": WRAPS.get(n)} for n in ("inner", "mid", "outer")}
    context = SimpleNamespace(config={"path": os.path.join(os.getcwd(), "streamflow.yml"), "deployments": in_file})
    manager = DefaultDeploymentManager(context)
    names = ["inner", "mid", "outer"][: rng.randint(1, 3)]
    trace = []

    async def request(i, phase):
        # phase 1: concurrent deploy / use requests; phase 2: concurrent undeploy requests.  A deploy racing with an undeploy of the
        # same chain is not generated: the statement does not say what such a deploy request has to do
        kind = rng.choice(["deploy", "deploy", "deploy+use"]) if phase == 1 else "undeploy"
        name = rng.choice(names)
        for _ in range(rng.randint(0, 4)):
            await asyncio.sleep(0)
        trace.append((i, kind, name))
        res = []
        try:
            if kind.startswith("deploy"):
                await manager.deploy(config_of(name, lazy))
                mark = len(LOG)
                res.append(("deploy-returned", name, mark))
                if not lazy[name] and name not in live_set(mark) and not any(k2 == "undeploy-start" and n2 == name for k2, n2, _ in LOG[:mark]):
                    return {"failure": "(2) deploy() returned before the connector of the eager deployment finished deploying", "deployment": name,
                            "log": LOG[max(0, mark - 6):mark]}
            if kind == "deploy+use":
                c = manager.get_connector(name)
                if c is not None:
                    await c.get_available_locations()
            if kind == "undeploy":
                for _ in range(rng.randint(0, 3)):
                    await asyncio.sleep(0)
                await manager.undeploy(name)
        except Exception as e:  # a failed deployment makes its requests fail: allowed when a failure was injected along the chain
            chain = {name}
            while name in WRAPS:
                name = WRAPS[name]
                chain.add(name)
            if not (FAIL & chain) and not isinstance(e, (KeyError,)):
                return {"failure": f"a request failed although no deployment failure was injected: {type(e).__name__}: {e}", "request": trace[-1]}
            if not (FAIL & chain):
                return {"failure": f"a request failed although no deployment failure was injected: {type(e).__name__}: {e}", "request": trace[-1]}
        return None

    for phase in (1, 2):
        tasks = [asyncio.create_task(request(i, phase)) for i in range(rng.randint(1, 4) if phase == 1 else rng.randint(0, 3))]
        try:
            done = await asyncio.wait_for(asyncio.gather(*tasks), 20)
        except asyncio.TimeoutError:
            for t in tasks:
                t.cancel()
            return {"failure": "(5) a request did not end (it hangs)", "requests": trace, "lazy": lazy, "failing": sorted(FAIL), "log": LOG[-10:]}
        for r in done:
            if r:
                r.update({"requests": trace, "lazy": lazy, "failing": sorted(FAIL)})
                return r
    bad = check_log()
    if bad is None:
        before = len(LOG)
        live = live_set(before)
        try:
            await asyncio.wait_for(manager.undeploy_all(), 20)
        except asyncio.TimeoutError:
            return {"failure": "(4) undeploy_all does not end", "requests": trace, "lazy": lazy, "failing": sorted(FAIL), "log": LOG[-10:]}
        except Exception as e:
            return {"failure": f"(4) undeploy_all raised {type(e).__name__}: {e}", "requests": trace, "lazy": lazy, "failing": sorted(FAIL), "log": LOG[-10:]}
        for name, cid in live.items():
            n_un = sum(1 for kind, n, c in LOG[before:] if kind == "undeploy-start" and c == cid)
            if n_un != 1:
                bad = {"failure": f"(4) undeploy_all undeployed a live connector {n_un} times", "deployment": name, "log": LOG[before:]}
                break
        bad = bad or check_log()
    if bad:
        bad.update({"requests": trace, "lazy": lazy, "failing": sorted(FAIL)})
    return bad


async def race_history():
    """a request for a wrapper (which deploys what it wraps on the way) racing with undeploy requests for the WRAPPED deployments, which
    nobody requested by name: whenever the undeploy arrives — before, during or after the deployment of the wrapped connector — the
    wrapped deployment stays up as long as the wrapper is live"""
    LOG.clear()
    FAIL.clear()
    DELAY.clear()
    connector_classes["fake-inner"] = Inner
    connector_classes["fake-outer"] = Outer
    lazy = {"inner": False, "mid": False, "outer": rng.random() < 0.3}
    DELAY["inner"] = rng.randint(2, 10)
    DELAY["mid"] = rng.randint(1, 6)
    in_file = {n: {"type": "fake-inner" if n == "inner" else "fake-outer", "config": {}, "external": False, "lazy": lazy[n], "scheduling_policy": None,
                   "wraps": WRAPS.get(n)} for n in ("inner", "mid", "outer")}
    context = SimpleNamespace(config={"path": os.path.join(os.getcwd(), "streamflow.yml"), "deployments": in_file})
    manager = DefaultDeploymentManager(context)
    top = rng.choice(["mid", "outer"])
    below = ["inner"] if top == "mid" else ["inner", "mid"]
    trace = [("deploy", top)]

    async def undeploy_later(name, turns):
        for _ in range(turns):
            await asyncio.sleep(0)
        await manager.undeploy(name)

    tasks = [asyncio.create_task(manager.deploy(config_of(top, lazy)))]
    for _ in range(rng.randint(1, 3)):
        name, turns = rng.choice(below), rng.randint(0, 25)
        trace.append(("undeploy", name, f"after {turns} turns"))
        tasks.append(asyncio.create_task(undeploy_later(name, turns)))
    try:
        await asyncio.wait_for(asyncio.gather(*tasks), 20)
    except asyncio.TimeoutError:
        for t in tasks:
            t.cancel()
        return {"failure": "(5) a request did not end (it hangs)", "requests": trace, "lazy": lazy, "log": LOG[-10:]}
    except Exception as e:  # noqa
        return {"failure": f"a request failed although no deployment failure was injected: {type(e).__name__}: {e}", "requests": trace, "lazy": lazy}
    bad = check_log(lazy)
    if bad is None:
        before = len(LOG)
        live = live_set(before)
        try:
            await asyncio.wait_for(manager.undeploy_all(), 20)
        except asyncio.TimeoutError:
            return {"failure": "(4) undeploy_all does not end", "requests": trace, "lazy": lazy, "log": LOG[-10:]}
        except Exception as e:  # noqa
            return {"failure": f"(4) undeploy_all raised {type(e).__name__}: {e}", "requests": trace, "lazy": lazy, "log": LOG[-10:]}
        for name, cid in live.items():
            n_un = sum(1 for kind, n, c in LOG[before:] if kind == "undeploy-start" and c == cid)
            if n_un != 1:
                bad = {"failure": f"(4) undeploy_all undeployed a live connector {n_un} times", "deployment": name, "log": LOG[before:]}
                break
        bad = bad or check_log(lazy)
    if bad:
        bad.update({"requests": trace, "lazy": lazy})
    return bad


async def search(n):
    for _ in range(n):
        bad = await history() or await race_history()
        if bad:
            return bad
    return None


def replay(path):
    load_replay(path)
    finish_replay(path, asyncio.run(search(1500)), "(1500 random interleavings)")


def crosscheck(n):
    k = max(600, int(n) * 10)
    bad = asyncio.run(search(k))
    print(json.dumps({"inputs": k, "native_contract_failures": 1 if bad else 0, "samples": [bad] if bad else [], "known_findings": sorted(KNOWN)}, default=str))
    sys.exit(1 if bad else 0)


main({"replay": replay, "crosscheck": crosscheck})
