"""C24 native driver: every path operation performed through the shell commands of a non-local location ('remote') and through
the local filesystem API on two equal directory trees; results and resulting trees must agree.  Names with blanks, quotes,
dollar signs, glob metacharacters, leading dashes, unicode; contents with trailing newlines."""
import asyncio
import hashlib
import json
import os
import shutil
import stat
import sys
import tempfile

from common import finish_replay, load_replay, main, rng

from streamflow.core.deployment import ExecutionLocation
from streamflow.core.exception import WorkflowExecutionException
from streamflow.data.manager import DefaultDataManager
from streamflow.data.remotepath import LocalStreamFlowPath, RemoteStreamFlowPath, StreamFlowPath
from streamflow.deployment.connector import LocalConnector
from streamflow.deployment.connector.base import SubprocessStreamWriterWrapperContextManager

KNOWN = set()


class ShellConnector(LocalConnector):
    """a 'remote' location: reachable only through `sh -c <command text>`"""

    async def get_stream_writer(self, command, location):
        return SubprocessStreamWriterWrapperContextManager(
            coro=asyncio.create_subprocess_exec("sh", "-c", " ".join(command), stdin=asyncio.subprocess.PIPE,
                                                stdout=asyncio.subprocess.DEVNULL, stderr=asyncio.subprocess.DEVNULL))


class _DM:
    def __init__(self, connectors):
        self.connectors = connectors

    def get_connector(self, name):
        return self.connectors[name]


class _Ctx:
    def __init__(self, cwd):
        self.deployment_manager = _DM({"local": LocalConnector("local", cwd), "shell": ShellConnector("shell", cwd, transferBufferSize=7)})
        self.data_manager = DefaultDataManager(self)


NAMES = ["plain", "with space", "two  blanks", "quo'te", 'dq"uote', "do$llar", "$HOME", "back`tick", "star*", "ques?", "[br]", "-dash", "--", "semi;colon",
         "amp&", "pipe|", "unié日", "tab\there", "back\\slash", "hash#", "tilde~", "(par)", "{x,y}", "%p", "excl!"]
CONTENTS = ["", "x", "hello world", "line\n", "two\nlines\n", "  padded  ", "trailing blanks  \n\n", "日本語のテキスト" * 3, "$HOME `id` \"q\" 'q' \\ *"]


def snapshot(root):
    out = {}
    for dp, dn, fn in os.walk(root):
        for n in dn + fn:
            p = os.path.join(dp, n)
            rel = os.path.relpath(p, root)
            st = os.lstat(p)
            if stat.S_ISLNK(st.st_mode):
                out[rel] = ("link", os.readlink(p).replace(root, "<root>"))
            elif stat.S_ISDIR(st.st_mode):
                out[rel] = ("dir", stat.S_IMODE(st.st_mode) & 0o7700)
            else:
                out[rel] = ("file", open(p, "rb").read(), stat.S_IMODE(st.st_mode) & 0o7700, st.st_nlink > 1)
    return out


async def apply(op, root, base):
    """perform one operation under `root` (a StreamFlowPath); return an observable result (exceptions are results too)"""
    kind = op[0]
    p = root
    for part in op[1]:
        p = p / part
    try:
        if kind == "exists":
            return await p.exists()
        if kind == "is_file":
            return await p.is_file()
        if kind == "is_dir":
            return await p.is_dir()
        if kind == "is_symlink":
            return await p.is_symlink()
        if kind == "mkdir":
            await p.mkdir(mode=op[2], parents=op[3], exist_ok=op[4])
            return None
        if kind == "write_text":
            return await p.write_text(op[2])
        if kind == "read_text":
            return await p.read_text()
        if kind == "read_text_n":
            return await p.read_text(op[2])
        if kind == "symlink_text":
            # the target text is stored in the link as given (`./x`, `d//x`, `x/` are not the same link as `x`)
            await p.symlink_to(op[2])
            return None
        if kind == "size":
            return await p.size()
        if kind == "checksum":
            return await p.checksum()
        if kind == "rmtree":
            await p.rmtree()
            return None
        if kind == "chmod":
            await p.chmod(op[2])
            return None
        if kind in ("symlink_to", "hardlink_to"):
            t = root
            for part in op[2]:
                t = t / part
            await getattr(p, kind)(str(t))
            return None
        if kind == "resolve":
            r = await p.resolve()
            return None if r is None else os.path.relpath(str(r), base)
        if kind == "glob":
            return sorted([os.path.relpath(str(x), base) async for x in p.glob(op[2])])
        if kind == "walk":
            out = []
            n = 0
            async for dp, dn, fn in p.walk():
                out.append((os.path.relpath(str(dp), base), sorted(dn), sorted(fn)))
                n += 1
                if n > 200:
                    return "walk does not terminate (more than 200 directories reported for a tree of fewer)"
            return sorted(out)
    except UnicodeDecodeError:
        return "DECODE-ERROR"
    except (OSError, WorkflowExecutionException) as e:
        return "ERROR"
    raise AssertionError(kind)


def random_ops(n):
    ops, known_dirs, known_files, known_links = [], [()], [], []
    for _ in range(n):
        r = rng.random()
        if r < 0.2:
            d = rng.choice(known_dirs) + (rng.choice(NAMES),)
            ops.append(("mkdir", d, rng.choice([0o755, 0o700, 0o777]), rng.random() < 0.5, rng.random() < 0.6))
            known_dirs.append(d)
        elif r < 0.42:
            f = rng.choice(known_dirs) + (rng.choice(NAMES) + ".txt",)
            ops.append(("write_text", f, rng.choice(CONTENTS)))
            known_files.append(f)
        elif r < 0.52 and known_files:
            f = rng.choice(known_files)
            ops.append((rng.choice(["read_text", "size", "checksum", "is_file", "exists"]), f))
        elif r < 0.6:
            ops.append((rng.choice(["exists", "is_dir", "is_file", "is_symlink", "size", "checksum", "resolve"]), rng.choice(known_dirs + known_files + [("missing",)])))
        elif r < 0.68 and known_files:
            # (now and then the target was never created: a dangling link)
            t = rng.choice(known_files + known_dirs[1:] or known_files) if rng.random() < 0.8 else ("never created",)
            l = rng.choice(known_dirs) + (rng.choice(NAMES) + ".lnk",)
            ops.append((rng.choice(["symlink_to", "hardlink_to"]) if t in known_files else "symlink_to", l, t))
            known_links.append(l)
        elif r < 0.74 and known_files:
            # (permission bits and the setuid / setgid / sticky bits)
            ops.append(("chmod", rng.choice(known_files), rng.choice([0o600, 0o700, 0o400 | 0o200, 0o4755, 0o2770, 0o1777])))
        elif r < 0.76 and known_files:
            f = rng.choice(known_files)
            if rng.random() < 0.5:
                # the first n characters (ASCII contents only: the remote side counts bytes)
                ops.append(("read_text_n", f, rng.choice([0, 0, 1, 3, 1000])))
            else:
                l = f[:-1] + (rng.choice(NAMES) + ".rel.lnk",)
                ops.append(("symlink_text", l, rng.choice(["./", "", "x/../"]) + f[-1] + rng.choice(["", "", "/"])))
                known_links.append(l)
        elif r < 0.78 and known_links:
            # a link seen through the predicates: live, dangling (its target was removed or never existed), replaced
            ops.append((rng.choice(["exists", "is_symlink", "is_file", "is_dir"]), rng.choice(known_links)))
        elif r < 0.84:
            ops.append(("glob", rng.choice(known_dirs), rng.choice(["*", "*.txt", "*e*", "?*"])))
        elif r < 0.9:
            ops.append(("walk", rng.choice(known_dirs)))
        elif r < 0.95 and len(known_dirs) > 1:
            d = rng.choice(known_dirs[1:])
            ops.append(("rmtree", d))
            known_dirs = [x for x in known_dirs if x[: len(d)] != d]
            known_files = [x for x in known_files if x[: len(d)] != d]
    return ops


def has_symlink(path):
    if os.path.islink(path):
        return True
    for dp, dn, fn in os.walk(path):
        if any(os.path.islink(os.path.join(dp, n)) for n in dn + fn):
            return True
    return False


def classify(op, l, r, lbase=None):
    """differences that are recorded findings (identified by the operation and the shape of the difference)"""
    if op[0] == "size" and isinstance(l, int) and isinstance(r, int) and r > l and lbase and has_symlink(os.path.join(lbase, *op[1])):
        return "KF-C24-size-follows-symlinks"
    if op[0] in ("symlink_to", "hardlink_to", "symlink_text") and l == "ERROR" and r is None and lbase and os.path.lexists(os.path.join(lbase, *op[1])):
        # the link name exists already: the local API refuses, `ln -f` replaces it
        return "KF-C24-link-replaces-existing"
    if op[0] == "mkdir" and op[3] != op[4] and l == "ERROR" and r is None:
        # parents=True without exist_ok on an existing directory, or exist_ok=True without parents under a missing parent
        return "KF-C24-mkdir-p-conflates-flags"
    if op[0] == "read_text_n" and isinstance(l, str) and not l.isascii() and (r == "DECODE-ERROR" or isinstance(r, str)):
        # the remote side takes the first n BYTES (`head -c n`), the local one the first n characters
        return "KF-C24-read-text-n-counts-bytes"
    if op[0] in ("read_text", "read_text_n") and isinstance(l, str) and isinstance(r, str) and l != r and l.strip() == r:
        return "KF-C24-read-text-strips"
    return None


async def one_history(n_ops):
    base = tempfile.mkdtemp(prefix="c24.")
    ctx = _Ctx(base)
    lloc = ExecutionLocation(name="__LOCAL__", deployment="local", local=True)
    rloc = ExecutionLocation(name="sh0", deployment="shell", local=False)
    try:
        for side in ("L", "R"):
            os.makedirs(os.path.join(base, side))
        lroot = StreamFlowPath(os.path.join(base, "L"), context=ctx, location=lloc)
        rroot = StreamFlowPath(os.path.join(base, "R"), context=ctx, location=rloc)
        assert isinstance(lroot, LocalStreamFlowPath) and isinstance(rroot, RemoteStreamFlowPath)
        ops = random_ops(n_ops)
        for k, op in enumerate(ops):
            lres = await asyncio.wait_for(apply(op, lroot, os.path.join(base, "L")), 30)
            try:
                rres = await asyncio.wait_for(apply(op, rroot, os.path.join(base, "R")), 30)
            except asyncio.TimeoutError:
                rres = "TIMEOUT"
            if lres != rres:
                kf = classify(op, lres, rres, os.path.join(base, "L"))
                if kf:
                    KNOWN.add(kf)
                    if op[0] in ("mkdir", "symlink_to", "hardlink_to", "symlink_text"):
                        return None  # the two trees differ from here on: the history ends
                    continue
                return {"failure": "remote and local result differ", "operation": repr(op)[:300], "local": repr(lres)[:300], "remote": repr(rres)[:300],
                        "history": [repr(o)[:120] for o in ops[max(0, k - 6):k]]}
            ls, rs = snapshot(os.path.join(base, "L")), snapshot(os.path.join(base, "R"))
            if ls != rs:
                diff = sorted(set(ls) ^ set(rs)) or [k2 for k2 in ls if ls[k2] != rs[k2]]
                return {"failure": "filesystem trees differ after the operation", "operation": repr(op)[:300], "differing_entries": [repr(d)[:100] for d in diff[:5]],
                        "local": repr([ls.get(d) for d in diff[:3]])[:300], "remote": repr([rs.get(d) for d in diff[:3]])[:300]}
        return None
    finally:
        for dp, dn, fn in os.walk(base):
            for n in dn:
                try:
                    os.chmod(os.path.join(dp, n), 0o700)
                except OSError:
                    pass
        shutil.rmtree(base, ignore_errors=True)


DIRECTED = [
    # (finding, operations): each reproduces one recorded finding on the unchanged tree
    ("KF-C24-read-text-strips", [("write_text", ("t.txt",), "line\n"), ("read_text", ("t.txt",))]),
    ("KF-C24-size-follows-symlinks", [("mkdir", ("d",), 0o755, True, True), ("write_text", ("f.txt",), "0123456789"), ("symlink_to", ("d", "l.lnk"), ("f.txt",)), ("size", ("d",))]),
    ("KF-C24-link-replaces-existing", [("write_text", ("a.txt",), "x"), ("write_text", ("b.txt",), "y"), ("symlink_to", ("l.lnk",), ("a.txt",)), ("symlink_to", ("l.lnk",), ("b.txt",))]),
    ("KF-C24-read-text-n-counts-bytes", [("write_text", ("u.txt",), "日本語のテキスト"), ("read_text_n", ("u.txt",), 1), ("read_text_n", ("u.txt",), 4)]),
    ("KF-C24-mkdir-p-conflates-flags", [("mkdir", ("e",), 0o755, True, True), ("mkdir", ("e",), 0o755, True, False), ("mkdir", ("g", "h"), 0o755, False, True)]),
]


def systematic_ops():
    """every flag combination of mkdir on a fresh and on an existing directory (nested and not), chmod with both link modes"""
    ops = []
    k = 0
    for parents in (False, True):
        for exist_ok in (False, True):
            if parents and not exist_ok:
                continue  # recorded finding KF-C24-mkdir-p-conflates-flags, reproduced by DIRECTED
            k += 1
            d = (f"m{k} dir",)
            ops += [("mkdir", d, 0o755, parents, exist_ok), ("mkdir", d, 0o755, parents, exist_ok), ("is_dir", d)]
            if parents == exist_ok:
                ops += [("mkdir", (f"deep{k}", "x y"), 0o700, parents, exist_ok), ("is_dir", (f"deep{k}", "x y"))]
    # links through the predicates: dangling from the start, live, and dangling after the target was removed
    preds = ["exists", "is_symlink", "is_file", "is_dir"]
    ops += [("symlink_to", ("dang.lnk",), ("never created",))] + [(q, ("dang.lnk",)) for q in preds]
    ops += [("mkdir", ("tgt d",), 0o755, False, False), ("write_text", ("tgt d", "f.txt"), "x"), ("symlink_to", ("live.lnk",), ("tgt d", "f.txt")),
            ("symlink_to", ("livedir.lnk",), ("tgt d",))]
    ops += [(q, (l,)) for q in preds for l in ("live.lnk", "livedir.lnk")]
    ops += [("rmtree", ("tgt d",))] + [(q, (l,)) for q in preds for l in ("live.lnk", "livedir.lnk")]
    # names with blanks, tabs and backslashes through walk, glob, checksum and size
    ops += [("mkdir", ("w dir",), 0o755, False, False), ("write_text", ("w dir", "a b.txt"), "x"), ("write_text", ("w dir", "tab\there.txt"), "y"),
            ("mkdir", ("w dir", "sub  dir"), 0o755, False, False), ("write_text", ("w dir", "sub  dir", "back\\slash.txt"), "hello world"),
            ("walk", ("w dir",)), ("glob", ("w dir",), "*"), ("checksum", ("w dir", "sub  dir", "back\\slash.txt")), ("checksum", ("w dir", "a b.txt")),
            ("size", ("w dir",)), ("checksum", ("w dir",)), ("read_text", ("w dir", "sub  dir", "back\\slash.txt"))]
    # link targets given with redundant syntax, and bounded reads
    ops += [("write_text", ("plain.txt",), "hello world"), ("symlink_text", ("dot.lnk",), "./plain.txt"), ("symlink_text", ("slash.lnk",), "plain.txt/"),
            ("symlink_text", ("up.lnk",), "x/../plain.txt"), ("exists", ("slash.lnk",)), ("is_file", ("dot.lnk",))]
    ops += [("read_text_n", ("plain.txt",), n) for n in (0, 1, 5, 11, 50)]
    # permission bits and the special bits
    ops += [("write_text", ("modes.txt",), "m")] + [("chmod", ("modes.txt",), m) for m in (0o640, 0o4755, 0o2770, 0o1777, 0o600)]
    return ops


async def directed():
    global random_ops
    saved = random_ops
    try:
        for kf, ops in DIRECTED + [(None, systematic_ops())]:
            random_ops = lambda n, ops=ops: ops
            bad = await one_history(len(ops))
            if bad:
                return bad
    finally:
        random_ops = saved
    return None


async def search(n):
    bad = await directed()
    if bad:
        return bad
    for _ in range(n):
        bad = await one_history(rng.randint(6, 22))
        if bad:
            return bad
    return None


def replay(path):
    load_replay(path)
    finish_replay(path, asyncio.run(search(40)), "(40 random operation histories, remote vs local)")


def crosscheck(n):
    k = max(12, int(n) // 4)
    bad = asyncio.run(search(k))
    print(json.dumps({"inputs": k, "native_contract_failures": 1 if bad else 0, "samples": [bad] if bad else [], "known_findings": sorted(KNOWN)}, default=str))
    sys.exit(1 if bad else 0)


main({"replay": replay, "crosscheck": crosscheck})
