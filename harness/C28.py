"""C28 native drivers: random StreamFlow files -> real WorkflowConfig / get_binding_config against a nearest-bound-ancestor
oracle written from the statement; cyclic wraps chains must be rejected."""
import json
import sys

from common import finish_replay, load_replay, main, rng

from streamflow.config.config import WorkflowConfig
from streamflow.core.exception import WorkflowDefinitionException
from streamflow.deployment.utils import get_binding_config

SEGS = ["a", "b", "c", "d1", "x.y"]


def rand_path(maxd=4):
    return "/" + "/".join(rng.choice(SEGS) for _ in range(rng.randint(0, maxd))) if rng.random() < 0.9 else "/"


def rand_deployments(acyclic=True):
    names = [f"dep{i}" for i in range(rng.randint(1, 6))]
    deps = {}
    for i, n in enumerate(names):
        d = {"type": "docker", "config": {"image": "x"}}
        if rng.random() < 0.4:
            d["workdir"] = f"/wd/{n}"
        cands = names[:i] if acyclic else names
        if cands and rng.random() < 0.6:
            w = rng.choice(cands)
            d["wraps"] = w if rng.random() < 0.5 else {"deployment": w}
        deps[n] = d
    return deps


def chain_workdir(deps, n):
    seen = set()
    while n not in seen:
        seen.add(n)
        d = deps[n]
        if d.get("workdir") is not None:
            return d["workdir"]
        w = d.get("wraps")
        if w is None:
            return None
        n = w if isinstance(w, str) else w["deployment"]
    return None


def has_cycle(deps):
    for n in deps:
        seen = {n}
        d = deps[n]
        while d.get("wraps") is not None:
            w = d["wraps"]
            m = w if isinstance(w, str) else w["deployment"]
            if m in seen:
                return True
            seen.add(m)
            d = deps[m]
    return False


def one_config():
    deps = rand_deployments()
    bindings, declared = [], {}
    for _ in range(rng.randint(0, 5)):
        kind = "step" if rng.random() < 0.75 else "port"
        p = rand_path()
        if (kind, p) in declared:
            continue
        tgts = []
        for _ in range(rng.randint(1, 4)):
            t = {"deployment": rng.choice(list(deps))}
            if rng.random() < 0.4:
                t["service"] = rng.choice(["s1", "s2"])
            if kind == "port" or rng.random() < 0.3:
                t["workdir"] = f"/own/{len(bindings)}_{len(tgts)}"
            tgts.append(t)
        target = tgts if len(tgts) > 1 or rng.random() < 0.5 else tgts[0]
        if kind == "port":
            target = tgts[0]
            tgts = [tgts[0]]
        bindings.append({kind: p, "target": target})
        declared[(kind, p)] = tgts
    cfg = {"workflows": {"w": {"type": "cwl", "config": {"file": "x.cwl"}, "bindings": bindings}}, "deployments": json.loads(json.dumps(deps))}
    wc = WorkflowConfig("w", cfg)
    for _ in range(12):
        q = rand_path(5)
        kind = rng.choice(["step", "step", "port"])
        # oracle: the binding declared on the path itself or on its nearest ancestor path
        parts = [x for x in q.split("/") if x]
        best = None
        for k in range(len(parts), -1, -1):
            anc = "/" + "/".join(parts[:k]) if k else "/"
            if (kind, anc) in declared:
                best = declared[(kind, anc)]
                break
        bc = get_binding_config(q, kind, wc)
        got = [(t.deployment.name, t.service, t.workdir, t.deployment.workdir) for t in bc.targets]
        if best is None:
            if [g[0] for g in got] != ["__LOCAL__"]:
                return {"failure": "unbound path must run locally", "path": q, "kind": kind, "got": got, "bindings": bindings}
            continue
        want = []
        for t in best:
            inh = chain_workdir(deps, t["deployment"])
            own = t.get("workdir") or inh
            want.append((t["deployment"], t.get("service"), own, inh))
        cmp_got = [(g[0], g[1], g[2] if w[2] else None, g[3]) for g, w in zip(got, want)] if len(got) == len(want) else got
        cmp_want = [(w[0], w[1], w[2], w[3]) for w in want]
        if cmp_got != cmp_want:
            return {"failure": "targets differ from the nearest bound ancestor's (order, deployment, service, working directories)", "path": q, "kind": kind,
                    "got": got, "expected": want, "bindings": bindings, "deployments": deps}
    return None


def one_cycle_case():
    deps = rand_deployments(acyclic=False)
    cfg = {"workflows": {"w": {"type": "cwl", "config": {"file": "x.cwl"}, "bindings": []}}, "deployments": json.loads(json.dumps(deps))}
    try:
        WorkflowConfig("w", cfg)
        raised = False
    except WorkflowDefinitionException:
        raised = True
    if raised != has_cycle(deps):
        return {"failure": "cyclic wraps chains must be rejected with a definition error (and only those)", "deployments": deps, "raised": raised}
    return None


def search(n):
    for k in range(n):
        bad = one_config() if k % 3 else one_cycle_case()
        if bad:
            return bad
    return None


def replay(path):
    load_replay(path)
    finish_replay(path, search(1200), "(1200 random StreamFlow files in one process)")


def crosscheck(n):
    k = int(n) * 8
    bad = search(k)
    print(json.dumps({"inputs": k, "native_contract_failures": 1 if bad else 0, "samples": [bad] if bad else []}, default=str))
    sys.exit(1 if bad else 0)


main({"replay": replay, "crosscheck": crosscheck})
