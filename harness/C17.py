"""C17 native drivers: small-pool replay of the retry-bound obligations on the real classes."""
import asyncio
import json
import sys
from types import SimpleNamespace

from common import finish_replay, load_replay, main, rng

from streamflow.core.exception import FailureHandlingException, UnrecoverableWorkflowException, WorkflowExecutionException
from streamflow.core.recovery import recoverable
from streamflow.core.workflow import Job, Status, Step
from streamflow.recovery.failure_manager import DummyFailureManager, RollbackFailureManager


class Sched:
    def __init__(self):
        self.calls = []

    async def notify_status(self, job, status):
        self.calls.append((job, status))


def mk(max_retries):
    ctx = SimpleNamespace(scheduler=Sched())
    return RollbackFailureManager(ctx, max_retries=max_retries), ctx


def check_update():
    for mr in [None, 0, 1, 2, 3, 5]:
        for v in range(1, 8):
            if not (mr is None or v <= mr or v == 1):
                continue
            fm, ctx = mk(mr)
            r = fm.get_request("j")
            r.version = v
            try:
                asyncio.run(fm._update_request("j"))
                raised = False
            except FailureHandlingException:
                raised = True
            exp_raise = mr is not None and v >= mr
            ok = raised == exp_raise and (
                (raised and r.version == v and ctx.scheduler.calls == [])
                or (not raised and r.version == v + 1 and ctx.scheduler.calls == [("j", Status.ROLLBACK)] and (mr is None or r.version <= mr))
            )
            if not ok:
                return {"max_retries": mr, "version": v, "raised": raised, "version_after": r.version, "notified": [(j, int(s)) for j, s in ctx.scheduler.calls]}
    return None


def check_get_request():
    fm, _ = mk(3)
    a = fm.get_request("j")
    a.version = 2
    b = fm.get_request("j")
    c = fm.get_request("k")
    if a is not b or b.version != 2 or c is a or c.version != 1 or fm._retry_requests.get("j") is not a:
        return {"same_object": a is b, "version": b.version, "other_version": c.version}
    # a wide workflow: hundreds of jobs pass through get_request between two failures of one job; its counter survives
    fm, _ = mk(3)
    first = [fm.get_request(f"/wide/0.{i}") for i in range(5)]
    for i, r in enumerate(first):
        r.version = 2 + (i % 2)
    others = [fm.get_request(f"/scatter/0.{i}") for i in range(rng.choice([130, 300, 700]))]
    again = [fm.get_request(f"/wide/0.{i}") for i in range(5)]
    for i, (r0, r1) in enumerate(zip(first, again)):
        if r1 is not r0 or r1.version != 2 + (i % 2):
            return {"failure": "the retry counter of a job is lost once many other jobs have been registered", "job": f"/wide/0.{i}", "registered_in_between": len(others),
                    "same_object": r1 is r0, "version": r1.version, "expected_version": 2 + (i % 2)}
    if len(fm._retry_requests) != 5 + len(others):
        return {"failure": "registered retry requests disappear", "registered": 5 + len(others), "kept": len(fm._retry_requests)}
    return None


def check_dummy():
    fm = DummyFailureManager(SimpleNamespace())
    e = WorkflowExecutionException("boom")
    job = SimpleNamespace(name="/s/0")
    try:
        asyncio.run(fm.recover(job, None, e))
        return {"returned_normally": True}
    except BaseException as r:
        if r is not e:
            return {"raised_other": repr(r)}
    return None


def check_wrapper():
    class FM:
        def __init__(self, fail):
            self.n = 0
            self.fail = fail

        async def recover(self, job, step, exc):
            self.n += 1
            if self.fail == "same":
                raise exc
            if self.fail:
                raise self.fail

    for exc, handled in [(None, False), (asyncio.CancelledError(), False), (KeyboardInterrupt(), False), (UnrecoverableWorkflowException("u"), False),
                         (WorkflowExecutionException("w"), True), (FailureHandlingException("f"), False), (ValueError("v"), True)]:
        for rec_fail in [None, FailureHandlingException("rf"), WorkflowExecutionException("rw"), "same"]:
            fm = FM(rec_fail)
            class _S(Step):
                async def run(self): ...
                async def terminate(self, status): ...
                async def restore(self, on_tokens): ...

            step = _S.__new__(_S)
            step.workflow = SimpleNamespace(context=SimpleNamespace(failure_manager=fm))
            job = Job.__new__(Job)

            @recoverable
            async def f(job, step):
                if exc is not None:
                    raise exc

            coro = f(job, step)
            try:
                coro.send(None)  # nothing inside suspends: one step runs the wrapper to completion
                out = "suspended"
            except StopIteration:
                out = None
            except BaseException as r:
                out = r
            exp_n = 1 if handled else 0
            exp_out = exc if (not handled or rec_fail == "same") else rec_fail
            if fm.n != exp_n or out is not exp_out:
                return {"func_raises": repr(exc), "recover_raises": repr(rec_fail), "recover_calls": fm.n, "propagated": repr(out)}
    return None


def check_handle_failure():
    import logging

    from streamflow.log_handler import logger

    class _S(Step):
        async def run(self): ...
        async def terminate(self, status): ...
        async def restore(self, on_tokens): ...

    saved = logger.level
    try:
        for level in (logging.DEBUG, logging.INFO, logging.WARNING, logging.ERROR):
            for fail in (True, False):
                logger.setLevel(level)
                fm, ctx = mk(2)
                calls = []

                async def _recover(job, step, fail=fail, calls=calls):
                    calls.append(1)
                    if fail:
                        raise FailureHandlingException("retries exhausted")

                fm._recover = _recover
                step = _S.__new__(_S)
                step.workflow = SimpleNamespace(context=SimpleNamespace(failure_manager=fm))
                job = Job.__new__(Job)
                job.name = "/s/0"
                coro = fm._do_handle_failure(job, step)
                try:
                    coro.send(None)
                    out = "suspended"
                except StopIteration:
                    out = None
                except BaseException as r:
                    out = r
                ok = len(calls) == 1 and (isinstance(out, FailureHandlingException) if fail else out is None)
                if not ok:
                    return {"log_level": logging.getLevelName(level), "recover_raises": fail, "recover_calls": len(calls), "outcome": repr(out)}
    finally:
        logger.setLevel(saved)
    return None


def check_synchronize():
    """every job that _synchronize_workflows rolls back — the failed one and the upstream jobs dragged along — stays within the
    limit: versions never pass max_retries, a request at the limit makes the call fail"""
    for mr in [1, 2, 3]:
        for versions in [(1, 1), (mr, 1), (1, mr), (mr, mr), (max(1, mr - 1), mr)]:
            fm, ctx = mk(mr)

            async def not_recovering(job_name):
                return False

            fm.is_recovering = not_recovering
            reqs = []
            for name, v in zip(("failed", "upstream"), versions):
                r = fm.get_request(name)
                r.version = v
                reqs.append(r)
            wf = SimpleNamespace(ports={})
            try:
                asyncio.run(fm._synchronize_workflows("failed", [], SimpleNamespace(), reqs, wf))
                raised = False
            except FailureHandlingException:
                raised = True
            over = [(r.name, r.version) for r in reqs if r.version > mr and r.version != 1]
            if over or (not raised and any(v >= mr for v in versions)):
                return {"unit": "_synchronize_workflows", "max_retries": mr, "versions_before": versions, "versions_after": [r.version for r in reqs], "raised": raised,
                        "failure": "a job rolled back by the synchronisation passed the retry limit (or was re-run at the limit without an error)"}
    return None


def check_reduce_statuses():
    """a FAILED job status that no CANCELLED one precedes makes the step FAILED, whatever follows"""
    import itertools

    from streamflow.workflow.step import _reduce_statuses

    pool = [Status.COMPLETED, Status.FAILED, Status.CANCELLED, Status.SKIPPED, Status.RECOVERED]
    for n in range(0, 5):
        for combo in itertools.product(pool, repeat=n):
            got = _reduce_statuses(list(combo))
            first = next((x for x in combo if x in (Status.FAILED, Status.CANCELLED)), None)
            if (first == Status.FAILED) != (got == Status.FAILED):
                return {"unit": "_reduce_statuses", "statuses": [x.name for x in combo], "result": got.name,
                        "failure": "the first FAILED/CANCELLED status must decide: a failed job fails the step"}
    return None


async def _real_run(phase, limit, failures, no_inputs=False):
    """one real workflow (injector -> schedule -> transfer -> execute) under the real RollbackFailureManager with `limit` retries; the
    given phase of its single job fails `failures` times in a row (soft errors: no data is lost).  Uses the repository's own failure
    injectors (tests/utils/workflow.py)."""
    import collections
    import logging
    import posixpath
    import shutil
    import tempfile

    from streamflow.core.workflow import Token
    from streamflow.log_handler import logger
    from streamflow.main import build_context
    from streamflow.workflow.executor import StreamFlowExecutor
    from tests.utils.deployment import get_deployment_config
    from tests.utils.utils import inject_tokens
    from tests.utils import workflow as tw

    logger.setLevel(logging.CRITICAL)
    logging.getLogger("asyncio").setLevel(logging.CRITICAL)
    attempts = collections.Counter()
    target = {"execute": (tw.InjectorFailureCommand, "execute"), "transfer": (tw.InjectorFailureTransferStep, "transfer"),
              "schedule": (tw.InjectorFailureScheduleStep, "_set_job_directories")}[phase]
    original = getattr(*target)

    async def counting(self, *a, **k):
        attempts[phase] += 1
        return await original(self, *a, **k)

    setattr(target[0], target[1], counting)
    workdir = tempfile.mkdtemp(prefix="c17run.")
    context = build_context({"failureManager": {"type": "default", "config": {"max_retries": limit, "retry_delay": 0}},
                             "database": {"type": "default", "config": {"connection": ":memory:"}}, "path": workdir})
    try:
        config = await get_deployment_config(context, tw.RecoveryTranslator.LOCAL_FS_VOLATILE)
        await context.deployment_manager.deploy(config)
        workflow = next(iter(await tw.create_workflow(context, num_port=0)))
        translator = tw.RecoveryTranslator(workflow)
        translator.deployment_configs = {config.name: config}
        injector = translator.get_base_injector_step([config.name], "test_in", posixpath.join(posixpath.sep, "test_in"), workflow)
        await inject_tokens(token_list=[Token(100, recoverable=True)], in_port=injector.get_input_port("test_in"), context=context, save_input_token=False)
        translator.get_execute_pipeline(
            command="lambda x : ('copy', 'primitive', 5)" if no_inputs else "lambda x : ('copy', 'primitive', x['test_in'].value)", deployment_names=[config.name],
            input_ports={} if no_inputs else {"test_in": injector.get_output_port("test_in")}, outputs={"test_out": "primitive"},
            step_name=posixpath.join(posixpath.sep, "J", "step"), workflow=workflow,
            failure_tags={"0": failures}, failure_step=phase, failure_type=tw.RecoveryTranslator.SOFT_ERROR)
        await workflow.save(context.database)
        try:
            await asyncio.wait_for(StreamFlowExecutor(workflow).run(), timeout=120)
            outcome = "completed"
        except asyncio.TimeoutError:
            outcome = "HANG"
        except Exception as e:  # noqa
            outcome = type(e).__name__
        return outcome, attempts[phase]
    finally:
        setattr(target[0], target[1], original)
        try:
            await context.deployment_manager.undeploy_all()
            await context.close()
        except Exception:
            pass
        shutil.rmtree(workdir, ignore_errors=True)


def check_real_runs(cases):
    """the statement on real runs: the failing phase is attempted at most `limit` times; fewer failures than the limit -> the workflow
    completes; as many or more -> the executor raises (it neither hangs nor returns as if nothing had happened)"""
    for case in cases:
        phase, limit, failures = case[:3]
        no_inputs = len(case) > 3
        try:
            outcome, attempts = asyncio.run(_real_run(phase, limit, failures, no_inputs))
        except Exception as e:  # noqa
            return {"unit": "real run", "failure": f"the run could not be set up or crashed: {type(e).__name__}: {e}", "phase": phase, "limit": limit, "failures": failures}
        want = "completed" if failures < limit else "WorkflowExecutionException"
        if outcome != want or attempts > limit or (outcome == "completed" and attempts != failures + 1):
            return {"unit": "real run", "failure": "retry bound broken on a real run", "phase": phase, "max_retries": limit, "injected_failures": failures, "step_without_inputs": no_inputs,
                    "outcome": outcome, "expected_outcome": want, "attempts_of_the_failing_phase": attempts}
    return None


def real_run_cases(n):
    grid = [(ph, lim, f) for ph in ("execute", "transfer", "schedule") for lim in (1, 2, 3) for f in range(0, lim + 3)]
    if n >= len(grid):
        return grid + [("execute", lim, f, "no inputs") for lim in (1, 2, 3) for f in range(0, lim + 3)]
    # always: exhaustion in every phase; then a random sample of the rest
    # (a step WITHOUT input ports — a source step, a tool without inputs — has its own branch in ExecuteStep.run)
    must = [(ph, 2, 3) for ph in ("execute", "transfer", "schedule")] + [("execute", 2, 3, "no inputs"), ("execute", 1, 1, "no inputs"), ("execute", 3, 1, "no inputs")]
    rest = [c for c in grid if c not in must]
    return must + rng.sample(rest, max(0, n - len(must)))


def replay(path):
    d = load_replay(path)
    unit = d["unit"]
    fn = {"RollbackFailureManager._update_request": check_update, "RollbackFailureManager.get_request": check_get_request,
          "RecoveryRequest.__init__": check_get_request, "DummyFailureManager.recover": check_dummy, "recoverable.wrapper@Try#0": check_wrapper,
          "RollbackFailureManager._do_handle_failure": check_handle_failure, "RollbackFailureManager._synchronize_workflows": check_synchronize,
          "_reduce_statuses": check_reduce_statuses}.get(unit)
    if fn is None:
        finish_replay(path, None, "(no native driver for this unit)")
    finish_replay(path, fn())


def crosscheck(n):
    bad = [x for x in (check_update(), check_get_request(), check_dummy(), check_wrapper(), check_handle_failure(), check_synchronize(), check_reduce_statuses()) if x]
    cases = real_run_cases(9 if int(n) <= 100 else 60)
    if not bad:
        bad = [x for x in (check_real_runs(cases),) if x]
    print(json.dumps({"inputs": 7 + len(cases), "native_contract_failures": len(bad), "samples": bad[:2]}))
    sys.exit(1 if bad else 0)


main({"replay": replay, "crosscheck": crosscheck})
