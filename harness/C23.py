"""C23 native drivers: archives built with CPython's tarfile, read back through the real AioTarStream over an in-memory
stream that hands out its bytes in arbitrary chunks; truncated archives must fail."""
import asyncio
import io
import json
import os
import shutil
import stat
import sys
import tarfile
import tempfile

from common import finish_replay, load_replay, main, rng

from streamflow.core.data import StreamWrapper
from streamflow.deployment import aiotarstream
from streamflow.deployment.connector.base import extract_tar_stream


class Chunked(StreamWrapper):
    def __init__(self, data, policy):
        super().__init__(None)
        self.data, self.pos, self.policy = data, 0, policy

    async def close(self):
        pass

    async def read(self, size=None):
        left = len(self.data) - self.pos
        if left == 0:
            return b""
        want = left if size is None or size < 0 else min(size, left)
        if want == 0:
            return b""
        k = max(1, min(want, self.policy(want)))
        out = self.data[self.pos : self.pos + k]
        self.pos += k
        return out

    async def write(self, data):
        raise NotImplementedError


class Sink(StreamWrapper):
    def __init__(self):
        super().__init__(None)
        self.buf = bytearray()

    async def close(self):
        pass

    async def read(self, size=None):
        raise NotImplementedError

    async def write(self, data):
        self.buf += data


def make_tree(root):
    files = {}
    os.makedirs(os.path.join(root, "src", "sub", "deep"))
    # (a directory whose name ends with a dot; a file name that is not valid UTF-8: tar stores bytes, the names must survive)
    os.makedirs(os.path.join(root, "src", "v1."))
    for name, size in [("a.txt", 0), ("b.bin", 1), ("sub/c.bin", 511), ("sub/d.bin", 512), ("sub/deep/e.bin", 513), ("f.bin", rng.randint(600, 70000)),
                       ("g_" + "x" * 120 + ".bin", 1500), ("v1./inner.txt", 20), (os.fsdecode(b"caf\xe9.txt"), 33), ("trailing.", 5)]:
        data = bytes(rng.getrandbits(8) for _ in range(size))
        with open(os.path.join(root, "src", name), "wb") as f:
            f.write(data)
        files[name] = data
        # permission bits are part of the tree: some of them are removed by the usual umask when a file is merely created
        os.chmod(os.path.join(root, "src", name), MODES[len(files) % len(MODES)])
    # member names whose length in the archive ("src/" + name) sits around a multiple of the 512-byte block: GNU long-name / PAX
    # records whose payload ends exactly on, one before and one after a block boundary
    d1, d2 = "p" * 200, "q" * 200
    for total in (511, 512, 513, 1023, 1024, 1025):
        dirs = [d1, d2] if total < 1000 else [d1, d2, "r" * 200, "s" * 200]
        base = "/".join(dirs)
        fname = "n" * (total - len("src/") - len(base) - 1)
        name = base + "/" + fname
        os.makedirs(os.path.join(root, "src", base), exist_ok=True)
        data = bytes(rng.getrandbits(8) for _ in range(rng.choice([0, 10, 700])))
        with open(os.path.join(root, "src", name), "wb") as f:
            f.write(data)
        files[name] = data
    return files


MODES = [0o644, 0o664, 0o755, 0o600, 0o666, 0o775, 0o640]


def archive(root, fmt):
    bio = io.BytesIO()
    with tarfile.open(fileobj=bio, mode="w", format=fmt) as t:
        t.add(os.path.join(root, "src"), arcname="src")
    return bio.getvalue()


async def extract(data, policy, dst):
    async with aiotarstream.open(stream=Chunked(data, policy), mode="r", copybufsize=rng.choice([None, 1024, 4096, 49152])) as tar:
        await extract_tar_stream(tar, "src", dst, transferBufferSize=rng.choice([None, 1000, 16384]))


def read_tree(dst, files):
    out = {}
    for name in files:
        p = os.path.join(dst, name)
        out[name] = open(p, "rb").read() if os.path.isfile(p) else None
    return out


def read_modes(root, files):
    return {name: stat.S_IMODE(os.stat(os.path.join(root, name)).st_mode) for name in files if os.path.isfile(os.path.join(root, name))}


KNOWN = set()

POLICIES = {
    "whole": lambda want: want,
    "one": lambda want: 1,
    "seven": lambda want: 7,
    "hundred": lambda want: 100,
    "random": lambda want: rng.randint(1, max(1, want)),
    "512": lambda want: 512,
}


def writer_direction(root, files, wbuf):
    """the async writer's output is readable by CPython's tarfile"""
    sink = Sink()

    async def w():
        async with aiotarstream.open(stream=sink, mode="w", format=tarfile.GNU_FORMAT, copybufsize=wbuf) as tar:
            await tar.add(os.path.join(root, "src"), arcname="src")

    try:
        asyncio.run(w())
    except Exception as e:  # noqa
        return {"failure": f"writing the tree with the async tar writer raised {type(e).__name__}: {e}", "copybufsize": wbuf}
    try:
        with tarfile.open(fileobj=io.BytesIO(bytes(sink.buf))) as t:
            for name, data in files.items():
                if t.extractfile("src/" + name).read() != data:
                    return {"failure": "archive written by the async writer is not read back by tarfile", "member": name, "copybufsize": wbuf}
    except (tarfile.TarError, KeyError, EOFError) as e:
        return {"failure": f"the archive written by the async writer is not readable by tarfile: {type(e).__name__}: {e}", "copybufsize": wbuf}
    return None


def search(n):
    root = tempfile.mkdtemp(prefix="c23.")
    os.umask(0o022)
    try:
        files = make_tree(root)
        for k in range(n):
            fmt = rng.choice([tarfile.GNU_FORMAT, tarfile.PAX_FORMAT, tarfile.USTAR_FORMAT]) if True else tarfile.GNU_FORMAT
            try:
                data = archive(root, fmt)
            except ValueError:
                continue  # name too long for ustar
            pname = rng.choice(list(POLICIES))
            truncate = k % 3 == 2
            region = None
            if truncate:
                # where the cut falls decides what the statement demands
                with tarfile.open(fileobj=io.BytesIO(data)) as t:
                    members = t.getmembers()
                end_payload = max(m.offset_data + ((m.size + 511) // 512) * 512 for m in members)
                cut = rng.randint(1, end_payload - 1)
                ext = [m for m in members if m.offset_data - m.offset > 512]
                if ext and rng.random() < 0.35:
                    # inside a GNU long-name / PAX record or the header that follows it
                    m = rng.choice(ext)
                    cut = rng.randint(m.offset + 512, m.offset_data - 1)
                region = "header-or-boundary"
                for m in ext:
                    if m.offset + 512 <= cut < m.offset_data:
                        region = "extended-record"
                for m in members:
                    if m.isfile() and m.offset_data <= cut < m.offset_data + ((m.size + 511) // 512) * 512 and (cut > m.offset_data or m.size > 0):
                        region = "file-data" if cut > m.offset_data or m.size > 0 else region
                    if m.isfile() and m.size > 0 and cut == m.offset_data:
                        region = "file-data"
                data2 = data[:cut]
            else:
                data2 = data
            dst = os.path.join(root, f"out{k}")
            os.makedirs(dst)
            if k % 4 == 1:
                # the destination already holds one of the files, with other permission bits
                with open(os.path.join(dst, "f.bin"), "wb") as f:
                    f.write(b"old")
                os.chmod(os.path.join(dst, "f.bin"), 0o600)
            err = None
            try:
                asyncio.run(asyncio.wait_for(extract(data2, POLICIES[pname], dst), 30))
            except asyncio.TimeoutError:
                err = "HANG"
            except BaseException as e:  # noqa
                err = type(e).__name__
            got = read_tree(dst, files)
            got_modes = read_modes(dst, files)
            shutil.rmtree(dst, ignore_errors=True)
            if not truncate:
                want_modes = read_modes(os.path.join(root, "src"), files)
                if err is None and got == files and got_modes != want_modes:
                    wrong = [n for n in files if got_modes.get(n) != want_modes.get(n)]
                    return {"failure": "permission bits of the copied files differ from the source tree", "format": fmt, "chunking": pname,
                            "wrong": [(n[:40], oct(want_modes[n]), oct(got_modes.get(n, 0))) for n in wrong[:4]]}
                if err is not None or got != files:
                    missing = [n for n in files if got.get(n) != files[n]]
                    return {"failure": "complete archive not reproduced exactly", "format": fmt, "chunking": pname, "error": err, "wrong_or_missing": missing[:5]}
            else:
                if err is None and region == "header-or-boundary":
                    # a cut inside a header block or exactly between two members looks like a missing end-of-archive marker;
                    # like CPython's tarfile the reader ends the archive silently (recorded finding, see known_findings.json)
                    KNOWN.add("KF-C23-header-boundary-truncation")
                elif err is None and region == "extended-record":
                    return {"failure": "archive truncated inside a long-name / PAX record (or the header that follows it) was accepted silently", "format": fmt,
                            "chunking": pname, "cut_at": cut, "archive_len": len(data), "partial_or_missing": [n for n in files if got.get(n) != files[n]][:5]}
                elif err is None:
                    return {"failure": "archive truncated inside file data was accepted silently", "format": fmt, "chunking": pname, "cut_at": cut,
                            "archive_len": len(data), "partial_or_missing": [n for n in files if got.get(n) != files[n]][:5]}
                if err == "HANG":
                    return {"failure": "truncated archive makes the copy hang", "format": fmt, "chunking": pname, "cut_at": cut, "archive_len": len(data)}
        # writer direction: the async writer's output is readable by CPython's tarfile
        for wbuf in (1000, 3000, rng.choice([None, 49152])):  # (copy buffer sizes that are not powers of two, too)
            bad = writer_direction(root, files, wbuf)
            if bad:
                return bad
    finally:
        shutil.rmtree(root, ignore_errors=True)
    return None


def replay(path):
    load_replay(path)
    finish_replay(path, search(45), "(45 archives x chunking policies, every third truncated)")


def crosscheck(n):
    k = max(12, int(n) // 2)
    bad = search(k)
    print(json.dumps({"inputs": k, "native_contract_failures": 1 if bad else 0, "samples": [bad] if bad else [], "known_findings": sorted(KNOWN)}, default=str))
    sys.exit(1 if bad else 0)


main({"replay": replay, "crosscheck": crosscheck})
