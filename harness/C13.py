"""C13 native drivers: the matching filter and the scheduler's filter chain on the real classes."""
import asyncio
import json
import sys
from types import SimpleNamespace

from common import finish_replay, load_replay, main, rng

from streamflow.core.deployment import DeploymentConfig, FilterConfig, Target
from streamflow.core.exception import WorkflowExecutionException
from streamflow.core.workflow import Status, Job, Token
from streamflow.deployment.filter import MatchingBindingFilter

DEPS = ["d0", "d1", "d2", "d3"]
SERVICES = [None, "s1", "s2"]
PORTS = {"p": ["a", "b", " a", "a ", "a\n"], "q": ["x", "y", 7, "\tx", "7 "]}  # (values that differ only by blanks at the edges are different values)


def mk_job(vals):
    return Job(name="/step/0.1", workflow_id=0, inputs={k: Token(v) for k, v in vals.items()}, input_directory=None, output_directory=None, tmp_directory=None)


def rand_case():
    vals = {k: rng.choice(v) for k, v in PORTS.items()}
    rules = []
    for _ in range(rng.randint(1, 5)):
        d, s = rng.choice(DEPS), rng.choice(SERVICES)
        preds = [{"port": k, "match": str(rng.choice(PORTS[k]))} for k in PORTS if rng.random() < 0.6]
        rules.append({"target": d if s is None else {"deployment": d, "service": s}, "job": preds})
    targets = [Target(deployment=DeploymentConfig(name=rng.choice(DEPS), type="ssh", config={}), service=rng.choice(SERVICES), workdir="/w")
               for _ in range(rng.randint(1, 7))]
    return vals, rules, targets


def expected(vals, rules, targets):
    out = []
    for t in targets:
        ok = False
        for r in rules:
            d = r["target"] if isinstance(r["target"], str) else r["target"]["deployment"]
            s = None if isinstance(r["target"], str) else r["target"].get("service")
            if d == t.deployment.name and (s is None or s == t.service) and all(p["match"] == str(vals[p["port"]]) for p in r["job"]):
                ok = True
        if ok:
            out.append(t)
    return out


def check_get_targets(n):
    for _ in range(n):
        vals, rules, targets = rand_case()
        f = MatchingBindingFilter("flt", rules)
        want = expected(vals, rules, targets)
        try:
            got = asyncio.run(f.get_targets(mk_job(vals), list(targets)))
            raised = False
        except WorkflowExecutionException:
            got, raised = None, True
        desc = lambda ts: [(t.deployment.name, t.service, targets.index(t)) for t in ts]
        if raised != (not want):
            return {"unit": "get_targets", "inputs": vals, "rules": rules, "targets": desc(targets), "raised": raised, "expected": desc(want)}
        if not raised and [id(t) for t in got] != [id(t) for t in want]:
            return {"unit": "get_targets", "failure": "survivors are not the admitted targets in declared order", "inputs": vals, "rules": rules,
                    "targets": desc(targets), "got": desc(got), "expected": desc(want)}
    return None


def check_chain(n):
    """DefaultScheduler.schedule applies every configured filter, in order, to what the previous ones kept, and starts one
    _process_target per surviving target in that order"""
    from streamflow.scheduling.scheduler import DefaultScheduler

    for _ in range(n):
        nf = rng.randint(0, 4)
        targets = [Target(deployment=DeploymentConfig(name=f"d{i}", type="ssh", config={}), workdir="/w") for i in range(rng.randint(1, 5))]
        keep = [set(rng.sample(range(len(targets)), rng.randint(1, len(targets)))) | {len(targets) - 1} for _ in range(nf)]
        calls = []

        class F:
            def __init__(self, name, k):
                self.name, self.k = name, k

            async def get_targets(self, job, ts):
                calls.append((self.k, [targets.index(t) for t in ts]))
                return [t for t in ts if targets.index(t) in keep[self.k]]

        sch = DefaultScheduler.__new__(DefaultScheduler)
        # the scheduler instantiates the filters itself, from their configuration: several filters of ONE type, told apart by name
        import streamflow.scheduling.scheduler as scheduler_module
        scheduler_module.binding_filter_classes["verif-fake"] = F
        sch.binding_filter_map = {}
        order = []

        async def _process_target(target, job_context, hardware_requirement):
            order.append(targets.index(target))

        sch._process_target = _process_target
        bc = SimpleNamespace(targets=list(targets), filters=[FilterConfig(name=f"f{k}", type="verif-fake", config={"k": k}) for k in range(nf)])
        asyncio.run(sch.schedule(mk_job({"p": "a", "q": "x"}), bc, None))
        cur = list(range(len(targets)))
        want_calls = []
        for k in range(nf):
            want_calls.append((k, list(cur)))
            cur = [i for i in cur if i in keep[k]]
        if calls != want_calls or order != cur:
            return {"unit": "schedule", "filters_keep": [sorted(s) for s in keep], "filter_calls": calls, "expected_calls": want_calls,
                    "process_order": order, "expected_order": cur}
    return None


async def _placement_case():
    """the real scheduler over 2..3 free deployments whose connectors answer get_available_locations after different delays: the job
    goes to the FIRST declared target, whoever answers first"""
    import os
    import shutil
    import tempfile

    import streamflow.deployment.connector
    from streamflow.core.config import BindingConfig
    from streamflow.core.workflow import Job
    from streamflow.deployment.connector import LocalConnector
    from streamflow.main import build_context

    class SlowLocal(LocalConnector):
        def __init__(self, deployment_name, config_dir, delay=0, transferBufferSize=2 ** 16):
            super().__init__(deployment_name, config_dir, transferBufferSize)
            self.delay = delay

        async def get_available_locations(self, service=None):
            for _ in range(self.delay):
                await asyncio.sleep(0)
            if self.delay:
                await asyncio.sleep(0.01 * self.delay)
            return await super().get_available_locations(service)

    streamflow.deployment.connector.connector_classes["slow-local"] = SlowLocal
    workdir = tempfile.mkdtemp(prefix="c13.")
    ctx = build_context({"database": {"type": "default", "config": {"connection": ":memory:"}}, "path": workdir})
    try:
        n = rng.randint(2, 3)
        delays = [rng.choice([0, 1, 3]) for _ in range(n)]
        targets = []
        for i in range(n):
            cfg = DeploymentConfig(name=f"dep{i}", type="slow-local", config={"delay": delays[i]}, external=True, lazy=False, workdir=workdir)
            await ctx.deployment_manager.deploy(cfg)
            targets.append(Target(deployment=cfg, workdir=workdir))
        for k in range(3):
            job = Job(name=f"/step/0.{k}", workflow_id=0, inputs={}, input_directory=None, output_directory=None, tmp_directory=None)
            await asyncio.wait_for(ctx.scheduler.schedule(job, BindingConfig(targets=list(targets)), None), 20)
            got = ctx.scheduler.job_allocations[job.name].target
            if got is not targets[0]:
                return {"unit": "schedule", "failure": "all declared targets are free, the job did not go to the first one", "answer_delays": delays,
                        "placed_on": got.deployment.name, "job": job.name}
            await ctx.scheduler.notify_status(job.name, Status.COMPLETED)
    finally:
        await ctx.deployment_manager.undeploy_all()
        await ctx.close()
        shutil.rmtree(workdir, ignore_errors=True)
    return None


def check_placement(n):
    for _ in range(n):
        bad = asyncio.run(_placement_case())
        if bad:
            return bad
    return None


def replay(path):
    d = load_replay(path)
    unit = d.get("unit", "")
    if unit.startswith("DefaultScheduler.schedule"):
        finish_replay(path, check_chain(300) or check_placement(20))
    finish_replay(path, check_get_targets(600), "(600 random filters/jobs/target lists)")


def crosscheck(n):
    n = int(n)
    bad = [x for x in (check_get_targets(n * 4), check_chain(n), check_placement(max(6, n // 10))) if x]
    print(json.dumps({"inputs": n * 5, "native_contract_failures": len(bad), "samples": bad[:2]}, default=str))
    sys.exit(1 if bad else 0)


main({"replay": replay, "crosscheck": crosscheck})
