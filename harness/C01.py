"""C01 native drivers: real ScatterStep -> (element-wise identity) -> real GatherStep round trips, for list lengths
0..25, every size-token position and shuffled element arrival, single and nested scatter."""
import asyncio
import itertools
import json
import logging
import sys
import tempfile

from common import finish_replay, load_replay, main, rng

logging.disable(logging.CRITICAL)

from streamflow.core.workflow import Token, Workflow
from streamflow.main import build_context
from streamflow.workflow.step import GatherStep, ScatterStep
from streamflow.workflow.token import ListToken, TerminationToken

_c = itertools.count()


async def run_scatter(ctx, list_tokens):
    wf = Workflow(context=ctx, name=f"wfs{next(_c)}", config={})
    inp, out = wf.create_port(), wf.create_port()
    st = wf.create_step(cls=ScatterStep, name=f"/s{next(_c)}")
    st.add_input_port("in", inp)
    st.add_output_port("out", out)
    await wf.save(ctx.database)
    for t in list_tokens:
        inp.put(t)
    inp.put(TerminationToken())
    await st.run()
    strip = lambda p: [t for t in p.token_list if not isinstance(t, TerminationToken)]
    return strip(out), strip(st.get_size_port())


async def run_gather(ctx, arrivals, depth):
    wf = Workflow(context=ctx, name=f"wfg{next(_c)}", config={})
    inp, size, out = wf.create_port(), wf.create_port(), wf.create_port()
    st = wf.create_step(cls=GatherStep, name=f"/g{next(_c)}", size_port=size, depth=depth)
    st.add_input_port("in", inp)
    st.add_output_port("out", out)
    await wf.save(ctx.database)
    task = asyncio.create_task(st.run())
    for kind, tok in arrivals:
        (size if kind == "size" else inp).put(tok)
        for _ in range(rng.choice([0, 1, 5, 20])):
            await asyncio.sleep(0)
    inp.put(TerminationToken())
    size.put(TerminationToken())
    await asyncio.wait_for(task, 60)
    return [t for t in out.token_list if not isinstance(t, TerminationToken)]


async def one_case(ctx, n, nested):
    if not nested:
        vals = [f"v{i}" for i in range(n)]
        elems, sizes = await run_scatter(ctx, [ListToken([Token(v) for v in vals], tag="0")])
        if [t.tag for t in elems] != [f"0.{i}" for i in range(n)] or [t.value for t in elems] != vals:
            return {"stage": "scatter", "n": n, "tags": [t.tag for t in elems]}
        if len(sizes) != 1 or sizes[0].value != n or sizes[0].tag != "0":
            return {"stage": "scatter size token", "n": n, "sizes": [(t.tag, t.value) for t in sizes]}
        arr = [("elem", t.update(t.value)) for t in elems]
        rng.shuffle(arr)
        arr.insert(rng.randint(0, len(arr)), ("size", sizes[0]))
        out = await run_gather(ctx, arr, 1)
        if len(out) != 1 or not isinstance(out[0], ListToken) or out[0].tag != "0" or [t.value for t in out[0].value] != vals:
            return {"stage": "gather", "n": n, "arrival": [(k, t.tag) for k, t in arr], "got": [[t.value for t in o.value] for o in out if isinstance(o, ListToken)]}
        return None
    # nested: a list of lists, scattered twice, gathered twice
    shape = [rng.choice([0, 1, 2, 11]) for _ in range(n)]
    vals = [[f"v{i}.{j}" for j in range(m)] for i, m in enumerate(shape)]
    outer, osizes = await run_scatter(ctx, [ListToken([ListToken([Token(v) for v in row]) for row in vals], tag="0")])
    inner, isizes = await run_scatter(ctx, outer)
    arr = [("elem", t.update(t.value)) for t in inner] + [("size", s) for s in isizes]
    rng.shuffle(arr)
    mid = await run_gather(ctx, arr, 1)
    arr2 = [("elem", t) for t in mid] + [("size", s) for s in osizes]
    rng.shuffle(arr2)
    out = await run_gather(ctx, arr2, 1)
    got = [[t.value for t in row.value] for row in out[0].value] if len(out) == 1 and isinstance(out[0], ListToken) else None
    if got != vals or out[0].tag != "0":
        return {"stage": "nested", "shape": shape, "got": got}
    return None


async def pipeline_case(ctx, n):
    """scatter -> element-wise step with SEVERAL inputs -> gather, run by the real executor: (a) a two-port Transformer whose ports
    receive the elements in different orders, (b) a dot-product CombinatorStep joining the scattered elements with a non-scattered
    token that arrives last.  The gathered list is the original list."""
    from streamflow.workflow.combinator import DotProductCombinator
    from streamflow.workflow.executor import StreamFlowExecutor
    from streamflow.workflow.step import CombinatorStep, Transformer

    class Pair(Transformer):
        async def transform(self, inputs):
            return {"out": Token(value=f"{inputs['a'].value}", tag=inputs["a"].tag)}

    vals = [f"v{i}" for i in range(n)]
    elems, sizes = await run_scatter(ctx, [ListToken([Token(v) for v in vals], tag="0")])
    kind = rng.choice(["transformer", "combinator"])
    wf = Workflow(context=ctx, name=f"wfp{next(_c)}", config={})
    a, b, mid, size, out = (wf.create_port() for _ in range(5))
    if kind == "transformer":
        st = wf.create_step(cls=Pair, name=f"/t{next(_c)}")
        st.add_input_port("a", a)
        st.add_input_port("b", b)
        st.add_output_port("out", mid)
    else:
        comb = DotProductCombinator(name=f"c{next(_c)}", workflow=wf)
        comb.add_item("a")
        comb.add_item("b")
        st = wf.create_step(cls=CombinatorStep, name=f"/c{next(_c)}-combinator", combinator=comb)
        st.add_input_port("a", a)
        st.add_input_port("b", b)
        st.add_output_port("a", mid)
        st.add_output_port("b", wf.create_port())
    ga = wf.create_step(cls=GatherStep, name=f"/g{next(_c)}", size_port=size, depth=1)
    ga.add_input_port("in", mid)
    ga.add_output_port("out", out)
    await wf.save(ctx.database)

    async def feed(port, tok):
        await tok.save(ctx.database, port.persistent_id)
        port.put(tok)

    if kind == "transformer":
        order_a, order_b = rng.sample(elems, len(elems)), rng.sample(elems, len(elems))
        for t in order_a:
            await feed(a, Token(value=t.value, tag=t.tag))
        for t in order_b:
            await feed(b, Token(value="other", tag=t.tag))
    else:
        order_a = list(reversed(elems)) if rng.random() < 0.5 else rng.sample(elems, len(elems))
        for t in order_a:
            await feed(a, Token(value=t.value, tag=t.tag))
        await feed(b, Token(value="plain", tag="0"))  # the non-scattered input, after the scattered ones
    a.put(TerminationToken())
    b.put(TerminationToken())
    await feed(size, Token(value=n, tag="0"))
    size.put(TerminationToken())
    await asyncio.wait_for(StreamFlowExecutor(wf).run(), 120)
    res = [t for t in out.token_list if not isinstance(t, TerminationToken)]
    got = [t.value for t in res[0].value] if len(res) == 1 and isinstance(res[0], ListToken) else None
    if got != vals:
        return {"stage": f"scatter -> {kind} with two inputs -> gather", "n": n, "arrival_a": [t.tag for t in order_a], "got": got}
    return None


async def search(n):
    ctx = build_context({"database": {"type": "default", "config": {"connection": ":memory:"}}, "path": tempfile.mkdtemp()})
    try:
        for k in range(n):
            size = rng.choice([0, 1, 2, 3, 9, 10, 11, 12, 25]) if k % 4 else rng.choice([0, 1, 2, 3])
            bad = await one_case(ctx, size, nested=(k % 4 == 0))
            if bad:
                return bad
            if k % 3 == 0:
                bad = await pipeline_case(ctx, rng.choice([1, 2, 3, 11, 12, 23]))
                if bad:
                    return bad
    finally:
        await ctx.close()
    return None


def replay(path):
    load_replay(path)
    finish_replay(path, asyncio.run(search(60)), "(60 scatter/gather round trips, shuffled arrival)")


def crosscheck(n):
    k = max(12, int(n) // 2)
    bad = asyncio.run(search(k))
    print(json.dumps({"inputs": k, "native_contract_failures": 1 if bad else 0, "samples": [bad] if bad else []}, default=str))
    sys.exit(1 if bad else 0)


main({"replay": replay, "crosscheck": crosscheck})
