"""C01 native drivers: real ScatterStep -> (element-wise identity) -> real GatherStep round trips, for list lengths
0..25, every size-token position and shuffled element arrival, single and nested scatter."""
import asyncio
import itertools
import json
import logging
import sys
import tempfile

from common import finish_replay, load_replay, main, rng

logging.disable(logging.CRITICAL)

from streamflow.core.workflow import Token, Workflow
from streamflow.main import build_context
from streamflow.workflow.step import GatherStep, ScatterStep
from streamflow.workflow.token import ListToken, TerminationToken

_c = itertools.count()


async def run_scatter(ctx, list_tokens):
    wf = Workflow(context=ctx, name=f"wfs{next(_c)}", config={})
    inp, out = wf.create_port(), wf.create_port()
    st = wf.create_step(cls=ScatterStep, name=f"/s{next(_c)}")
    st.add_input_port("in", inp)
    st.add_output_port("out", out)
    await wf.save(ctx.database)
    for t in list_tokens:
        inp.put(t)
    inp.put(TerminationToken())
    await st.run()
    strip = lambda p: [t for t in p.token_list if not isinstance(t, TerminationToken)]
    return strip(out), strip(st.get_size_port())


async def run_gather(ctx, arrivals, depth, reload=False):
    wf = Workflow(context=ctx, name=f"wfg{next(_c)}", config={})
    inp, size, out = wf.create_port(), wf.create_port(), wf.create_port()
    st = wf.create_step(cls=GatherStep, name=f"/g{next(_c)}", size_port=size, depth=depth)
    st.add_input_port("in", inp)
    st.add_output_port("out", out)
    await wf.save(ctx.database)
    if reload:
        # the step as recovery / resume sees it: loaded back from the database
        from streamflow.persistence.loading_context import DefaultDatabaseLoadingContext

        st = (await Workflow.load(wf.persistent_id, DefaultDatabaseLoadingContext(database=ctx.database))).steps[st.name]
        inp, size, out = st.get_input_port(), st.get_size_port(), st.get_output_port()
    task = asyncio.create_task(st.run())
    for kind, tok in arrivals:
        (size if kind == "size" else inp).put(tok)
        for _ in range(rng.choice([0, 1, 5, 20])):
            await asyncio.sleep(0)
    inp.put(TerminationToken())
    size.put(TerminationToken())
    await asyncio.wait_for(task, 60)
    return [t for t in out.token_list if not isinstance(t, TerminationToken)]


async def depth2_case(ctx, outer_n, inner_n, reloaded):
    # nested, flattened by ONE gather of depth 2 (flat cross product): all the elements, in order, under the outer tag; the step is
    # built in memory or loaded back from the database
    vals = [[f"v{i}.{j}" for j in range(inner_n)] for i in range(outer_n)]
    outer, _ = await run_scatter(ctx, [ListToken([ListToken([Token(v) for v in row]) for row in vals], tag="0")])
    inner, _ = await run_scatter(ctx, outer)
    arr = [("elem", t.update(t.value)) for t in inner]
    rng.shuffle(arr)
    arr.insert(rng.randint(0, len(arr)), ("size", Token(outer_n * inner_n, tag="0")))
    out = await run_gather(ctx, arr, 2, reload=reloaded)
    flat = [v for row in vals for v in row]
    if len(out) != 1 or not isinstance(out[0], ListToken) or out[0].tag != "0" or [t.value for t in out[0].value] != flat:
        return {"stage": "nested scatter flattened by one gather of depth 2" + (" (gather step saved and loaded back)" if reloaded else ""), "outer": outer_n, "inner": inner_n,
                "got": [(o.tag, [t.value for t in o.value]) for o in out if isinstance(o, ListToken)][:4]}
    return None


async def one_case(ctx, n, nested):
    if not nested:
        vals = [f"v{i}" for i in range(n)]
        elems, sizes = await run_scatter(ctx, [ListToken([Token(v) for v in vals], tag="0")])
        if [t.tag for t in elems] != [f"0.{i}" for i in range(n)] or [t.value for t in elems] != vals:
            return {"stage": "scatter", "n": n, "tags": [t.tag for t in elems]}
        if len(sizes) != 1 or sizes[0].value != n or sizes[0].tag != "0":
            return {"stage": "scatter size token", "n": n, "sizes": [(t.tag, t.value) for t in sizes]}
        arr = [("elem", t.update(t.value)) for t in elems]
        rng.shuffle(arr)
        arr.insert(rng.randint(0, len(arr)), ("size", sizes[0]))
        out = await run_gather(ctx, arr, 1)
        if len(out) != 1 or not isinstance(out[0], ListToken) or out[0].tag != "0" or [t.value for t in out[0].value] != vals:
            return {"stage": "gather", "n": n, "arrival": [(k, t.tag) for k, t in arr], "got": [[t.value for t in o.value] for o in out if isinstance(o, ListToken)]}
        return None
    if rng.random() < 0.4:
        return await depth2_case(ctx, max(1, min(n, 4)), rng.choice([1, 3, 11]), rng.random() < 0.5)
    # nested: a list of lists, scattered twice, gathered twice
    shape = [rng.choice([0, 1, 2, 11]) for _ in range(n)]
    vals = [[f"v{i}.{j}" for j in range(m)] for i, m in enumerate(shape)]
    outer, osizes = await run_scatter(ctx, [ListToken([ListToken([Token(v) for v in row]) for row in vals], tag="0")])
    inner, isizes = await run_scatter(ctx, outer)
    arr = [("elem", t.update(t.value)) for t in inner] + [("size", s) for s in isizes]
    rng.shuffle(arr)
    mid = await run_gather(ctx, arr, 1)
    arr2 = [("elem", t) for t in mid] + [("size", s) for s in osizes]
    rng.shuffle(arr2)
    out = await run_gather(ctx, arr2, 1)
    got = [[t.value for t in row.value] for row in out[0].value] if len(out) == 1 and isinstance(out[0], ListToken) else None
    if got != vals or out[0].tag != "0":
        return {"stage": "nested", "shape": shape, "got": got}
    return None


async def pipeline_case(ctx, n):
    """scatter -> element-wise step with SEVERAL inputs -> gather, run by the real executor: (a) a two-port Transformer whose ports
    receive the elements in different orders, (b) a dot-product CombinatorStep joining the scattered elements with a non-scattered
    token that arrives last.  The gathered list is the original list."""
    from streamflow.workflow.combinator import DotProductCombinator
    from streamflow.workflow.executor import StreamFlowExecutor
    from streamflow.workflow.step import CombinatorStep, Transformer

    class Pair(Transformer):
        async def transform(self, inputs):
            return {"out": Token(value=f"{inputs['a'].value}", tag=inputs["a"].tag)}

    vals = [f"v{i}" for i in range(n)]
    elems, sizes = await run_scatter(ctx, [ListToken([Token(v) for v in vals], tag="0")])
    kind = rng.choice(["transformer", "combinator"])
    wf = Workflow(context=ctx, name=f"wfp{next(_c)}", config={})
    a, b, mid, size, out = (wf.create_port() for _ in range(5))
    if kind == "transformer":
        st = wf.create_step(cls=Pair, name=f"/t{next(_c)}")
        st.add_input_port("a", a)
        st.add_input_port("b", b)
        st.add_output_port("out", mid)
    else:
        comb = DotProductCombinator(name=f"c{next(_c)}", workflow=wf)
        comb.add_item("a")
        comb.add_item("b")
        st = wf.create_step(cls=CombinatorStep, name=f"/c{next(_c)}-combinator", combinator=comb)
        st.add_input_port("a", a)
        st.add_input_port("b", b)
        st.add_output_port("a", mid)
        st.add_output_port("b", wf.create_port())
    ga = wf.create_step(cls=GatherStep, name=f"/g{next(_c)}", size_port=size, depth=1)
    ga.add_input_port("in", mid)
    ga.add_output_port("out", out)
    await wf.save(ctx.database)

    async def feed(port, tok):
        await tok.save(ctx.database, port.persistent_id)
        port.put(tok)

    if kind == "transformer":
        order_a, order_b = rng.sample(elems, len(elems)), rng.sample(elems, len(elems))
        for t in order_a:
            await feed(a, Token(value=t.value, tag=t.tag))
        for t in order_b:
            await feed(b, Token(value="other", tag=t.tag))
    else:
        order_a = list(reversed(elems)) if rng.random() < 0.5 else rng.sample(elems, len(elems))
        for t in order_a:
            await feed(a, Token(value=t.value, tag=t.tag))
        await feed(b, Token(value="plain", tag="0"))  # the non-scattered input, after the scattered ones
    a.put(TerminationToken())
    b.put(TerminationToken())
    await feed(size, Token(value=n, tag="0"))
    size.put(TerminationToken())
    await asyncio.wait_for(StreamFlowExecutor(wf).run(), 120)
    res = [t for t in out.token_list if not isinstance(t, TerminationToken)]
    got = [t.value for t in res[0].value] if len(res) == 1 and isinstance(res[0], ListToken) else None
    if got != vals:
        return {"stage": f"scatter -> {kind} with two inputs -> gather", "n": n, "arrival_a": [t.tag for t in order_a], "got": got}
    return None


async def nested_combinator_case(ctx, order=None):
    """nested scatter -> dot-product CombinatorStep joining the elements (tags 0.i.j) with one value per outer index (0.i) and one
    plain value (0), the three groups arriving in any of the 6 orders -> two gathers: the original list of lists"""
    from streamflow.workflow.combinator import DotProductCombinator
    from streamflow.workflow.step import CombinatorStep

    shape = [rng.choice([1, 2, 3, 11]) for _ in range(rng.randint(1, 3))]
    vals = [[f"v{i}.{j}" for j in range(m)] for i, m in enumerate(shape)]
    outer, osizes = await run_scatter(ctx, [ListToken([ListToken([Token(v) for v in row]) for row in vals], tag="0")])
    inner, isizes = await run_scatter(ctx, outer)
    wf = Workflow(context=ctx, name=f"wfn{next(_c)}", config={})
    comb = DotProductCombinator(name=f"c{next(_c)}", workflow=wf)
    st = wf.create_step(cls=CombinatorStep, name=f"/c{next(_c)}-combinator", combinator=comb)
    ins, outs = {}, {}
    for pn in ("x", "y", "z"):
        comb.add_item(pn)
        ins[pn], outs[pn] = wf.create_port(), wf.create_port()
        st.add_input_port(pn, ins[pn])
        st.add_output_port(pn, outs[pn])
    await wf.save(ctx.database)
    groups = {"x": [("x", t.update(t.value)) for t in inner], "y": [("y", Token(f"param{i}", tag=f"0.{i}")) for i in range(len(shape))], "z": [("z", Token("global", tag="0"))]}
    order = list(order) if order else rng.sample("xyz", 3)
    for g in groups.values():
        rng.shuffle(g)
    task = asyncio.create_task(st.run())
    for g in order:
        for pn, tok in groups[g]:
            await tok.save(ctx.database, ins[pn].persistent_id)
            ins[pn].put(tok)
            for _ in range(rng.choice([0, 3, 20])):
                await asyncio.sleep(0)
    for prt in ins.values():
        prt.put(TerminationToken())
    await asyncio.wait_for(task, 60)
    elems = [t.update(t.value) for t in outs["x"].token_list if not isinstance(t, TerminationToken)]
    arr = [("elem", t) for t in elems] + [("size", s) for s in isizes]
    rng.shuffle(arr)
    mid = await run_gather(ctx, arr, 1)
    arr2 = [("elem", t) for t in mid] + [("size", s) for s in osizes]
    rng.shuffle(arr2)
    out = await run_gather(ctx, arr2, 1)
    got = [[t.value for t in row.value] for row in out[0].value] if len(out) == 1 and isinstance(out[0], ListToken) and all(isinstance(r, ListToken) for r in out[0].value) else None
    if got != vals:
        return {"stage": "nested scatter -> dot product with values of the outer levels -> two gathers", "shape": shape, "arrival_order_of_the_levels": order,
                "combinations_emitted": len(elems), "got": got}
    return None


async def search(n):
    ctx = build_context({"database": {"type": "default", "config": {"connection": ":memory:"}}, "path": tempfile.mkdtemp()})
    try:
        import itertools as _it

        for perm in _it.permutations("xyz"):  # every arrival order of the three tag levels, once
            bad = await nested_combinator_case(ctx, perm)
            if bad:
                return bad
        # directed: a depth-2 gather over 2..3 outer indices, in memory and loaded back from the database, every run (the random cases
        # below reach "depth 2 + reloaded + more than one outer index" in about one run out of two only — seen with VERIF_SEED=1)
        for outer_n, inner_n, reloaded in ((2, 3, False), (2, 3, True), (3, 11, True)):
            bad = await depth2_case(ctx, outer_n, inner_n, reloaded)
            if bad:
                return bad
        for k in range(n):
            size = rng.choice([0, 1, 2, 3, 9, 10, 11, 12, 25]) if k % 4 else rng.choice([0, 1, 2, 3])
            bad = await one_case(ctx, size, nested=(k % 4 == 0))
            if bad:
                return bad
            if k % 3 == 0:
                bad = await pipeline_case(ctx, rng.choice([1, 2, 3, 11, 12, 23])) or await nested_combinator_case(ctx)
                if bad:
                    return bad
    finally:
        await ctx.close()
    return None


def replay(path):
    load_replay(path)
    finish_replay(path, asyncio.run(search(60)), "(60 scatter/gather round trips, shuffled arrival)")


def crosscheck(n):
    k = max(12, int(n) // 2)
    bad = asyncio.run(search(k))
    print(json.dumps({"inputs": k, "native_contract_failures": 1 if bad else 0, "samples": [bad] if bad else []}, default=str))
    sys.exit(1 if bad else 0)


main({"replay": replay, "crosscheck": crosscheck})
