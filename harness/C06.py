"""C06 native drivers: the two loop-output policies on the real classes, for 0..15 iterations in shuffled arrival order."""
import asyncio
import json
import sys

from common import finish_replay, load_replay, main, rng

from streamflow.core.workflow import Token
from streamflow.cwl.step import CWLLoopOutputAllStep, CWLLoopOutputLastStep
from streamflow.workflow.token import ListToken


def mk(cls):
    s = cls.__new__(cls)
    s.token_map, s.size_map, s.termination_map = {}, {}, {}
    return s


def search(n):
    for _ in range(n):
        prefix = rng.choice(["0", "0.3", "0.12.1"])
        count = rng.choice([0, 1, 2, 3, 9, 10, 11, 12, 15])
        vals = [Token(value=f"v{i}", tag=f"{prefix}.{i}") for i in range(count)]
        arr = list(vals)
        rng.shuffle(arr)
        for cls in (CWLLoopOutputAllStep, CWLLoopOutputLastStep):
            s = mk(cls)
            if count:
                s.token_map[prefix] = list(arr)
            out = asyncio.run(s._process_output(prefix))
            if cls is CWLLoopOutputAllStep:
                ok = isinstance(out, ListToken) and out.tag == prefix and [t.value for t in out.value] == [f"v{i}" for i in range(count)]
            else:
                ok = out.tag == prefix and out.value == (f"v{count - 1}" if count else None)
            if not ok:
                return {"policy": cls.__name__, "prefix": prefix, "iterations": count, "arrival": [t.tag for t in arr],
                        "got": [t.value for t in out.value] if isinstance(out, ListToken) else out.value}
    return None


def replay(path):
    load_replay(path)
    finish_replay(path, search(400), "(400 instances, 0..15 iterations, shuffled arrival)")


def crosscheck(n):
    bad = search(int(n) * 4)
    print(json.dumps({"inputs": int(n) * 4, "native_contract_failures": 1 if bad else 0, "samples": [bad] if bad else []}, default=str))
    sys.exit(1 if bad else 0)


main({"replay": replay, "crosscheck": crosscheck})
