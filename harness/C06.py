"""C06 native drivers: the two loop-output policies on the real classes, for 0..15 iterations in shuffled arrival order."""
import asyncio
import json
import os
import sys

from common import finish_replay, load_replay, main, rng

from streamflow.core.workflow import Token
from streamflow.cwl.step import CWLLoopOutputAllStep, CWLLoopOutputLastStep
from streamflow.workflow.token import ListToken


def mk(cls):
    s = cls.__new__(cls)
    s.token_map, s.size_map, s.termination_map = {}, {}, {}
    return s


def search(n):
    for _ in range(n):
        prefix = rng.choice(["0", "0.3", "0.12.1"])
        count = rng.choice([0, 1, 2, 3, 9, 10, 11, 12, 15])
        vals = [Token(value=f"v{i}", tag=f"{prefix}.{i}") for i in range(count)]
        arr = list(vals)
        rng.shuffle(arr)
        for cls in (CWLLoopOutputAllStep, CWLLoopOutputLastStep):
            s = mk(cls)
            if count:
                s.token_map[prefix] = list(arr)
            out = asyncio.run(s._process_output(prefix))
            if cls is CWLLoopOutputAllStep:
                ok = isinstance(out, ListToken) and out.tag == prefix and [t.value for t in out.value] == [f"v{i}" for i in range(count)]
            else:
                ok = out.tag == prefix and out.value == (f"v{count - 1}" if count else None)
            if not ok:
                return {"policy": cls.__name__, "prefix": prefix, "iterations": count, "arrival": [t.tag for t in arr],
                        "got": [t.value for t in out.value] if isinstance(out, ListToken) else out.value}
    return None


async def loop_step_case(context, n=None, ordered=False):
    """a real LoopCombinatorStep around 1..14 loop instances (scatter elements) with different iteration counts; the driver plays
    condition, body and loop terminator.  Every instance must see the iterations 0..count in order, and the step must end only
    after every instance has finished."""
    import posixpath

    from streamflow.core import utils
    from streamflow.core.workflow import Status, Workflow
    from streamflow.workflow.combinator import LoopCombinator
    from streamflow.workflow.step import LoopCombinatorStep
    from streamflow.workflow.token import IterationTerminationToken, TerminationToken

    n = n or rng.choice([1, 2, 3, 4, 11, 12, 14])
    counts = [rng.choice([0, 1, 2, 3, 9, 10, 12]) for _ in range(n)]
    wf = Workflow(context=context, name=utils.random_name(), config={})
    in_port, out_port = wf.create_port(), wf.create_port()
    name = posixpath.join(posixpath.sep, utils.random_name()) + "-loop-combinator"
    comb = LoopCombinator(name=name, workflow=wf)
    comb.add_item("x")
    step = wf.create_step(cls=LoopCombinatorStep, name=name, combinator=comb)
    step.add_input_port("x", in_port)
    step.add_output_port("x", out_port)
    await wf.save(context.database)

    async def feed(tok):
        await tok.save(context.database, in_port.persistent_id)
        in_port.put(tok)

    for k in (range(n) if ordered else rng.sample(range(n), n)):  # (ordered: 0.1 arrives before 0.10, 0.11)
        await feed(Token(value=0, tag=f"0.{k}"))
    in_port.put(TerminationToken(Status.COMPLETED))
    seen = {f"0.{k}": [] for k in range(n)}
    done = set()
    task = asyncio.create_task(step.run())
    try:
        while True:
            try:
                tok = await asyncio.wait_for(out_port.get("driver"), 10)
            except asyncio.TimeoutError:
                return {"failure": "the loop step neither emits nor terminates (it waits for an instance that does not exist)", "iteration_counts": counts,
                        "finished": sorted(done)}
            if isinstance(tok, TerminationToken):
                break
            prefix, _, idx = tok.tag.rpartition(".")
            if prefix not in seen:
                return {"failure": "a token of an unknown loop instance was emitted", "tag": tok.tag, "iteration_counts": counts}
            seen[prefix].append(int(idx))
            if int(idx) < counts[int(prefix.split(".")[-1])]:
                await feed(Token(value=tok.value + 1, tag=tok.tag))
            else:
                done.add(prefix)
                in_port.put(IterationTerminationToken(tag=prefix))
        await asyncio.wait_for(task, 30)
    finally:
        if not task.done():
            task.cancel()
            await asyncio.gather(task, return_exceptions=True)
    for k, c in enumerate(counts):
        if seen[f"0.{k}"] != list(range(c + 1)):
            return {"failure": "a loop instance did not run its iterations 0..count in order", "instance": f"0.{k}", "iterations": seen[f"0.{k}"], "count": c,
                    "iteration_counts": counts}
        if f"0.{k}" not in done:
            return {"failure": "the loop step terminated before every loop instance had emitted its output", "instance": f"0.{k}", "iteration_counts": counts}
    return None


async def loop_output_run_case(context):
    """a real CWLLoopOutputAllStep / CWLLoopOutputLastStep run by the executor for 1..3 loop instances; the iteration values AND the
    iteration-termination token of every instance arrive in a random order (the termination may overtake values).  Exactly one
    output per instance: all the values in iteration order, or the last one."""
    from streamflow.core.workflow import Workflow
    from streamflow.workflow.executor import StreamFlowExecutor
    from streamflow.workflow.token import IterationTerminationToken, TerminationToken

    cls = rng.choice([CWLLoopOutputAllStep, CWLLoopOutputLastStep])
    wf = Workflow(context=context, name=f"c06-lo-{rng.random()}", config={})
    in_port, out_port = wf.create_port(), wf.create_port()
    step = wf.create_step(cls=cls, name=f"/loop{int(rng.random() * 10 ** 9)}/out-loop-output")
    step.add_input_port("out", in_port)
    step.add_output_port("out", out_port)
    await wf.save(context.database)
    inst = {f"0.{k}": rng.choice([1, 2, 3, 5, 11]) for k in range(rng.randint(1, 3))}
    events = []
    for prefix, n in inst.items():
        events += [Token(f"{prefix}#{i}", tag=f"{prefix}.{i}") for i in range(n)]
        events.append(IterationTerminationToken(tag=f"{prefix}.{n}"))
    rng.shuffle(events)
    for t in events:
        if not isinstance(t, IterationTerminationToken):
            await t.save(context.database, in_port.persistent_id)
        in_port.put(t)
    in_port.put(TerminationToken())
    await asyncio.wait_for(StreamFlowExecutor(wf).run(), 60)
    outs = {o.tag: o for o in out_port.token_list if not isinstance(o, TerminationToken)}
    for prefix, n in inst.items():
        o = outs.get(prefix)
        want = [f"{prefix}#{i}" for i in range(n)]
        got = None if o is None else ([t.value for t in o.value] if isinstance(o, ListToken) else o.value)
        ok = got == (want if cls is CWLLoopOutputAllStep else want[-1])
        if not ok or len(outs) != len(inst):
            return {"failure": "the loop output step did not emit exactly the output of every loop instance", "policy": cls.__name__, "instance": prefix, "iterations": n,
                    "arrival": [("END " if isinstance(t, IterationTerminationToken) else "") + t.tag for t in events], "got": got, "outputs": sorted(outs)}
    return None


async def conditional_case(context):
    """the loop-when step (CWLLoopConditionalStep) with two loop variables and 2..3 concurrent loop instances whose iteration tokens
    reach its two input ports in INDEPENDENT interleavings: every instance is evaluated at every iteration, so every instance gets
    its termination and, through the loop output step, exactly one output with all its values"""
    from streamflow.core.workflow import Status
    from streamflow.cwl.step import CWLLoopConditionalStep
    from streamflow.cwl.workflow import CWLWorkflow
    from streamflow.workflow.token import TerminationToken

    global _cc
    _cc = globals().get("_cc", 0) + 1
    wf = CWLWorkflow(context=context, name=f"c06-cond-{_cc}", config={}, cwl_version="v1.2")
    in_ports = {k: wf.create_port() for k in ("i1", "i2")}
    out_ports = {k: wf.create_port() for k in ("i1", "i2")}
    lo_in, lo_out = wf.create_port(), wf.create_port()
    cond = wf.create_step(cls=CWLLoopConditionalStep, name=f"/loop{_cc}-when", expression="$(inputs.i1 < inputs.i2)", full_js=True)
    for k in ("i1", "i2"):
        cond.add_input_port(k, in_ports[k])
        cond.add_output_port(k, out_ports[k])
    cond.add_skip_port("o1", lo_in)
    loop_out = wf.create_step(cls=CWLLoopOutputAllStep, name=f"/o{_cc}-loop-output")
    loop_out.add_input_port("o1", lo_in)
    loop_out.add_output_port("o1", lo_out)
    await wf.save(context.database)

    async def put(port, tag, value):
        t = Token(value=value, tag=tag)
        await t.save(context.database, port_id=port.persistent_id)
        port.put(t)

    counts = {f"0.{j}": rng.randint(1, 3) for j in rng.sample(range(12), rng.randint(2, 3))}

    def interleaving():
        seqs = [[(f"{inst}.{k}", k, c) for k in range(c + 1)] for inst, c in counts.items()]
        order = []
        while any(seqs):
            q = rng.choice([x for x in seqs if x])
            order.append(q.pop(0))
        return order

    o1, o2 = interleaving(), interleaving()
    for tag, i1, _ in o1:
        await put(in_ports["i1"], tag, i1)
    for tag, _, i2 in o2:
        await put(in_ports["i2"], tag, i2)
    for prt in in_ports.values():
        prt.put(TerminationToken(Status.COMPLETED))
    body = [(f"{inst}.{k}", k + 1) for inst, c in counts.items() for k in range(c)]
    rng.shuffle(body)
    for tag, v in body:
        await put(lo_in, tag, v)
    lo_task = asyncio.create_task(loop_out.run())
    try:
        await asyncio.wait_for(cond.run(), 60)
        lo_in.put(TerminationToken(Status.COMPLETED))
        await asyncio.wait_for(lo_task, 60)
    except asyncio.TimeoutError:
        lo_task.cancel()
        return {"failure": "the loop-when / loop output steps did not terminate", "instances": counts}
    outputs = {}
    for t in lo_out.token_list:
        if isinstance(t, ListToken):
            outputs.setdefault(t.tag, []).append([e.value for e in t.value])
    want = {inst: [list(range(1, c + 1))] for inst, c in counts.items()}
    if outputs != want:
        return {"failure": "a loop instance did not get exactly one output with all its iteration values", "outputs": outputs, "expected": want,
                "arrival_on_i1": [x[0] for x in o1], "arrival_on_i2": [x[0] for x in o2]}
    return None


async def step_restore_case(context):
    """resuming a loop instance (what recovery does): a real LoopCombinatorStep runs 4..15 iterations with tokens and provenance in the
    database; a fresh step is restored on the (shuffled) output tokens that have to be produced again, from iteration `first_lost` on;
    replaying the input of that iteration yields the token numbered `first_lost` — numerically, also past iteration 9"""
    from streamflow.core import utils
    from streamflow.core.workflow import Workflow
    from streamflow.workflow.combinator import LoopCombinator
    from streamflow.workflow.step import LoopCombinatorStep
    from streamflow.workflow.token import IterationTerminationToken, TerminationToken

    iterations = rng.choice([4, 9, 11, 12, 15])
    wf = Workflow(context=context, name=utils.random_name(), config={})
    in_port, out_port = wf.create_port(), wf.create_port()
    comb = LoopCombinator(name="/loop-combinator", workflow=wf)
    comb.add_item("i1")
    step = wf.create_step(cls=LoopCombinatorStep, name="/loop-combinator", combinator=comb)
    step.add_input_port("i1", in_port)
    step.add_output_port("i1", out_port)
    await wf.save(context.database)
    task = asyncio.create_task(step.run())
    first = Token(value=100, tag="0")
    await first.save(context.database, port_id=in_port.persistent_id)
    in_port.put(first)
    in_port.put(TerminationToken())
    inputs, outputs = {"0": first}, {}
    for k in range(iterations + 1):
        out = await asyncio.wait_for(out_port.get("driver"), 30)
        if out.tag != f"0.{k}":
            task.cancel()
            return {"failure": "the loop combinator step numbers an iteration wrongly", "iteration": k, "tag": out.tag}
        outputs[out.tag] = out
        if k < iterations:
            back = Token(value=out.value + 1, tag=out.tag)
            await back.save(context.database, port_id=in_port.persistent_id)
            await context.database.add_provenance(inputs=[out.persistent_id], token=back.persistent_id)
            inputs[back.tag] = back
            in_port.put(back)
    in_port.put(IterationTerminationToken(tag="0"))
    await asyncio.wait_for(task, 30)
    for first_lost in sorted({1, rng.randint(2, min(9, iterations)), min(9, iterations), max(1, iterations - 2), iterations}):
        comb2 = LoopCombinator(name="/loop-combinator-r", workflow=wf)
        comb2.add_item("i1")
        step2 = LoopCombinatorStep(name=f"/loop-combinator-r{first_lost}-{rng.randint(0, 10 ** 6)}", workflow=wf, combinator=comb2)
        lost = [t for tag, t in outputs.items() if int(tag.split(".")[-1]) >= first_lost]
        rng.shuffle(lost)
        await step2.restore({"i1": lost})
        produced = []
        async for schema in comb2.combine("i1", inputs[f"0.{first_lost - 1}"]):
            produced.append(schema["i1"]["token"].tag)
        if produced != [f"0.{first_lost}"]:
            return {"failure": "a loop resumed at an iteration replays it under another iteration number", "iterations": iterations, "resumed_at": first_lost,
                    "lost_tokens": [t.tag for t in lost], "replayed_as": produced, "expected": [f"0.{first_lost}"]}
    return None


async def loop_step_search(n):
    import tempfile

    from streamflow.main import build_context

    workdir = tempfile.mkdtemp(prefix="c06.")
    context = build_context({"database": {"type": "default", "config": {"connection": ":memory:"}}, "path": workdir})
    try:
        bad = await loop_step_case(context, n=12, ordered=True) or await loop_step_case(context, n=12)
        if bad:
            return bad
        for _ in range(n):
            bad = await loop_step_case(context) or await loop_output_run_case(context) or await loop_output_run_case(context) or await conditional_case(context) or await step_restore_case(context)
            if bad:
                return bad
    finally:
        await context.close()
        os.rmdir(workdir)
    return None


def restore_case(n=300):
    """LoopCombinator.restore on the real class: resuming instance `prefix` at iteration k (0..25, so two digits too) sets its counter to the
    NUMBER k unless the counter is already further; other instances keep theirs"""
    from streamflow.workflow.combinator import LoopCombinator

    for _ in range(n):
        c = LoopCombinator.__new__(LoopCombinator)
        c.iteration_map = {}
        prefixes = rng.sample(["0", "0.1", "0.10", "0.3.12", "7"], rng.randint(1, 3))
        before = {p: rng.randint(0, 25) for p in prefixes if rng.random() < 0.4}
        untouched = {"9.9": rng.randint(0, 30)} if rng.random() < 0.5 else {}
        c.iteration_map.update(before)
        c.iteration_map.update(untouched)
        req, want = {}, dict(before)
        for j, p in enumerate(prefixes):
            for port in range(rng.randint(1, 2)):
                k = rng.randint(0, 25)
                req[f"port{j}_{port}"] = (p, f"{p}.{k}")
                want[p] = max(want.get(p, k), k)
        asyncio.run(c.restore(req))
        want.update(untouched)
        if dict(c.iteration_map) != want:
            return {"unit": "LoopCombinator.restore", "failure": "the iteration counters after restore are not the requested iterations", "counters_before": {**before, **untouched},
                    "request": req, "counters_after": dict(c.iteration_map), "expected": want}
    return None


def replay(path):
    load_replay(path)
    bad = restore_case() or search(400) or asyncio.run(loop_step_search(25))
    finish_replay(path, bad, "(400 output-policy instances, 0..15 iterations, shuffled arrival; 25 loop-step runs with 1..14 instances)")


def crosscheck(n):
    bad = restore_case() or search(int(n) * 4) or asyncio.run(loop_step_search(max(12, int(n) // 4)))
    print(json.dumps({"inputs": int(n) * 4, "native_contract_failures": 1 if bad else 0, "samples": [bad] if bad else []}, default=str))
    sys.exit(1 if bad else 0)


main({"replay": replay, "crosscheck": crosscheck})
