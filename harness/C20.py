"""C20 native drivers: random operation sequences on the real DirectedGraph / DirectedAcyclicGraph, each step checked
against the clauses of contracts/C20.py evaluated on a plain (N, E) model."""
import json
import sys

from common import finish_replay, load_replay, main, rng

from streamflow.recovery.utils import DirectedAcyclicGraph


def view(g):
    N = set(g._successors.keys())
    E = {(u, v) for u, vs in g._successors.items() for v in vs}
    return N, E


def wf(g):
    if set(g._successors) != set(g._predecessors):
        return False
    E = {(u, v) for u, vs in g._successors.items() for v in vs}
    P = {(u, v) for v, us in g._predecessors.items() for u in us}
    return E == P and all(u in g._successors and v in g._successors for u, v in E)


def check_removed(N0, E0, N1, E1, X, requested, prune, extra_lost=frozenset()):
    if len(set(X)) != len(X) or not set(X) <= N0:
        return "returned list has duplicates or unknown nodes"
    Xs = set(X)
    if N1 != N0 - Xs:
        return "node set is not N0 minus the returned nodes"
    if not {x for x in requested if x in N0} <= Xs:
        return "a requested node was not removed"
    if prune:
        for p in N1:
            lost = any((p, c) in E0 and (c in Xs or (p, c) in extra_lost) for c in N0)
            if lost and not any((p, c) in E1 for c in N1):
                return f"survivor {p} lost a successor and is left with none"
    # exactness (reference model): the requested nodes, plus — when pruning — exactly the ancestors that are left with no successor
    # because of the removal (least fixpoint)
    R = {x for x in requested if x in N0}
    if prune and not extra_lost:
        changed = True
        while changed:
            changed = False
            for p in N0 - R:
                succ = {c for (q, c) in E0 if q == p}
                if succ and succ <= R:
                    R.add(p)
                    changed = True
    if (not prune or not extra_lost) and Xs != R:
        return f"removed {sorted(Xs)} where exactly {sorted(R)} had to be removed (prune={prune})"
    return None


def one_sequence(steps=25, nodes=8):
    g = DirectedAcyclicGraph("t")
    hist = []
    for _ in range(steps):
        N0, E0 = view(g)
        op = rng.choice(["add", "add", "add", "remove_nodes", "remove_node", "replace", "promote", "query"])
        if op == "add":
            u = rng.randrange(nodes)
            v = rng.choice([None, rng.randrange(nodes), rng.randrange(nodes)])
            g.add(u, v)
            hist.append(("add", u, v))
            N1, E1 = view(g)
            if N1 != N0 | {u} | ({v} if v is not None else set()) or E1 != E0 | ({(u, v)} if v is not None else set()):
                return hist, "add: wrong view"
        elif op in ("remove_nodes", "remove_node"):
            prune = rng.random() < 0.7
            req = [rng.randrange(nodes + 2) for _ in range(rng.randint(0, 3) if op == "remove_nodes" else 1)]
            if op == "remove_nodes" and req and rng.random() < 0.3:
                req.append(req[0])
            X = g.remove_nodes(list(req), prune) if op == "remove_nodes" else g.remove_node(req[0], prune)
            hist.append((op, req, prune))
            N1, E1 = view(g)
            bad = check_removed(N0, E0, N1, E1, X, req, prune)
            if bad is None and E1 != {(u, v) for (u, v) in E0 if u in N1 and v in N1}:
                bad = "edges are not E0 restricted to the survivors"
            if bad:
                return hist, f"{op}: {bad}"
        elif op == "replace":
            o, n = rng.randrange(nodes + 1), rng.randrange(nodes + 3)
            hist.append(("replace", o, n))
            try:
                g.replace(o, n)
                raised = False
            except ValueError:
                raised = True
            N1, E1 = view(g)
            if o in N0 and n in N0:
                if not raised or (N1, E1) != (N0, E0):
                    return hist, "replace: must raise ValueError and change nothing"
            elif raised:
                return hist, "replace: unexpected ValueError"
            elif o not in N0:
                if (N1, E1) != (N0, E0):
                    return hist, "replace: missing old node must be a no-op"
            else:
                r = lambda x: n if x == o else x
                if N1 != {r(x) for x in N0} or E1 != {(r(u), r(v)) for (u, v) in E0}:
                    return hist, "replace: not a renaming of the old graph"
        elif op == "promote":
            x = rng.randrange(nodes + 1)
            hist.append(("promote", x))
            X = g.promote_to_source(x)
            N1, E1 = view(g)
            if x not in N0:
                if X or (N1, E1) != (N0, E0):
                    return hist, "promote: missing node must be a no-op"
            else:
                lost = {(u, v) for (u, v) in E0 if v == x}
                bad = check_removed(N0, E0, N1, E1, X, [], True, extra_lost=lost)
                if bad is None and E1 != {(u, v) for (u, v) in E0 if v != x and u in N1 and v in N1}:
                    bad = "edges are not E0 minus the incoming edges, restricted to the survivors"
                if bad:
                    return hist, f"promote: {bad}"
        else:
            hist.append(("query",))
            for n in list(N0)[:3]:
                if g.successors(n) != {v for (u, v) in E0 if u == n} or g.predecessors(n) != {u for (u, v) in E0 if v == n}:
                    return hist, "successors/predecessors disagree with the view"
            if g.get_sources() != {n for n in N0 if not any(v == n for (_, v) in E0)} or g.get_sinks() != {n for n in N0 if not any(u == n for (u, _) in E0)}:
                return hist, "sources/sinks disagree with the view"
            if g.get_nodes() != N0 or g.empty() != (not N0):
                return hist, "get_nodes/empty disagree with the view"
            # what a query hands out is the caller's: editing it must leave the graph (and its mirror) as it was
            for n in list(N0)[:3]:
                for got in (g.successors(n), g.predecessors(n), g.get_nodes(), g.get_sources(), g.get_sinks()):
                    got.add(-999)
                    got.discard(next(iter(got)))
            if view(g) != (N0, E0):
                return hist, "editing the set returned by a query changed the graph"
        if not wf(g):
            return hist, f"{hist[-1][0]}: successor and predecessor views no longer mirror each other"
    return hist, None


def search(n):
    for _ in range(n):
        hist, bad = one_sequence()
        if bad:
            return {"failure": bad, "history": hist[-8:]}
    return None


def replay(path):
    load_replay(path)
    finish_replay(path, search(4000), "(4000 random operation sequences, cycles and self loops included)")


def crosscheck(n):
    n = int(n) * 10
    bad = search(n)
    print(json.dumps({"inputs": n, "native_contract_failures": 1 if bad else 0, "samples": [bad] if bad else []}, default=str))
    sys.exit(1 if bad else 0)


main({"replay": replay, "crosscheck": crosscheck})
