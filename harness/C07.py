"""C07 native driver: small real workflows run by the real executor; afterwards the whole provenance table is compared with the
tokens each emitted token was computed from (known by construction), and every dependee must have been persisted before its
depender (ids increase), which makes the relation acyclic.
  * a Transformer with 1..3 input ports, 1..4 tags, the tokens of the tags arriving in an independent random order on every port;
  * a GatherStep over 1..40 scattered elements, the size token delivered or synthesised on termination (forced gather);
  * a real ScatterStep in front of a GatherStep."""
import asyncio
import json
import os
import sys
import tempfile

from common import finish_replay, load_replay, main, rng

from streamflow.core.workflow import Token, Workflow
from streamflow.main import build_context
from streamflow.workflow.executor import StreamFlowExecutor
from streamflow.workflow.step import GatherStep, ScatterStep, Transformer
from streamflow.workflow.token import ListToken, TerminationToken

KNOWN = set()
_n = 0


def uniq(prefix):
    global _n
    _n += 1
    return f"{prefix}{_n}"


class ConcatTransformer(Transformer):
    async def transform(self, inputs):
        tag = next(iter(inputs.values())).tag
        return {"out": Token(value="+".join(str(inputs[k].value) for k in sorted(inputs)), tag=tag)}


async def provenance(context):
    async with context.database.connection as db:
        async with db.execute("SELECT dependee, depender FROM provenance") as cur:
            return [(r[0], r[1]) for r in await cur.fetchall()]


def check_links(rows, out, expected_ids, what):
    if out.persistent_id is None:
        return {"failure": "an emitted token was not persisted", "token": what}
    actual = sorted(d for d, r in rows if r == out.persistent_id)
    if actual != sorted(expected_ids):
        return {"failure": "an emitted token is not linked to exactly the tokens it was computed from", "token": what, "recorded_dependees": actual,
                "expected_dependees": sorted(expected_ids)}
    if any(d >= out.persistent_id for d in actual):
        return {"failure": "a dependee was not persisted before its depender", "token": what, "recorded_dependees": actual, "depender": out.persistent_id}
    return None


async def transformer_case(context, directed=False):
    nports, tags = rng.randint(1, 3), [f"0.{i}" for i in rng.sample(range(12), rng.randint(1, 4))]
    if directed:  # two ports, three tags, opposite arrival orders
        nports, tags = 2, ["0.0", "0.1", "0.10"]
    wf = Workflow(context=context, name=uniq("c07-t"), config={})
    ports = {n: wf.create_port() for n in ["a", "b", "c"][:nports]}
    out_port = wf.create_port()
    await wf.save(context.database)
    step = wf.create_step(cls=ConcatTransformer, name="/" + uniq("concat"))
    for n, p in ports.items():
        step.add_input_port(n, p)
    step.add_output_port("out", out_port)
    toks = {}
    order = {}
    for n, p in ports.items():
        order[n] = rng.sample(tags, len(tags)) if not directed else (list(tags) if n == "a" else list(reversed(tags)))
        for t in order[n]:
            tok = Token(f"{n}@{t}", tag=t)
            await tok.save(context.database, p.persistent_id)
            toks[(n, t)] = tok
            p.put(tok)
        p.put(TerminationToken())
    await wf.save(context.database)
    await asyncio.wait_for(StreamFlowExecutor(wf).run(), 60)
    outs = [t for t in out_port.token_list if not isinstance(t, TerminationToken)]
    rows = await provenance(context)
    if sorted(t.tag for t in outs) != sorted(tags):
        return {"failure": "transformer outputs are not one per tag", "tags": tags, "outputs": [t.tag for t in outs]}
    for o in outs:
        bad = check_links(rows, o, [toks[(n, o.tag)].persistent_id for n in ports], f"transformer output {o.tag} (arrival orders {order})")
        if bad:
            return bad
    return None


async def gather_case(context, n=None, with_size=None):
    n = rng.choice([1, 2, 3, 5, 16, 17, 18, 33, 40]) if n is None else n
    with_size = (rng.random() < 0.5) if with_size is None else with_size
    wf = Workflow(context=context, name=uniq("c07-g"), config={})
    in_port, out_port, size_port = (wf.create_port() for _ in range(3))
    await wf.save(context.database)
    step = wf.create_step(cls=GatherStep, name="/" + uniq("gather"), size_port=size_port)
    step.add_input_port("in", in_port)
    step.add_output_port("out", out_port)
    if with_size:
        st = Token(n, tag="0")
        await st.save(context.database, size_port.persistent_id)
        size_port.put(st)
    size_port.put(TerminationToken())
    elements = [Token(i, tag=f"0.{i}") for i in range(n)]
    for t in rng.sample(elements, len(elements)):
        await t.save(context.database, in_port.persistent_id)
        in_port.put(t)
    in_port.put(TerminationToken())
    await wf.save(context.database)
    await asyncio.wait_for(StreamFlowExecutor(wf).run(), 60)
    outs = [t for t in out_port.token_list if not isinstance(t, TerminationToken)]
    if len(outs) != 1 or not isinstance(outs[0], ListToken):
        return {"failure": "gather did not emit one list", "n": n, "size_delivered": with_size}
    size_token = step.size_map["0"]
    if size_token.persistent_id is None:
        return {"failure": "the size token the list was computed from is not persisted", "n": n, "size_delivered": with_size}
    rows = await provenance(context)
    return check_links(rows, outs[0], [size_token.persistent_id] + [t.persistent_id for t in elements], f"gathered list of {n} elements (size token delivered: {with_size})")


async def scatter_gather_case(context):
    n = rng.choice([0, 1, 2, 7, 20])
    wf = Workflow(context=context, name=uniq("c07-sg"), config={})
    in_port, mid_port, out_port = (wf.create_port() for _ in range(3))
    sc = wf.create_step(cls=ScatterStep, name="/" + uniq("s") + "-scatter")
    sc.add_input_port("in", in_port)
    sc.add_output_port("out", mid_port)
    ga = wf.create_step(cls=GatherStep, name="/" + uniq("s") + "-gather", size_port=sc.get_size_port())
    ga.add_input_port("in", mid_port)
    ga.add_output_port("out", out_port)
    await wf.save(context.database)
    root = ListToken([Token(f"v{i}") for i in range(n)], tag="0")
    await root.save(context.database, in_port.persistent_id)
    in_port.put(root)
    in_port.put(TerminationToken())
    await asyncio.wait_for(StreamFlowExecutor(wf).run(), 60)
    rows = await provenance(context)
    elems = [t for t in mid_port.token_list if not isinstance(t, TerminationToken)]
    sizes = [t for t in sc.get_size_port().token_list if not isinstance(t, TerminationToken)]
    outs = [t for t in out_port.token_list if not isinstance(t, TerminationToken)]
    for e in elems + sizes:
        bad = check_links(rows, e, [root.persistent_id], f"scatter output {e.tag}")
        if bad:
            return bad
    if len(outs) != 1:
        return {"failure": "scatter+gather did not emit one list", "n": n}
    return check_links(rows, outs[0], [t.persistent_id for t in elems + sizes], f"gathered list after a real scatter of {n}")


async def combinator_case(context, shape=None, nx=None, ny=None):
    """a real CombinatorStep: dot(plain, cart(x, y)) (a cross-product scatter combined with a plain input) or a flat dot / cartesian
    product; every emitted token is linked to ALL the input tokens of its combination, nested ones included"""
    from streamflow.workflow.combinator import CartesianProductCombinator, DotProductCombinator
    from streamflow.workflow.step import CombinatorStep

    shape = shape or rng.choice(["dot(plain,cart(x,y))", "dot(a,b)", "cart(x,y)"])
    wf = Workflow(context=context, name=uniq("c07-c"), config={})
    if shape == "dot(plain,cart(x,y))":
        names = ["plain", "x", "y"]
        inner = CartesianProductCombinator(name=uniq("cart"), workflow=wf)
        inner.add_item("x")
        inner.add_item("y")
        comb = DotProductCombinator(name=uniq("dot"), workflow=wf)
        comb.add_combinator(inner, {"x", "y"})
        comb.add_item("plain")
        tags = {"plain": ["0"], "x": [f"0.{i}" for i in range(rng.randint(1, 2))], "y": [f"0.{i}" for i in range(rng.randint(1, 2))]}
    elif shape == "dot(a,b)":
        names = ["a", "b"]
        comb = DotProductCombinator(name=uniq("dot"), workflow=wf)
        for n in names:
            comb.add_item(n)
        t = [f"0.{i}" for i in range(rng.randint(1, 3))]
        tags = {"a": list(t), "b": list(t)}
    else:
        names = ["x", "y"]
        comb = CartesianProductCombinator(name=uniq("cart"), workflow=wf)
        for n in names:
            comb.add_item(n)
        # (with several tokens on one port before a token of the other arrives, ONE arrival yields several combinations)
        tags = {"x": [f"0.{i}" for i in range(nx or rng.randint(1, 3))], "y": [f"0.{i}" for i in range(ny or rng.randint(1, 3))]}
    ins = {n: wf.create_port() for n in names}
    outs = {n: wf.create_port() for n in names}
    await wf.save(context.database)
    step = wf.create_step(cls=CombinatorStep, name="/" + uniq("s") + "-combinator", combinator=comb)
    for n in names:
        step.add_input_port(n, ins[n])
        step.add_output_port(n, outs[n])
    src = {}
    for n in names:
        for t in rng.sample(tags[n], len(tags[n])):
            tok = Token(f"{n}@{t}", tag=t)
            await tok.save(context.database, ins[n].persistent_id)
            src[(n, t)] = tok
            ins[n].put(tok)
        ins[n].put(TerminationToken())
    await wf.save(context.database)
    await asyncio.wait_for(StreamFlowExecutor(wf).run(), 60)
    rows = await provenance(context)
    by_tag = {}
    for n in names:
        for o in outs[n].token_list:
            if not isinstance(o, TerminationToken):
                by_tag.setdefault(o.tag, {})[n] = o
    if not by_tag:
        return {"failure": "the combinator step emitted nothing", "shape": shape, "tags": tags}
    for tag, combo in by_tag.items():
        # the sources of a combination: recovered from the values the emitted tokens carry (value = "<port>@<source tag>")
        want = sorted(src[(o.value.split("@")[0], o.value.split("@")[1])].persistent_id for o in combo.values())
        for n, o in combo.items():
            bad = check_links(rows, o, want, f"{shape}: output {n} of combination {tag}")
            if bad:
                return bad
    return None


async def loop_output_case(context):
    """a real CWLLoopOutputLastStep / CWLLoopOutputAllStep serving 2..3 loop instances whose tokens arrive interleaved: the output of an
    instance is linked to exactly the iteration tokens of THAT instance"""
    from streamflow.cwl.step import CWLLoopOutputAllStep, CWLLoopOutputLastStep
    from streamflow.workflow.token import IterationTerminationToken

    cls = rng.choice([CWLLoopOutputLastStep, CWLLoopOutputAllStep])
    wf = Workflow(context=context, name=uniq("c07-l"), config={})
    in_port, out_port = wf.create_port(), wf.create_port()
    step = wf.create_step(cls=cls, name="/" + uniq("loop") + "/out-loop-output")
    step.add_input_port("out", in_port)
    step.add_output_port("out", out_port)
    await wf.save(context.database)
    inst = {f"0.{k}": rng.randint(1, 3) for k in range(rng.randint(2, 3))}
    events, toks = [], {}
    for prefix, n in inst.items():
        seq = []
        for i in range(n):
            t = Token(f"{prefix}#{i}", tag=f"{prefix}.{i}")
            toks.setdefault(prefix, []).append(t)
            seq.append(t)
        seq.append(IterationTerminationToken(tag=f"{prefix}.{n}"))
        events.append(seq)
    # random interleaving that keeps every instance's own order
    order = []
    while any(events):
        seq = rng.choice([e for e in events if e])
        order.append(seq.pop(0))
    for t in order:
        if not isinstance(t, IterationTerminationToken):
            await t.save(context.database, in_port.persistent_id)
        in_port.put(t)
    in_port.put(TerminationToken())
    await wf.save(context.database)
    await asyncio.wait_for(StreamFlowExecutor(wf).run(), 60)
    rows = await provenance(context)
    outs = {o.tag: o for o in out_port.token_list if not isinstance(o, TerminationToken)}
    if sorted(outs) != sorted(inst):
        return {"failure": "the loop output step did not emit one output per loop instance", "instances": inst, "outputs": sorted(outs)}
    for prefix, o in outs.items():
        bad = check_links(rows, o, [t.persistent_id for t in toks[prefix]], f"{cls.__name__}: output of loop instance {prefix} (arrival {[x.tag for x in order]})")
        if bad:
            return bad
    return None


async def transfer_case(context, directed=False):
    """a job-bound step: a TransferStep with 1..3 input ports and 2..4 tags whose tokens arrive in an independent order on every
    port; each emitted token is linked to the job token of the job it was transferred for plus the consumed inputs OF ITS TAG"""
    from streamflow.core.workflow import Job
    from streamflow.workflow.port import JobPort
    from streamflow.workflow.step import TransferStep
    from streamflow.workflow.token import JobToken

    used = {}

    class IdentityTransferStep(TransferStep):
        async def transfer(self, job, token):
            out = token.update(token.value)
            used[id(out)] = job.name
            return out

    names = ["a", "b", "c"][:rng.randint(1, 3)]
    tags = [f"0.{i}" for i in rng.sample(range(12), rng.randint(2, 4))]
    if directed:  # two ports whose tags arrive in opposite orders
        names, tags = ["a", "b"], ["0.0", "0.1", "0.10"]
    wf = Workflow(context=context, name=uniq("c07-x"), config={})
    ins = {n: wf.create_port() for n in names}
    outs = {n: wf.create_port() for n in names}
    job_port = wf.create_port(cls=JobPort)
    step = wf.create_step(cls=IdentityTransferStep, name="/" + uniq("xfer") + "/__transfer__", job_port=job_port)
    for n in names:
        step.add_input_port(n, ins[n])
        step.add_output_port(n, outs[n])
    await wf.save(context.database)
    tmp = tempfile.gettempdir()
    src = {}
    for n in names:
        order = list(tags)
        rng.shuffle(order)
        if directed:
            order = list(tags) if n == "a" else list(reversed(tags))
        for tag in order:
            t = Token(value=f"{n}@{tag}", tag=tag, recoverable=True)
            await t.save(context.database, port_id=ins[n].persistent_id)
            src[(n, tag)] = t
            ins[n].put(t)
        ins[n].put(TerminationToken())
    jobs = {}
    for tag in tags:
        jt = JobToken(value=Job(name=f"/xfer/{tag}", workflow_id=wf.persistent_id, inputs={}, input_directory=tmp, output_directory=tmp, tmp_directory=tmp), tag=tag)
        await jt.save(context.database, port_id=job_port.persistent_id)
        jobs[jt.value.name] = jt
        job_port.put(jt)
    job_port.put(TerminationToken())
    await asyncio.wait_for(step.run(), 60)
    rows = await provenance(context)
    emitted = 0
    for n in names:
        for o in outs[n].token_list:
            if isinstance(o, TerminationToken):
                continue
            emitted += 1
            if id(o) not in used and o.persistent_id is not None:
                # (the persisted token may be a re-created object: fall back to any one job token)
                job_ids = [d for d, r in rows if r == o.persistent_id and d in {j.persistent_id for j in jobs.values()}]
                want_job = job_ids[:1]
            else:
                want_job = [jobs[used[id(o)]].persistent_id] if id(o) in used else []
            want = want_job + [src[(m, o.tag)].persistent_id for m in names]
            bad = check_links(rows, o, want, f"TransferStep: output {n} of tag {o.tag} ({len(names)} ports, tags {tags})")
            if bad:
                return bad
    if emitted != len(names) * len(tags):
        return {"failure": "the transfer step did not emit one token per port and tag", "emitted": emitted, "expected": len(names) * len(tags)}
    return None


async def schedule_case(context):
    """a job-bound step: a real ScheduleStep bound to 1..3 alternative local deployments (one connector port each, fed by real DeploySteps):
    the job token it emits is linked to the data inputs of its tag and to the deployment token of EVERY connector port it consumed"""
    import posixpath
    import shutil

    from streamflow.core.config import BindingConfig
    from streamflow.core.deployment import DeploymentConfig, Target
    from streamflow.core.workflow import Status
    from streamflow.workflow.port import ConnectorPort
    from streamflow.workflow.step import DeployStep, ScheduleStep
    from streamflow.workflow.token import JobToken

    base = tempfile.mkdtemp(prefix="c07s.")
    try:
        wf = Workflow(context=context, name=uniq("c07-s"), config={})
        deploy_steps = []
        for k in range(rng.randint(1, 3)):
            name = uniq("site")
            os.makedirs(os.path.join(base, name))
            cfg = DeploymentConfig(name=name, type="local", config={}, external=True, lazy=False, workdir=os.path.join(base, name))
            deploy_steps.append(wf.create_step(cls=DeployStep, name=posixpath.join("__deploy__", name), deployment_config=cfg,
                                               connector_port=wf.create_port(cls=ConnectorPort)))
        binding = BindingConfig(targets=[Target(deployment=d.deployment_config) for d in deploy_steps])
        names = ["x", "y"][:rng.randint(1, 2)]
        ins = {n: wf.create_port() for n in names}
        prefix = "/" + uniq("work")
        sched = wf.create_step(cls=ScheduleStep, name=posixpath.join(prefix, "__schedule__"), job_prefix=prefix,
                               connector_ports={d.deployment_config.name: d.get_output_port() for d in deploy_steps}, binding_config=binding)
        for n in names:
            sched.add_input_port(n, ins[n])
        await wf.save(context.database)
        tags = [f"0.{i}" for i in rng.sample(range(12), rng.randint(1, 3))]
        src = {}
        for n in names:
            order = list(tags)
            rng.shuffle(order)
            for tag in order:
                t = Token(value=f"{n}@{tag}", tag=tag, recoverable=True)
                await t.save(context.database, port_id=ins[n].persistent_id)
                src[(n, tag)] = t
                ins[n].put(t)
            ins[n].put(TerminationToken())
        await asyncio.wait_for(StreamFlowExecutor(wf).run(), 60)
        job_tokens = [t for t in sched.get_output_port("__job__").token_list if isinstance(t, JobToken)]
        for jt in job_tokens:
            await context.scheduler.notify_status(jt.value.name, Status.COMPLETED)
        if sorted(t.tag for t in job_tokens) != sorted(tags):
            return {"failure": "the schedule step did not emit one job token per tag", "tags": tags, "job_tokens": [t.tag for t in job_tokens]}
        dep_tokens = []
        for d in deploy_steps:
            toks = [t for t in d.get_output_port().token_list if not isinstance(t, TerminationToken)]
            if len(toks) != 1 or toks[0].persistent_id is None:
                return {"failure": "a deploy step did not emit one persisted token", "deployment": d.deployment_config.name}
            dep_tokens.append(toks[0].persistent_id)
        rows = await provenance(context)
        for jt in job_tokens:
            bad = check_links(rows, jt, [src[(n, jt.tag)].persistent_id for n in names] + dep_tokens,
                              f"ScheduleStep: job token of tag {jt.tag} ({len(deploy_steps)} deployments, {len(names)} data inputs)")
            if bad:
                return bad
        return None
    finally:
        try:
            await context.deployment_manager.undeploy_all()
        except Exception:
            pass
        shutil.rmtree(base, ignore_errors=True)


async def deploy_case(context):
    """a DeployStep that waits for tokens on 1..2 input ports (the connector ports of the deployments it depends on), 1..3 tags in an
    independent order per port: the deployment token emitted for a tag is linked to the consumed inputs OF THAT TAG"""
    import posixpath
    import shutil

    from streamflow.core.deployment import DeploymentConfig
    from streamflow.workflow.port import ConnectorPort
    from streamflow.workflow.step import DeployStep

    base = tempfile.mkdtemp(prefix="c07d.")
    try:
        wf = Workflow(context=context, name=uniq("c07-d"), config={})
        name = uniq("site")
        cfg = DeploymentConfig(name=name, type="local", config={}, external=True, lazy=False, workdir=base)
        step = wf.create_step(cls=DeployStep, name=posixpath.join("__deploy__", name), deployment_config=cfg, connector_port=wf.create_port(cls=ConnectorPort))
        names = ["u", "v"][:rng.randint(1, 2)]
        ins = {n: wf.create_port() for n in names}
        for n in names:
            step.add_input_port(n, ins[n])
        await wf.save(context.database)
        tags = [f"0.{i}" for i in rng.sample(range(12), rng.randint(1, 3))]
        src = {}
        for n in names:
            order = list(tags)
            rng.shuffle(order)
            for tag in order:
                t = Token(value=f"{n}@{tag}", tag=tag, recoverable=True)
                await t.save(context.database, port_id=ins[n].persistent_id)
                src[(n, tag)] = t
                ins[n].put(t)
            ins[n].put(TerminationToken())
        await asyncio.wait_for(step.run(), 60)
        outs = [t for t in step.get_output_port().token_list if not isinstance(t, TerminationToken)]
        if len(outs) != len(tags):
            return {"failure": "the deploy step did not emit one token per tag group", "tags": tags, "emitted": len(outs)}
        rows = await provenance(context)
        # the emitted tokens carry the default tag: the k-th one belongs to the k-th tag group that completed; whatever that order is,
        # the recorded dependee sets must be exactly the tag groups, each once
        groups = sorted(sorted(src[(n, tag)].persistent_id for n in names) for tag in tags)
        recorded = sorted(sorted(d for d, r in rows if r == o.persistent_id) for o in outs)
        if recorded != groups:
            return {"failure": "the tokens emitted by a DeployStep are not linked to exactly the inputs of one tag group each", "recorded_dependee_sets": recorded,
                    "tag_groups": groups, "ports": names, "tags": tags}
        return None
    finally:
        try:
            await context.deployment_manager.undeploy_all()
        except Exception:
            pass
        shutil.rmtree(base, ignore_errors=True)


async def shared_token_case(context):
    """one not yet persisted workflow input read by TWO InputInjectorSteps (the same Token object reaches both consumers of the port):
    both save it at the same time, the first write being slow.  Each output must be linked to it (and to its own job token), and it must
    be persisted before both"""
    import posixpath
    import shutil

    from streamflow.core.config import BindingConfig
    from streamflow.core.deployment import DeploymentConfig, Target
    from streamflow.core.workflow import Status
    from streamflow.workflow.port import ConnectorPort
    from streamflow.workflow.step import DeployStep, InputInjectorStep, ScheduleStep
    from streamflow.workflow.token import JobToken

    class PlainInjector(InputInjectorStep):
        async def process_input(self, job, token_value):
            return Token(value=token_value, recoverable=True)

    base = tempfile.mkdtemp(prefix="c07i.")
    db = context.database
    real_add = db.add_token
    try:
        wf = Workflow(context=context, name=uniq("c07-sh"), config={})
        cfg = DeploymentConfig(name=uniq("site"), type="local", config={}, external=True, lazy=False, workdir=base)
        dep = wf.create_step(cls=DeployStep, name=posixpath.join("__deploy__", cfg.name), deployment_config=cfg, connector_port=wf.create_port(cls=ConnectorPort))
        in_port = wf.create_port()
        injectors = []
        for side in ("left", "right"):
            name = "/" + uniq(side)
            sch = wf.create_step(cls=ScheduleStep, name=posixpath.join(name + "-injector", "__schedule__"), job_prefix=name + "-injector",
                                 connector_ports={cfg.name: dep.get_output_port()}, binding_config=BindingConfig(targets=[Target(deployment=cfg)]))
            inj = wf.create_step(cls=PlainInjector, name=name + "-injector", job_port=sch.get_output_port())
            inj.add_input_port("x", in_port)
            inj.add_output_port("x", wf.create_port())
            injectors.append(inj)
        await wf.save(db)

        def emitted(i):
            return [t for t in i.get_output_port().token_list if not isinstance(t, TerminationToken)]

        async def slow_add(port, **k):
            if port == in_port.persistent_id:
                for _ in range(100):  # the first write of the shared token stays in flight while the other consumer goes on
                    if any(emitted(i) for i in injectors):
                        break
                    await asyncio.sleep(0.02)
            return await real_add(port=port, **k)

        db.add_token = slow_add
        tok = Token("hello")
        in_port.put(tok)
        in_port.put(TerminationToken())
        await asyncio.wait_for(StreamFlowExecutor(wf).run(), 60)
        db.add_token = real_add
        for inj in injectors:
            for jt in inj.get_input_port("__job__").token_list:
                if isinstance(jt, JobToken):
                    await context.scheduler.notify_status(jt.value.name, Status.COMPLETED)
        if tok.persistent_id is None:
            return {"failure": "a workflow input consumed by two injector steps was never persisted"}
        rows = await provenance(context)
        for inj in injectors:
            outs = emitted(inj)
            if len(outs) != 1:
                return {"failure": "an injector step did not emit one output", "step": inj.name}
            jobs = [t.persistent_id for t in inj.get_input_port("__job__").token_list if isinstance(t, JobToken)]
            bad = check_links(rows, outs[0], [tok.persistent_id] + jobs, f"output of {inj.name}, one of two steps that saved the same input token at once")
            if bad:
                return bad
        return None
    finally:
        db.add_token = real_add
        try:
            await context.deployment_manager.undeploy_all()
        except Exception:
            pass
        shutil.rmtree(base, ignore_errors=True)


async def search(n):
    workdir = tempfile.mkdtemp(prefix="c07.")
    context = build_context({"database": {"type": "default", "config": {"connection": ":memory:"}}, "path": workdir})
    try:
        # directed: more than 16 and more than 32 dependees, forced and normal gather
        for m, ws in ((17, True), (33, False), (40, True), (1, False)):
            bad = await gather_case(context, m, ws)
            if bad:
                return bad
        bad = await transformer_case(context, directed=True) or await transfer_case(context, directed=True) or await combinator_case(context, shape="cart(x,y)", nx=3, ny=3) or await combinator_case(context, shape="dot(plain,cart(x,y))") or await combinator_case(context, shape="dot(a,b)") or await shared_token_case(context)
        if bad:
            return bad
        for k in range(n):
            bad = await [transformer_case, gather_case, scatter_gather_case, combinator_case, loop_output_case, transfer_case, schedule_case, deploy_case][k % 8](context)
            if bad:
                return bad
    except Exception as e:
        return {"failure": f"exception {type(e).__name__}: {e}"}
    finally:
        await context.close()
        try:
            os.rmdir(workdir)
        except OSError:
            pass
    return None


def replay(path):
    load_replay(path)
    finish_replay(path, asyncio.run(search(60)), "(60 executed workflows, whole provenance table checked)")


def crosscheck(n):
    k = max(24, int(n) // 2)
    bad = asyncio.run(search(k))
    print(json.dumps({"inputs": k, "native_contract_failures": 1 if bad else 0, "samples": [bad] if bad else [], "known_findings": sorted(KNOWN)}, default=str))
    sys.stdout.flush()
    os._exit(1 if bad else 0)


main({"replay": replay, "crosscheck": crosscheck})
