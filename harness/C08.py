"""C08 native driver (bounded): random token trees and workflow graphs over built-in entity types are saved to a real SqliteDatabase
and loaded back through fresh loading contexts; the loaded object must be structurally identical; two loads must be equal but
independent (editing one changes neither the other nor what a third load returns); a deep copy through the WorkflowBuilder has the
same structure and no persistent identity.  Tokens reachable from two containers are saved concurrently (asyncio.gather)."""
import asyncio
import json
import os
import sys
import tempfile

from common import finish_replay, load_replay, main, rng

from streamflow.core.workflow import Port, Token, Workflow
from streamflow.main import build_context
from streamflow.persistence.loading_context import DefaultDatabaseLoadingContext, WorkflowBuilder
from streamflow.workflow.combinator import CartesianProductCombinator, DotProductCombinator, LoopCombinator
from streamflow.workflow.port import ConnectorPort, JobPort
from streamflow.workflow.step import CombinatorStep, GatherStep, LoopCombinatorStep, ScatterStep
from streamflow.workflow.token import IterationTerminationToken, ListToken, ObjectToken, TerminationToken

KNOWN = set()
_n = 0


def uniq(p):
    global _n
    _n += 1
    return f"{p}{_n}"


def scalar():
    return rng.choice([0, 1, -7, 2.5, True, False, None, "", "s", "é世界", "a\nb", "quote\"'", 10 ** 12])


def jsonish(d=0):
    r = rng.random()
    if d > 2 or r < 0.4:
        return scalar()
    if r < 0.7:
        return [jsonish(d + 1) for _ in range(rng.randint(0, 3))]
    return {rng.choice(["a", "b", "k", "é"]): jsonish(d + 1) for _ in range(rng.randint(0, 3))}


def token_tree(d=0, pool=None, tag="0"):
    """a token; inner tokens are sometimes the SAME instance used again (pool)"""
    pool = pool if pool is not None else []
    if pool and rng.random() < 0.25:
        return rng.choice(pool)
    r = rng.random()
    if d > 2 or r < 0.5:
        t = Token(value=jsonish(), tag=tag, recoverable=rng.random() < 0.5)
    elif r < 0.75:
        t = ListToken(value=[token_tree(d + 1, pool, f"{tag}.{i}") for i in range(rng.randint(0, 4))], tag=tag)
    else:
        t = ObjectToken(value={k: token_tree(d + 1, pool, tag) for k in rng.sample(["x", "y", "z", "é"], rng.randint(0, 3))}, tag=tag)
    pool.append(t)
    return t


def describe_token(t):
    if isinstance(t, ListToken):
        v = [describe_token(x) for x in t.value]
    elif isinstance(t, ObjectToken):
        v = {k: describe_token(x) for k, x in t.value.items()}
    else:
        v = json.dumps(t.value, sort_keys=True, default=str)
    return (type(t).__name__, t.tag, t.recoverable, v)


def describe_combinator(c):
    return (type(c).__name__, c.name, list(c.items), dict(c.combinators_map), {k: describe_combinator(v) for k, v in c.combinators.items()}, getattr(c, "depth", None))


def describe_workflow(wf):
    steps = {}
    for name, s in wf.steps.items():
        extra = {}
        if isinstance(s, GatherStep):
            extra = {"depth": s.depth, "size_port": s.get_size_port().name}
        if isinstance(s, CombinatorStep):
            extra = {"combinator": describe_combinator(s.combinator)}
        steps[name] = (type(s).__name__, dict(s.input_ports), dict(s.output_ports), extra)
    ports = {name: type(p).__name__ for name, p in wf.ports.items()}
    return {"name": wf.name, "config": json.dumps(wf.config, sort_keys=True), "steps": steps, "ports": ports, "output_ports": dict(wf.output_ports)}


def random_combinator(wf, ports, depth=0):
    kind = rng.choice(["dot", "cart", "loop"]) if depth == 0 else rng.choice(["dot", "cart"])
    name = uniq("comb")
    c = {"dot": DotProductCombinator, "loop": LoopCombinator}.get(kind, None)
    c = c(name=name, workflow=wf) if c else CartesianProductCombinator(name=name, workflow=wf, depth=rng.randint(1, 3))
    for p in ports:
        if depth == 0 and rng.random() < 0.3 and kind != "cart":
            inner = random_combinator(wf, [p + "_i1", p + "_i2"], depth + 1)
            c.add_combinator(inner, inner.get_items(recursive=True))
        else:
            c.add_item(p)
    return c


def random_workflow(context, reuse_port=False):
    """every step is wired to DISTINCT ports (the dependency table is keyed by (step, port): see KF-C08-port-twice-on-a-step, which
    `reuse_port` reproduces)"""
    wf = Workflow(context=context, name=uniq("wf"), config={"cfg": jsonish()})
    nports = rng.randint(4, 8)
    ports = [wf.create_port(cls=rng.choice([Port, Port, JobPort, ConnectorPort])) for _ in range(nports)]
    for k in range(rng.randint(1, 5)):
        r = rng.random()
        mine = rng.sample(ports, rng.randint(3, 4))
        if r < 0.3:
            s = wf.create_step(cls=ScatterStep, name="/" + uniq("s") + "-scatter")
            s.add_input_port("in", mine[0])
            s.add_output_port("out", mine[1])
        elif r < 0.6:
            s = wf.create_step(cls=GatherStep, name="/" + uniq("s") + "-gather", size_port=mine[2] if not reuse_port else mine[0], depth=rng.randint(1, 3))
            s.add_input_port("in", mine[0])
            s.add_output_port("out", mine[1])
        else:
            ins = mine[: rng.randint(1, 3)]
            names = [f"p{j}" for j in range(len(ins))]
            comb = random_combinator(wf, names)
            s = wf.create_step(cls=LoopCombinatorStep if isinstance(comb, LoopCombinator) else CombinatorStep, name="/" + uniq("s") + "-combinator", combinator=comb)
            for nme, p in zip(names, ins):
                s.add_input_port(nme, p)
                s.add_output_port(nme, wf.create_port())
    if reuse_port:
        s = wf.create_step(cls=GatherStep, name="/" + uniq("s") + "-gather", size_port=ports[0], depth=1)
        s.add_input_port("in", ports[0])
        s.add_output_port("out", ports[1])
    if rng.random() < 0.6:
        wf.output_ports["result"] = rng.choice(ports).name
    return wf


async def token_case(context):
    t = token_tree()
    want = describe_token(t)
    # a token that is reachable from two containers is saved by both, concurrently
    sibling = ListToken(value=[t, t] if rng.random() < 0.5 else [t], tag="9")
    await asyncio.gather(t.save(context.database), sibling.save(context.database))
    if t.persistent_id is None:
        return {"failure": "a saved token has no persistent id", "token": str(want)[:300]}
    l1 = await Token.load(t.persistent_id, DefaultDatabaseLoadingContext(database=context.database))
    l2 = await Token.load(t.persistent_id, DefaultDatabaseLoadingContext(database=context.database))
    got1, got2 = describe_token(l1), describe_token(l2)
    if got1 != want or got2 != want:
        return {"failure": "a token loaded back differs from the token saved", "saved": str(want)[:400], "loaded": str(got1 if got1 != want else got2)[:400]}
    ls = await Token.load(sibling.persistent_id, DefaultDatabaseLoadingContext(database=context.database))
    if describe_token(ls) != describe_token(sibling):
        return {"failure": "a container saved concurrently with its element does not load back", "saved": str(describe_token(sibling))[:400], "loaded": str(describe_token(ls))[:400]}
    # independence: edit one load in place
    def edit(x):
        if isinstance(x.value, list):
            x.value.append("EDITED")
        elif isinstance(x.value, dict):
            x.value["EDITED"] = 1
        else:
            x.value = "EDITED"
    edit(l1)
    l3 = await Token.load(t.persistent_id, DefaultDatabaseLoadingContext(database=context.database))
    if describe_token(l2) != want or describe_token(l3) != want:
        return {"failure": "editing one loaded token changed another load of the same record", "saved": str(want)[:300], "other_load": str(describe_token(l2))[:300],
                "later_load": str(describe_token(l3))[:300]}
    return None


async def port_twice_case(context):
    """recorded finding: one port wired to a step under two names (here: a gather's input and its size port)"""
    wf = random_workflow(context, reuse_port=True)
    want = describe_workflow(wf)
    await wf.save(context.database)
    l1 = await Workflow.load(persistent_id=wf.persistent_id, loading_context=DefaultDatabaseLoadingContext(database=context.database))
    if describe_workflow(l1)["steps"] != want["steps"]:
        KNOWN.add("KF-C08-port-twice-on-a-step")


async def workflow_case(context):
    wf = random_workflow(context)
    want = describe_workflow(wf)
    await wf.save(context.database)
    l1 = await Workflow.load(persistent_id=wf.persistent_id, loading_context=DefaultDatabaseLoadingContext(database=context.database))
    l2 = await Workflow.load(persistent_id=wf.persistent_id, loading_context=DefaultDatabaseLoadingContext(database=context.database))
    for l in (l1, l2):
        got = describe_workflow(l)
        if got != want:
            diff = {k: (want[k], got[k]) for k in want if want[k] != got[k]}
            return {"failure": "a workflow loaded back differs from the workflow saved", "differences": str(diff)[:900]}
    # independence of two loads
    l1.config["EDITED"] = 1
    l1.output_ports["EDITED"] = "x"
    for s in l1.steps.values():
        if isinstance(s, CombinatorStep):
            s.combinator.items.append("EDITED")
            s.combinator.combinators_map["EDITED"] = "x"
    l3 = await Workflow.load(persistent_id=wf.persistent_id, loading_context=DefaultDatabaseLoadingContext(database=context.database))
    for l, what in ((l2, "another load"), (l3, "a later load")):
        if describe_workflow(l) != want:
            got = describe_workflow(l)
            diff = {k: (want[k], got[k]) for k in want if want[k] != got[k]}
            return {"failure": f"editing one loaded workflow changed {what} of the same record", "differences": str(diff)[:900]}
    # deep copy through the builder: same structure, no persistent identity
    cp = await WorkflowBuilder(database=context.database, deep_copy=True).load_workflow(wf.persistent_id)
    got = describe_workflow(cp)
    for k in ("steps", "ports", "config", "output_ports"):
        if k == "ports":
            if sorted(got[k].values()) != sorted(want[k].values()):
                return {"failure": "the deep copy has different ports", "saved": str(want[k])[:300], "copy": str(got[k])[:300]}
        elif k == "steps":
            if {n: (v[0], sorted(v[1]), sorted(v[2])) for n, v in got[k].items()} != {n: (v[0], sorted(v[1]), sorted(v[2])) for n, v in want[k].items()}:
                return {"failure": "the deep copy has different steps", "saved": str(want[k])[:300], "copy": str(got[k])[:300]}
    ids = [cp.persistent_id] + [p.persistent_id for p in cp.ports.values()] + [s.persistent_id for s in cp.steps.values()]
    if any(i is not None for i in ids):
        return {"failure": "the deep copy carries a persistent identity", "ids": ids}
    return None


async def incremental_save_case(context):
    """a workflow that is saved, extended (new ports wired to steps that are ALREADY persisted, new steps) and saved again — what the
    engine does when it adds steps to a running workflow — loads back as the extended workflow"""
    wf = random_workflow(context)
    comb = DotProductCombinator(name=uniq("comb"), workflow=wf)
    comb.add_item("p0")
    first = wf.create_step(cls=CombinatorStep, name="/" + uniq("s") + "-early-combinator", combinator=comb)
    first.add_input_port("p0", wf.create_port())
    first.add_output_port("p0", wf.create_port())
    await wf.save(context.database)
    old_steps = [s for s in wf.steps.values() if not isinstance(s, (GatherStep, ScatterStep))]
    for s in rng.sample(old_steps, min(len(old_steps), rng.randint(1, 2))):
        extra_in, extra_out = wf.create_port(), wf.create_port()
        s.add_input_port(uniq("late_in"), extra_in)
        s.add_output_port(uniq("late_out"), extra_out)
        if isinstance(s, CombinatorStep):
            s.combinator.add_item(list(s.input_ports)[-1])
    ns = wf.create_step(cls=ScatterStep, name="/" + uniq("s") + "-late-scatter")
    ns.add_input_port("in", wf.create_port())
    ns.add_output_port("out", wf.create_port())
    want = describe_workflow(wf)
    await wf.save(context.database)
    got = describe_workflow(await Workflow.load(persistent_id=wf.persistent_id, loading_context=DefaultDatabaseLoadingContext(database=context.database)))
    # (combinator parameters are written with the step's first save only: not compared here)
    strip = lambda d: {n: (v[0], v[1], v[2]) for n, v in d["steps"].items()}
    if strip(got) != strip(want) or got["ports"] != want["ports"]:
        diff = {n: (strip(want).get(n), strip(got).get(n)) for n in set(strip(want)) | set(strip(got)) if strip(want).get(n) != strip(got).get(n)}
        return {"failure": "a workflow saved, extended and saved again does not load back with the wiring it has", "differences": str(diff)[:900]}
    return None


def generic(o, depth=0):
    """structural description of a parameter object: class name + every attribute (recursively), without the back references"""
    import enum

    if depth > 6:
        return "..."
    if isinstance(o, enum.Enum):
        return f"{type(o).__name__}.{o.name}"
    if o is None or isinstance(o, (bool, int, float, str)):
        return o
    if isinstance(o, (list, tuple)):
        return [generic(x, depth + 1) for x in o]
    if isinstance(o, (set, frozenset)):
        return sorted(repr(generic(x, depth + 1)) for x in o)
    if isinstance(o, dict):
        return {str(k): generic(v, depth + 1) for k, v in o.items()}
    if type(o).__module__.startswith("streamflow"):
        d = {}
        for k in sorted(set(getattr(o, "__dict__", {})) | {s for c in type(o).__mro__ for s in getattr(c, "__slots__", ())}):
            if k in ("workflow", "context", "persistent_id", "_saving") or not hasattr(o, k):
                continue
            d[k] = generic(getattr(o, k), depth + 1)
        return (type(o).__name__, d)
    return repr(type(o))


async def cwl_case(context):
    """CWL entity types: a CWLWorkflow with token transformers whose processors carry every parameter kind (enum values such as
    LoadListing.no_listing = 0, False / None / empty values included); all attributes of the loaded processors equal the saved ones"""
    from streamflow.cwl.processor import CWLTokenProcessor
    from streamflow.cwl.transformer import CWLTokenTransformer
    from streamflow.cwl.utils import LoadListing
    from streamflow.cwl.workflow import CWLWorkflow

    wf = CWLWorkflow(context=context, config={"c": jsonish()}, name=uniq("cwlwf"), cwl_version=rng.choice(["v1.0", "v1.1", "v1.2"]))
    for i in range(rng.randint(1, 4)):
        proc = CWLTokenProcessor(
            name="x", workflow=wf,
            token_type=rng.choice(["File", "Directory", "string", "int", ["null", "File"], None]),
            enum_symbols=rng.choice([None, [], ["a", "b"]]),
            expression_lib=rng.choice([None, [], ["function f(){return 1;}"]]),
            file_format=rng.choice([None, "", "http://edamontology.org/format_2330"]),
            full_js=rng.random() < 0.5,
            load_contents=rng.choice([None, False, True]),
            load_listing=rng.choice([None, LoadListing.no_listing, LoadListing.shallow_listing, LoadListing.deep_listing]),
            only_propagate_secondary_files=rng.random() < 0.5,
            streamable=rng.random() < 0.5,
        )
        st = wf.create_step(cls=CWLTokenTransformer, name=f"/transformer-{i}", port_name="x", processor=proc)
        st.add_input_port("x", wf.create_port())
        st.add_output_port("x", wf.create_port())
    want = {n: generic(s.processor) for n, s in wf.steps.items()}
    await wf.save(context.database)
    loaded = await CWLWorkflow.load(wf.persistent_id, DefaultDatabaseLoadingContext(database=context.database))
    got = {n: generic(s.processor) for n, s in loaded.steps.items()}
    if got != want or generic(loaded.cwl_version) != generic(wf.cwl_version):
        diff = {n: [(k, want[n][1].get(k), got.get(n, (None, {}))[1].get(k)) for k in want[n][1] if n not in got or want[n][1].get(k) != got[n][1].get(k)] for n in want}
        return {"failure": "a CWL workflow loaded back differs from the one saved", "differences (attribute, saved, loaded)": str({n: d for n, d in diff.items() if d})[:900]}
    return None


async def hardware_case(context, directed=False):
    """CWL schedule steps with a hardware requirement: every resource a number (ZERO, the values that equal a constructor default and
    fractions included), an expression string or left unset; the loaded requirement has the attributes of the saved one"""
    from streamflow.core.config import BindingConfig
    from streamflow.core.deployment import LocalTarget
    from streamflow.cwl.hardware import CWLHardwareRequirement
    from streamflow.cwl.step import CWLScheduleStep
    from streamflow.cwl.workflow import CWLWorkflow
    from streamflow.workflow.port import ConnectorPort

    version = rng.choice(["v1.0", "v1.1", "v1.2"])
    wf = CWLWorkflow(context=context, config={}, name=uniq("hwwf"), cwl_version=version)

    def res():
        return rng.choice([None, 0, 0.0, 1, 0.5, 256, 1024, 4096, "$(inputs.n * 2)", ""])

    reqs = []
    if directed:
        reqs.append(dict(cores=0, memory=0, tmpdir=0, outdir=0))
        reqs.append(dict(cores=0.0, memory="", tmpdir=1024, outdir=None, full_js=True, expression_lib=[]))
    for _ in range(rng.randint(1, 3)):
        reqs.append(dict(cores=res(), memory=res(), tmpdir=res(), outdir=res(), full_js=rng.random() < 0.5,
                         expression_lib=rng.choice([None, [], ["function f(x){return x;}"]])))
    want = {}
    for i, kw in enumerate(reqs):
        target = LocalTarget(workdir="/tmp/" + uniq("w"))
        st = wf.create_step(cls=CWLScheduleStep, name=f"/t{i}/__schedule__", job_prefix=f"/t{i}",
                            connector_ports={target.deployment.name: wf.create_port(cls=ConnectorPort)},
                            binding_config=BindingConfig(targets=[target]),
                            hardware_requirement=CWLHardwareRequirement(cwl_version=version, **kw))
        want[st.name] = generic(st.hardware_requirement)
    await wf.save(context.database)
    loaded = await CWLWorkflow.load(wf.persistent_id, DefaultDatabaseLoadingContext(database=context.database))
    got = {n: generic(s.hardware_requirement) for n, s in loaded.steps.items()}
    if got != want:
        return {"failure": "the hardware requirement of a schedule step loaded back differs from the one saved",
                "differences (step, saved, loaded)": str([(n, want[n], got.get(n)) for n in want if want[n] != got.get(n)])[:900]}
    return None


def describe_deployment(d):
    return (d.name, d.type, json.dumps(d.config, sort_keys=True, default=str), d.external, d.lazy,
            (d.scheduling_policy.name, d.scheduling_policy.type, json.dumps(d.scheduling_policy.config, sort_keys=True, default=str)),
            d.workdir, None if d.wraps is None else (d.wraps.deployment, d.wraps.service))


def describe_target(t):
    return (type(t).__name__, t.locations, t.service, t.workdir, describe_deployment(t.deployment))


def random_deployment():
    from streamflow.core.config import Config
    from streamflow.core.deployment import DeploymentConfig, WrapsConfig

    return DeploymentConfig(
        name=uniq("dep"), type=rng.choice(["docker", "ssh", "local", "slurm"]), config={"c": jsonish()} if rng.random() < 0.7 else {},
        external=rng.random() < 0.5, lazy=rng.random() < 0.5,
        scheduling_policy=Config(name=uniq("pol"), type=rng.choice(["data_locality", "x"]), config={"k": jsonish()} if rng.random() < 0.5 else {}) if rng.random() < 0.6 else None,
        workdir=rng.choice([None, "/w d", "/tmp/é"]),
        wraps=WrapsConfig(deployment=uniq("inner"), service=rng.choice([None, "svc", ""])) if rng.random() < 0.5 else None)


def random_target():
    from streamflow.core.deployment import LocalTarget, Target

    if rng.random() < 0.2:
        return LocalTarget(workdir=rng.choice([None, "/local w"]))
    return Target(deployment=random_deployment(), locations=rng.randint(1, 5), service=rng.choice([None, "s1", ""]), workdir=rng.choice([None, "/t w", "/x"]))


async def config_case(context):
    """targets (with the deployment they are bound to), deployments, filters and steps that refer to them: every field comes back"""
    from streamflow.core.config import BindingConfig
    from streamflow.core.deployment import DeploymentConfig, FilterConfig, Target
    from streamflow.workflow.step import DeployStep, ScheduleStep

    lc = lambda: DefaultDatabaseLoadingContext(database=context.database)
    t = random_target()
    want = describe_target(t)
    await t.save(context.database)
    for _ in range(2):
        got = describe_target(await Target.load(t.persistent_id, lc()))
        if got != want:
            return {"failure": "a target loaded back differs from the target saved", "saved": str(want), "loaded": str(got)}
    d = random_deployment()
    want = describe_deployment(d)
    await d.save(context.database)
    got = describe_deployment(await DeploymentConfig.load(d.persistent_id, lc()))
    if got != want:
        return {"failure": "a deployment loaded back differs from the deployment saved", "saved": str(want), "loaded": str(got)}
    f = FilterConfig(name=uniq("flt"), type=rng.choice(["shuffle", "matching"]), config={"f": jsonish()} if rng.random() < 0.7 else {})
    await f.save(context.database)
    g = await FilterConfig.load(f.persistent_id, lc())
    if (g.name, g.type, json.dumps(g.config, sort_keys=True, default=str)) != (f.name, f.type, json.dumps(f.config, sort_keys=True, default=str)):
        return {"failure": "a filter loaded back differs from the filter saved", "saved": str((f.name, f.type, f.config)), "loaded": str((g.name, g.type, g.config))}
    # a workflow with a deploy step and a schedule step bound to several targets and filters
    wf = Workflow(context=context, name=uniq("wf"), config={})
    dep = random_deployment()
    ds = wf.create_step(cls=DeployStep, name="/" + uniq("s") + "-deploy", deployment_config=dep)
    targets = [random_target() for _ in range(rng.randint(1, 3))]
    filters = [FilterConfig(name=uniq("flt"), type="shuffle", config={}) for _ in range(rng.randint(0, 2))]
    dirs = [rng.choice([None, "/in d", "/o"]) for _ in range(3)]
    ss = wf.create_step(cls=ScheduleStep, name="/" + uniq("s") + "-schedule", binding_config=BindingConfig(targets=targets, filters=filters),
                        connector_ports={dep.name: ds.get_output_port()}, job_prefix=rng.choice([None, "prefix"]),
                        input_directory=dirs[0], output_directory=dirs[1], tmp_directory=dirs[2])

    def desc(w):
        a = next(s for s in w.steps.values() if isinstance(s, DeployStep))
        b = next(s for s in w.steps.values() if isinstance(s, ScheduleStep))
        return {"deploy": (a.name, describe_deployment(a.deployment_config), dict(a.input_ports), dict(a.output_ports)),
                "schedule": (b.name, [describe_target(x) for x in b.binding_config.targets], [(x.name, x.type) for x in b.binding_config.filters],
                             b.job_prefix, b.input_directory, b.output_directory, b.tmp_directory, dict(b.input_ports), dict(b.output_ports)),
                "ports": {n: type(q).__name__ for n, q in w.ports.items()}}

    want = desc(wf)
    await wf.save(context.database)
    got = desc(await Workflow.load(persistent_id=wf.persistent_id, loading_context=lc()))
    if got != want:
        diff = {k: (want[k], got[k]) for k in want if want[k] != got[k]}
        return {"failure": "a workflow with deploy / schedule steps loaded back differs from the one saved", "differences": str(diff)[:1200]}
    return None


async def search(n):
    workdir = tempfile.mkdtemp(prefix="c08.")
    context = build_context({"database": {"type": "default", "config": {"connection": ":memory:"}}, "path": workdir})
    try:
        await port_twice_case(context)
        bad = await asyncio.wait_for(hardware_case(context, directed=True), 60)
        if bad:
            return bad
        for k in range(n):
            bad = await asyncio.wait_for([token_case, workflow_case, config_case, token_case, cwl_case, incremental_save_case, hardware_case][k % 7](context), 60)
            if bad:
                return bad
    except Exception as e:
        import traceback

        return {"failure": f"exception {type(e).__name__}: {e}", "where": traceback.format_exc()[-600:]}
    finally:
        await context.close()
        try:
            os.rmdir(workdir)
        except OSError:
            pass
    return None


def replay(path):
    load_replay(path)
    finish_replay(path, asyncio.run(search(200)), "(200 save/load round trips)")


def crosscheck(n):
    k = max(80, int(n) * 2)
    bad = asyncio.run(search(k))
    print(json.dumps({"inputs": k, "native_contract_failures": 1 if bad else 0, "samples": [bad] if bad else [], "known_findings": sorted(KNOWN)}, default=str))
    sys.stdout.flush()
    os._exit(1 if bad else 0)


main({"replay": replay, "crosscheck": crosscheck})
