"""C09 native driver: random insert / update / read histories on the real SqliteDatabase; after every operation each read
through the cached getters is compared with the same read through the UNCACHED function (`get_x.__wrapped__`, the function under
the cachebox decorator, on the same connection) — "exactly what an uncached database would return at that point" — and callers
edit the rows they were handed (top level and inside the parsed JSON columns)."""
import asyncio
import copy
import json
import os
import shutil
import sys
import tempfile

from common import finish_replay, load_replay, main, rng

from streamflow.core.deployment import Target
from streamflow.core.workflow import Port, Step, Token, Workflow
from streamflow.main import build_context

KNOWN = set()
KINDS = ["workflow", "port", "step", "deployment", "target", "filter", "token"]


def jsonish(depth=0):
    r = rng.random()
    if depth > 2 or r < 0.3:
        return rng.choice([0, 1, -5, 3.5, True, None, "s", "日本", ""])
    if r < 0.65:
        return {rng.choice(["a", "b", "c", "k"]): jsonish(depth + 1) for _ in range(rng.randint(0, 3))}
    return [jsonish(depth + 1) for _ in range(rng.randint(0, 3))]


def mutate(v):
    """edit a returned row in place, at the top level and inside nested values"""
    if isinstance(v, dict):
        for k in list(v):
            if isinstance(v[k], (dict, list)):
                mutate(v[k])
            elif rng.random() < 0.5:
                v[k] = "EDITED-BY-CALLER"
        v["__injected__"] = [1, 2, 3]
    elif isinstance(v, list):
        for x in v:
            mutate(x)
        v.append("EDITED-BY-CALLER")


async def history():
    workdir = tempfile.mkdtemp(prefix="c09.")
    ctx = build_context({"database": {"type": "default", "config": {"connection": os.path.join(workdir, "db.sqlite")}}, "path": workdir})
    db = ctx.database
    ids = {k: [] for k in KINDS}
    trace = []
    bad = None
    held, token_port = {}, {}

    async def uncached(kind, i):
        fn = getattr(type(db), "get_" + kind)
        fn = getattr(fn, "__wrapped__", fn)
        return await fn(db, i)

    async def cached_read(kind, i):
        return await getattr(db, "get_" + kind)(i)

    async def add(kind):
        if kind == "workflow":
            return await db.add_workflow(name=f"w{len(ids[kind])}", params={"p": jsonish()}, status=0, type=Workflow)
        if kind == "port":
            return await db.add_port(name="p", workflow_id=rng.choice(ids["workflow"]), type=Port, params={"p": jsonish()})
        if kind == "step":
            return await db.add_step(name="/s", workflow_id=rng.choice(ids["workflow"]), status=0, type=Step, params={"p": jsonish()})
        if kind == "deployment":
            return await db.add_deployment(name=f"d{len(ids[kind])}", type="local", config={"c": jsonish()}, external=False, lazy=True,
                                           scheduling_policy={"type": "data_locality", "config": {}}, workdir=None, wraps=None)
        if kind == "target":
            return await db.add_target(deployment=rng.choice(ids["deployment"]), type=Target, params={"p": jsonish()})
        if kind == "filter":
            return await db.add_filter(name=f"f{len(ids[kind])}", type="shuffle", config={"c": jsonish()})
        if kind == "token":
            # the caller keeps the value object (and edits it later); now and then a value that JSON stores differently (integer keys, tuples)
            value = jsonish() if rng.random() < 0.7 else {1: "int key", "pair": (1, 2), "n": jsonish()}
            port = rng.choice(ids["port"]) if ids["port"] else None
            tid = await db.add_token(tag="0." + str(len(ids[kind])), type=Token, value=value, port=port)
            held[tid] = value
            token_port[tid] = port
            return tid

    async def update(kind, i):
        if kind == "workflow":
            await db.update_workflow(i, {"status": rng.randint(0, 9), "name": f"renamed{rng.randint(0, 99)}"})
        elif kind == "port":
            await db.update_port(i, {"name": f"p{rng.randint(0, 99)}", "params": json.dumps({"p": jsonish()})})
        elif kind == "step":
            await db.update_step(i, {"status": rng.randint(0, 9), "params": json.dumps({"p": jsonish()})})
        elif kind == "deployment":
            await db.update_deployment(i, {"config": json.dumps({"c": jsonish()}), "workdir": f"/w{rng.randint(0, 9)}"})
        elif kind == "target":
            await db.update_target(i, {"params": json.dumps({"p": jsonish()}), "locations": rng.randint(1, 4)})
        elif kind == "filter":
            await db.update_filter(i, {"config": json.dumps({"c": jsonish()})})

    try:
        ids["workflow"].append(await add("workflow"))
        ids["deployment"].append(await add("deployment"))
        # (a port and a token on it from the start: the port of a token is read, with both rows cached, in the first steps)
        ids["port"].append(await add("port"))
        ids["token"].append(await add("token"))
        for step in range(rng.randint(6, 25)):
            r = rng.random()
            if r < 0.3:
                kind = rng.choice(KINDS)
                ids[kind].append(await add(kind))
                trace.append(("add", kind, ids[kind][-1]))
            elif r < 0.55:
                kind = rng.choice([k for k in KINDS if ids[k] and k != "token"])
                i = rng.choice(ids[kind])
                await update(kind, i)
                trace.append(("update", kind, i))
            else:
                kind = rng.choice([k for k in KINDS if ids[k]])
                i = rng.choice(ids[kind])
                row = await cached_read(kind, i)
                trace.append(("read+edit", kind, i))
                if rng.random() < 0.7:
                    mutate(row)
            # the multi-row getters hand out rows too: the caller edits them, which must not reach what the cached getters return
            if rng.random() < 0.5 and ids["workflow"]:
                w = rng.choice(ids["workflow"])
                for rows in (await db.get_workflow_ports(w), await db.get_workflow_steps(w)):
                    for row in rows:
                        try:
                            mutate(row)
                        except TypeError:
                            pass  # sqlite3.Row objects are read-only: nothing to edit
                trace.append(("list+edit", "workflow", w))
            if held and rng.random() < 0.4:
                tid = rng.choice(list(held))
                if isinstance(held[tid], (dict, list)):
                    try:
                        mutate(held[tid])  # the object handed to add_token belongs to the caller
                    except TypeError:
                        pass
                    trace.append(("caller edits the value it inserted", "token", tid))
            with_port = [t for t, p in token_port.items() if p is not None]
            if with_port and (step < 4 or rng.random() < 0.5):
                tid = rng.choice(with_port)
                for _ in range(2):  # (the second read comes after the port row may have been cached by the reads below)
                    row = await db.get_port_from_token(tid)
                    want = await uncached("port", token_port[tid])
                    if row != want:
                        bad = {"failure": "get_port_from_token differs from the stored port row", "token": tid, "got": repr(row)[:300], "stored": repr(want)[:300], "trace": trace[-8:]}
                        break
                    mutate(row)
                    await cached_read("token", tid)
                    await cached_read("port", token_port[tid])
                trace.append(("port of token read+edit", "token", tid))
                if bad:
                    break
            # every row, through the cache and without it
            for kind in KINDS:
                for i in ids[kind]:
                    want = await uncached(kind, i)
                    got = await cached_read(kind, i)
                    if got != want:
                        bad = {"failure": "a cached read differs from the uncached read of the same row", "table": kind, "id": i,
                               "cached": repr(got)[:300], "uncached": repr(want)[:300], "trace": trace[-8:]}
                        break
                    got2 = await cached_read(kind, i)
                    if got2 is got or any(isinstance(got.get(k), (dict, list)) and got2.get(k) is got.get(k) for k in got):
                        bad = {"failure": "two reads of one row share mutable state", "table": kind, "id": i, "trace": trace[-8:]}
                        break
                if bad:
                    break
            if bad:
                break
    except Exception as e:
        bad = {"failure": f"exception {type(e).__name__}: {e}", "trace": trace[-8:]}
    finally:
        try:
            await ctx.close()
        finally:
            shutil.rmtree(workdir, ignore_errors=True)
    return bad


async def search(n):
    for _ in range(n):
        bad = await asyncio.wait_for(history(), 120)
        if bad:
            return bad
    return None


def replay(path):
    load_replay(path)
    finish_replay(path, asyncio.run(search(25)), "(25 insert/update/read histories, cached vs uncached reads)")


def crosscheck(n):
    k = max(8, int(n) // 6)
    bad = asyncio.run(search(k))
    print(json.dumps({"inputs": k, "native_contract_failures": 1 if bad else 0, "samples": [bad] if bad else [], "known_findings": sorted(KNOWN)}, default=str))
    sys.stdout.flush()
    os._exit(1 if bad else 0)  # (aiosqlite worker threads must not keep the driver alive after a failed history)


main({"replay": replay, "crosscheck": crosscheck})
