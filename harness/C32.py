"""C32 native drivers: remap there-and-back on random CWL values with the real remap_token_value / remap_path; validation of
the trusted path axioms of contracts/C32.py against CPython."""
import copy
import json
import os
import posixpath
import sys
import urllib.parse

from common import REPO, finish_replay, load_replay, main, rng

from streamflow.cwl.utils import remap_path, remap_token_value

KNOWN = set()
NAMES = ["a", "b c", "d.txt", "ünï", "x#1", "q?z", "we ird+name", "100%", "a%20b", "%41", "p%2Fq", "k:v", "-dash"]


def has_pct_escape(s):
    return urllib.parse.unquote(s) != s


def rand_rel(depth=3):
    return "/".join(rng.choice(NAMES) for _ in range(rng.randint(1, depth)))


def rand_value(old, depth=0):
    r = rng.random()
    if depth > 2 or r < 0.35:
        kind = rng.choice(["File", "Directory"])
        p = posixpath.join(old, rand_rel())
        v = {"class": kind}
        form = rng.choice(["path", "location", "both", "both-different"])
        if form in ("path", "both", "both-different"):
            v["path"] = p
        if form in ("location", "both"):
            v["location"] = "file://" + p
        if form == "both-different":
            v["location"] = "file://" + posixpath.join(old, rand_rel())
        if rng.random() < 0.3:
            v["secondaryFiles"] = [rand_value(old, depth + 1) for _ in range(rng.randint(1, 2))]
        if kind == "Directory" and rng.random() < 0.4:
            v["listing"] = [rand_value(old, depth + 1) for _ in range(rng.randint(1, 3))]
        if rng.random() < 0.2:
            v["basename"] = "keep-me"
        return v
    if r < 0.5:
        return [rand_value(old, depth + 1) for _ in range(rng.randint(0, 3))]
    if r < 0.65:
        return {k: rand_value(old, depth + 1) for k in rng.sample(["r1", "r2", "r3"], rng.randint(1, 3))}
    if r < 0.75:
        return {"class": "File", "location": rng.choice(["http://h/old/x", "s3://bucket/old/y", "https://h/a%20b"])}
    return rng.choice([None, 3, "plain string", "/old/not-a-file-object", True, 2.5])


def names_in(v):
    if isinstance(v, dict):
        for k in ("path", "location"):
            if isinstance(v.get(k), str):
                yield v[k]
        for x in v.values():
            yield from names_in(x)
    elif isinstance(v, list):
        for x in v:
            yield from names_in(x)


def search(n):
    for _ in range(n):
        old, new = rng.choice([("/old", "/new"), ("/data/in put", "/mnt/o"), ("/a", "/a2/b")])
        v = rand_value(old)
        orig = copy.deepcopy(v)
        there = remap_token_value(posixpath, old, new, copy.deepcopy(v))
        back = remap_token_value(posixpath, new, old, copy.deepcopy(there))
        if back != orig:
            if any(has_pct_escape(s) for s in names_in(orig)):
                KNOWN.add("KF-C32-percent-names")
                continue
            return {"failure": "remapping there and back does not restore the value", "old": old, "new": new, "value": orig, "there": there, "back": back}
        # everything under old must now be under new
        for s in names_in(there):
            if ":/" in s and not s.startswith("file://"):
                continue
            p = s[7:] if s.startswith("file://") else s
            if not p.startswith(new + "/"):
                return {"failure": "a remapped path is not under the new directory", "value": orig, "there": there}
    return None


_TOOL = """\
cwlVersion: v1.2
class: CommandLineTool
requirements:
  ShellCommandRequirement: {}
inputs:
  msg: string
arguments:
  - shellQuote: false
    valueFrom: "mkdir -p 'out/s b/deep' && echo $(inputs.msg) > out/f.txt && echo $(inputs.msg) > 'out/s b/g h.txt' && echo $(inputs.msg) > 'out/s b/deep/k.txt'"
outputs:
  d:
    type: Directory
    outputBinding:
      glob: out
      loadListing: deep_listing
"""


def real_run_case(nsteps):
    """remapping as the engine uses it: `nsteps` steps each produce a Directory named `out` (with a nested listing, names with
    spaces); the workflow collects them into one output directory, so all but the first are stored under a de-duplicated name and
    their listings are remapped (CWLTransferStep -> remap_token_value) to it.  Every element of a collected listing must live under
    ITS directory and hold its step's content, and remapping the collected value elsewhere and back must restore it."""
    import subprocess
    import tempfile
    import shutil
    base = os.path.realpath(tempfile.mkdtemp(prefix="c32run."))
    try:
        wf, outdir, home = (os.path.join(base, x) for x in ("wf", "outdir", "home"))
        for d in (wf, outdir, home):
            os.makedirs(d)
        open(os.path.join(wf, "tool.cwl"), "w").write(_TOOL)
        steps = [f"s{i}" for i in range(nsteps)]
        open(os.path.join(wf, "main.cwl"), "w").write(
            "cwlVersion: v1.2\nclass: Workflow\ninputs:\n" + "".join(f"  m{i}: string\n" for i in range(nsteps))
            + "outputs:\n" + "".join(f"  d{i}:\n    type: Directory\n    outputSource: s{i}/d\n" for i in range(nsteps))
            + "steps:\n" + "".join(f"  s{i}:\n    run: tool.cwl\n    in: {{msg: m{i}}}\n    out: [d]\n" for i in range(nsteps)))
        open(os.path.join(wf, "inputs.yml"), "w").write("".join(f"m{i}: content-{i}\n" for i in range(nsteps)))
        code = ("import sys; sys.path.insert(0, %r)\nfrom streamflow.cwl.runner import main\n"
                "sys.exit(main(['--quiet', '--outdir', %r, %r, %r]))\n" % (REPO, outdir, os.path.join(wf, "main.cwl"), os.path.join(wf, "inputs.yml")))
        try:
            r = subprocess.run([sys.executable, "-c", code], cwd=outdir, env=dict(os.environ, HOME=home), capture_output=True, text=True, timeout=300)
        except subprocess.TimeoutExpired:
            return {"failure": "the CWL run that collects the directories did not finish within 300 s"}
        if r.returncode != 0 or "{" not in r.stdout:
            return {"failure": "the CWL run that collects the directories failed", "rc": r.returncode, "stderr": r.stderr[-600:]}
        outputs = json.loads(r.stdout[r.stdout.index("{"):])

        def walk(v):
            for e in v.get("listing", []):
                yield e
                yield from walk(e)

        roots = set()
        for i in range(nsteps):
            v = outputs[f"d{i}"]
            root = v["path"]
            if root in roots or not os.path.isdir(root):
                return {"failure": "two collected directories share one path, or the collected directory does not exist", "output": f"d{i}", "path": root}
            roots.add(root)
            rel = sorted((e["class"], posixpath.relpath(e["path"], root)) for e in walk(v))
            want = [("Directory", "s b"), ("Directory", "s b/deep"), ("File", "f.txt"), ("File", "s b/deep/k.txt"), ("File", "s b/g h.txt")]
            for e in walk(v):
                for k in ("path", "location"):
                    pth = e[k][7:] if e[k].startswith("file://") else e[k]
                    if not urllib.parse.unquote(pth).startswith(root + "/") and not pth.startswith(root + "/"):
                        return {"failure": "an element of a collected Directory's listing was not remapped under that directory", "output": f"d{i}",
                                "directory": root, "element": e[k]}
                if e["class"] == "File" and open(e["path"]).read().strip() != f"content-{i}":
                    return {"failure": "an element of a collected listing points at another step's file", "output": f"d{i}", "element": e["path"]}
            if rel != want:
                return {"failure": "the collected listing is not the produced tree", "output": f"d{i}", "listing": rel}
            there = remap_token_value(posixpath, root, "/some where/else", copy.deepcopy(v))
            back = remap_token_value(posixpath, "/some where/else", root, copy.deepcopy(there))
            if [(e["path"], e["location"]) for e in walk(back)] != [(e["path"], e["location"]) for e in walk(v)]:
                return {"failure": "remapping a collected value there and back does not restore its listing", "output": f"d{i}"}
        return None
    finally:
        shutil.rmtree(base, ignore_errors=True)


_PRODUCE = 'cwlVersion: v1.2\nclass: CommandLineTool\nrequirements:\n  ShellCommandRequirement: {}\ninputs:\n  msg: string\narguments:\n  - shellQuote: false\n    valueFrom: "mkdir -p \'out/s b\' && echo $(inputs.msg) > out/f.txt && echo $(inputs.msg)-nested > \'out/s b/g h.txt\'"\noutputs:\n  d:\n    type: Directory\n    outputBinding:\n      glob: out\n'
_FLATTEN = 'cwlVersion: v1.2\nclass: ExpressionTool\nrequirements:\n  InlineJavascriptRequirement: {}\n  LoadListingRequirement:\n    loadListing: shallow_listing\ninputs:\n  d:\n    type: Directory\n    loadListing: deep_listing\n  flatten: boolean\noutputs:\n  o: Directory\nexpression: |\n  ${\n    var d = inputs.d;\n    if (inputs.flatten) {\n      var flat = [];\n      for (var i = 0; i < d.listing.length; i++) {\n        var e = d.listing[i];\n        if (e.class == "Directory") {\n          for (var j = 0; j < e.listing.length; j++) { flat.push(e.listing[j]); }\n        } else { flat.push(e); }\n      }\n      d.listing = flat;\n    }\n    return {"o": d};\n  }\n'
_REPORT = 'cwlVersion: v1.2\nclass: CommandLineTool\nrequirements:\n  InlineJavascriptRequirement: {}\n  ShellCommandRequirement: {}\ninputs:\n  d:\n    type: Directory\n    loadListing: shallow_listing\narguments:\n  - shellQuote: false\n    valueFrom: |\n      ${\n        var cmd = "echo \'DIR " + inputs.d.path + "\'";\n        for (var i = 0; i < inputs.d.listing.length; i++) {\n          var e = inputs.d.listing[i];\n          cmd += " && echo \'" + e.class + " " + e.path + "\'";\n          if (e.class == "File") {\n            cmd += " && (cat \'" + e.path + "\' || echo MISSING)";\n          }\n        }\n        return cmd;\n      }\nstdout: report.txt\noutputs:\n  o:\n    type: stdout\n'
_WF3 = 'cwlVersion: v1.2\nclass: Workflow\ninputs:\n  msg: string\n  flatten: boolean\noutputs:\n  report:\n    type: File\n    outputSource: c/o\nsteps:\n  a:\n    run: produce.cwl\n    in: {msg: msg}\n    out: [d]\n  b:\n    run: flatten.cwl\n    in: {d: a/d, flatten: flatten}\n    out: [o]\n  c:\n    run: report.cwl\n    in: {d: b/o}\n    out: [o]\n'


def real_run_flatten_case():
    """remapping as the engine uses it when it stages a Directory for a step: the Directory's listing was flattened by an ExpressionTool,
    so some entries are not direct children (`out/s b/g h.txt` listed under `out`).  The consuming step must receive every entry at the
    same place RELATIVE to the directory, pointing at the file with its content."""
    import subprocess
    import tempfile
    import shutil
    base = os.path.realpath(tempfile.mkdtemp(prefix="c32flat."))
    try:
        wf, outdir, home = (os.path.join(base, x) for x in ("wf", "outdir", "home"))
        for d in (wf, outdir, home):
            os.makedirs(d)
        for fname, text in (("produce.cwl", _PRODUCE), ("flatten.cwl", _FLATTEN), ("report.cwl", _REPORT), ("main.cwl", _WF3), ("inputs.yml", "msg: hello\nflatten: true\n")):
            open(os.path.join(wf, fname), "w").write(text)
        code = ("import sys; sys.path.insert(0, %r)\nfrom streamflow.cwl.runner import main\n"
                "sys.exit(main(['--quiet', '--outdir', %r, %r, %r]))\n" % (REPO, outdir, os.path.join(wf, "main.cwl"), os.path.join(wf, "inputs.yml")))
        try:
            r = subprocess.run([sys.executable, "-c", code], cwd=outdir, env=dict(os.environ, HOME=home), capture_output=True, text=True, timeout=300)
        except subprocess.TimeoutExpired:
            return {"failure": "the CWL run that stages a Directory with a flattened listing did not finish within 300 s"}
        if r.returncode != 0 or "{" not in r.stdout:
            return {"failure": "the CWL run that stages a Directory with a flattened listing failed", "rc": r.returncode, "stderr": r.stderr[-600:]}
        outputs = json.loads(r.stdout[r.stdout.index("{"):])
        lines = open(outputs["report"]["path"]).read().splitlines()
        if not lines or not lines[0].startswith("DIR "):
            return {"failure": "unexpected report of the consuming step", "report": lines[:6]}
        root, entries = lines[0][4:], []
        for line in lines[1:]:
            if line.startswith(("File ", "Directory ")):
                cls, pth = line.split(" ", 1)
                entries.append([cls, pth, None])
            elif entries:
                entries[-1][2] = line
        got = sorted((cls, posixpath.relpath(pth, root), body) for cls, pth, body in entries)
        want = [("File", "f.txt", "hello"), ("File", "s b/g h.txt", "hello-nested")]
        if got != want:
            return {"failure": "the entries of a flattened listing do not reach the consuming step at their place relative to the staged directory", "received": got, "expected": want}
        return None
    finally:
        shutil.rmtree(base, ignore_errors=True)


def inject_case():
    """remapping as the translator uses it for an input bound to a port target: the File/Directory values of the input (secondary files,
    listings, records, arrays; a URL left alone) are remapped from the directory of the inputs file to the directory in which the
    injector job of that port runs — whatever work directory the DEPLOYMENT declares — and remapping back restores the original"""
    import asyncio
    import shutil
    import tempfile
    from pathlib import Path

    import cwl_utils.parser.utils

    from streamflow.config.config import WorkflowConfig
    from streamflow.core.utils import random_name
    from streamflow.cwl.translator import CWLTranslator, _inject_value
    from streamflow.cwl.workflow import CWLWorkflow
    from streamflow.main import build_context

    def strip(v):
        if isinstance(v, list):
            return [strip(x) for x in v]
        if isinstance(v, dict):
            if v.get("class") in ("File", "Directory"):
                out = {"class": v["class"]}
                for k in ("location", "path"):
                    if k in v:
                        out[k] = urllib.parse.unquote(v[k]) if isinstance(v[k], str) else v[k]
                for k in ("secondaryFiles", "listing"):
                    if k in v:
                        out[k] = strip(v[k])
                return out
            return {k: strip(x) for k, x in v.items()}
        return v

    async def run():
        base = os.path.realpath(tempfile.mkdtemp(prefix="c32inj."))
        context = build_context({"database": {"type": "default", "config": {"connection": ":memory:"}}, "path": base})
        try:
            for dirname, dep_workdir in (("none", None), ("same", "SAME"), ("other", os.path.join(base, "scratch"))):
                inputs_dir, workdir = os.path.join(base, "in-" + dirname), os.path.join(base, "refs-" + dirname)
                os.makedirs(os.path.join(inputs_dir, "sub"))
                os.makedirs(workdir)
                dep_workdir = workdir if dep_workdir == "SAME" else dep_workdir
                inputs_path = os.path.join(inputs_dir, "inputs.yml")
                Path(inputs_path).write_text("{}")
                value = {"rec": {"n": 3, "url": {"class": "File", "location": "https://example.com/x.bin"},
                                 "files": [{"class": "File", "location": "sub/a b.txt", "secondaryFiles": [{"class": "File", "location": "sub/a b.txt.idx"}]},
                                           {"class": "Directory", "location": "sub", "listing": [{"class": "File", "location": "sub/c.txt"}]}]}}
                cwl_inputs = cwl_utils.parser.utils.load_inputfile_by_yaml(version="v1.2", yaml={"model": value}, uri=Path(inputs_path).as_uri())
                original = strip(_inject_value(copy.deepcopy(cwl_inputs["model"])))
                cfg = {"version": "v1.0",
                       "workflows": {"test": {"type": "cwl", "config": {"file": "main.cwl", "settings": "inputs.yml"},
                                              "bindings": [{"port": "/model", "target": {"deployment": "loc", "workdir": workdir}}]}},
                       "deployments": {"loc": {"type": "local", "config": {}} | ({"workdir": dep_workdir} if dep_workdir else {})}}
                translator = CWLTranslator(context=context, name=random_name(), output_directory=base, cwl_definition=None, cwl_inputs=cwl_inputs,
                                           cwl_inputs_path=inputs_path, workflow_config=WorkflowConfig("test", cfg))
                wf = CWLWorkflow(context=context, config={}, name=translator.name, cwl_version="v1.2")
                translator._inject_input(workflow=wf, port_name="model", global_name="/model", port=wf.create_port(),
                                         output_directory=os.path.dirname(translator.cwl_inputs_path), value=translator.cwl_inputs["model"])
                remapped = wf.steps["/model-injector"].get_input_port("model").token_list[0].value
                job_dir = wf.steps[posixpath.join("/", "model-injector", "__schedule__")].input_directory
                for s_ in names_in(remapped):
                    pth = urllib.parse.unquote(s_[7:]) if s_.startswith("file://") else s_
                    if ":/" in s_ and not s_.startswith("file://"):
                        continue
                    if not pth.startswith(job_dir + os.sep):
                        return {"failure": "an input bound to a port target is not remapped into the directory in which its injector job runs", "deployment_workdir": dep_workdir,
                                "job_directory": job_dir, "value_points_to": pth}
                back = strip(remap_token_value(os.path, job_dir, inputs_dir, copy.deepcopy(remapped)))
                if back != original:
                    return {"failure": "remapping an injected input back to the directory of the inputs file does not restore it", "deployment_workdir": dep_workdir,
                            "got": str(back)[:400], "original": str(original)[:400]}
            return None
        finally:
            await context.close()
            shutil.rmtree(base, ignore_errors=True)

    return asyncio.run(asyncio.wait_for(run(), 120))


def check_axioms(n):
    """A-OSPATH / A-URLLIB / A-STR of contracts/C32.py on concrete normalised paths"""
    bad = []
    for _ in range(n):
        old, new = rng.choice([("/old", "/new"), ("/data/in put", "/mnt/o"), ("/a/b", "/c")])
        p = posixpath.join(old, rand_rel())
        rel = os.path.relpath(p, old)
        rebased = posixpath.join(new, *rel.split(os.path.sep))
        if posixpath.join(old, *rel.split(os.path.sep)) != p:
            bad.append(("rebase_inverts_relpath", p, old))
        if not rebased.startswith(new + "/") or os.path.relpath(rebased, new) != rel:
            bad.append(("rebase_lands_under", p, old, new))
        if not has_pct_escape(p) and urllib.parse.unquote(p) != p:
            bad.append(("unquote_identity", p))
        u = "file://" + p
        if ":/" not in u or urllib.parse.urlsplit(u).scheme != "file" or u[7:] != p:
            bad.append(("file_url_shape", p))
    return bad


def check_get_path(n=400):
    """_get_path: the path of a file:// id is percent-DECODED (like the locations that are remapped against it), the fragment is cut"""
    from pathlib import Path

    from streamflow.cwl.translator import _get_path

    for _ in range(n):
        name = rng.choice(["plain", "my data", "dépôt", "100%", "a%20b", "q?x", "semi;colon", "日本"])
        p = "/" + "/".join(rng.choice(["w", name, "sub dir"]) for _ in range(rng.randint(1, 3))) + "/" + name
        uri = Path(p).as_uri()
        frag = rng.choice(["", "#main", "#step/in"])
        got = _get_path(uri + frag)
        if got != p:
            return {"unit": "_get_path", "id": uri + frag, "got": got, "expected": p}
        if _get_path(p + frag) != p:
            return {"unit": "_get_path", "id": p + frag, "got": _get_path(p + frag), "expected": p}
    return None


def replay(path):
    d = load_replay(path)
    if d.get("unit") == "_get_path":
        finish_replay(path, check_get_path(), "(400 document ids)")
    if (d.get("info") or {}).get("known") == "KF-C32-percent-names":
        # the recorded finding: show its witness on the real code
        for p in ["/old/a%20b", "/old/%41", "/old/x/p%2Fq"]:
            there = remap_path(posixpath, p, "/old", "/new")
            back = remap_path(posixpath, there, "/new", "/old")
            if back != p:
                finish_replay(path, {"path": p, "there": there, "back": back})
        finish_replay(path, None, "(percent-escape names now survive the round trip)")
    finish_replay(path, search(3000), "(3000 random CWL values)")


def crosscheck(n):
    k = int(n) * 20
    ax = check_axioms(k)
    if ax:
        print(json.dumps({"inputs": k, "axiom_disagreements": len(ax), "samples": ax[:3]}, default=str))
        sys.exit(3)
    bad = search(k) or check_get_path() or inject_case() or real_run_case(2 if int(n) <= 100 else 4) or real_run_flatten_case()
    print(json.dumps({"inputs": k, "native_contract_failures": 1 if bad else 0, "samples": [bad] if bad else [], "known_findings": sorted(KNOWN)}, default=str))
    sys.exit(1 if bad else 0)


main({"replay": replay, "crosscheck": crosscheck})
