"""C27 native driver (bounded): the real SlurmConnector over a LocalConnector, against fake sbatch / squeue / scontrol / scancel
executables whose queue is a directory.  A background task plays the cluster: every job goes PENDING -> RUNNING -> COMPLETING ->
gone after random times, its output file and exit code become final only when it leaves the queue.  Oracle from the statement:
  * run() returns only after the job has left the queue (the queue entry is gone when run() returns), with THAT job's output and
    exit code, for 1..6 concurrent submissions and random polling phases;
  * undeploy() cancels exactly the jobs still queued."""
import asyncio
import json
import logging
import os
import shlex
import shutil
import stat
import sys
import tempfile
import time

from common import finish_replay, load_replay, main, rng

from streamflow.deployment.connector.local import LocalConnector
from streamflow.deployment.connector.queue_manager import SlurmConnector
from streamflow.log_handler import logger

logger.setLevel(logging.CRITICAL)
KNOWN = set()

SBATCH = r'''#!/bin/sh
D=__DIR__
n=0
while ! mkdir "$D/lock" 2>/dev/null; do
  [ -d "$D" ] || exit 1          # the driver removed the state directory: this history is over
  n=$((n+1)); [ $n -gt 3000 ] && exit 1
  sleep 0.01
done
n=$(cat "$D/next"); echo $((n+1)) > "$D/next"
cat > "$D/scripts/$n"
echo PENDING > "$D/queue/$n.tmp"; mv "$D/queue/$n.tmp" "$D/queue/$n"
rmdir "$D/lock"
echo "$n"
'''
SQUEUE = r'''#!/bin/sh
D=__DIR__
ids=""; states=""
while [ $# -gt 0 ]; do
  case "$1" in
    -j) ids="$2"; shift;;
    -t) states="$2"; shift;;
    -O) shift;;
  esac
  shift
done
sleep __SQUEUE_DELAY__
for id in $(echo "$ids" | tr ',' ' '); do
  if [ -e "$D/queue/$id" ]; then
    st=$(cat "$D/queue/$id")
    case ",$states," in *",$st,"*) printf '%-20s\n' "$id";; esac
  fi
done
'''
SCONTROL = r'''#!/bin/sh
D=__DIR__
id="$4"
if [ -e "$D/queue/$id" ]; then st=$(cat "$D/queue/$id"); else st=COMPLETED; fi
code=$(cat "$D/exit/$id" 2>/dev/null || echo 0)
echo "JobId=$id JobName=sbatch UserId=u(1000) JobState=$st Reason=None ExitCode=$code:0 RunTime=00:00:01 Partition=debug WorkDir=$D StdErr=$D/out/slurm-$id.out StdIn=/dev/null StdOut=$D/out/slurm-$id.out Power="
'''
SCANCEL = r'''#!/bin/sh
D=__DIR__
for id in "$@"; do
  echo "$id" >> "$D/cancelled"
  rm -f "$D/queue/$id"
done
'''


class FakeSlurm:
    def __init__(self, squeue_delay):
        self.dir = tempfile.mkdtemp(prefix="c27.")
        for d in ("bin", "queue", "scripts", "out", "exit"):
            os.makedirs(os.path.join(self.dir, d))
        open(os.path.join(self.dir, "next"), "w").write("1\n")
        for name, text in (("sbatch", SBATCH), ("squeue", SQUEUE), ("scontrol", SCONTROL), ("scancel", SCANCEL)):
            p = os.path.join(self.dir, "bin", name)
            open(p, "w").write(text.replace("__DIR__", self.dir).replace("__SQUEUE_DELAY__", str(squeue_delay)))
            os.chmod(p, os.stat(p).st_mode | stat.S_IXUSR)
        self.left = {}  # job id -> time it left the queue
        self.frozen = False  # the cluster stops changing job states (set around undeploy, so that scancel does not race with a transition)

    def p(self, *a):
        return os.path.join(self.dir, *a)

    def put(self, path, text):
        """atomic replacement: the fake tools never see a half-written file"""
        tmp = path + ".tmp"
        open(tmp, "w").write(text)
        os.replace(tmp, path)

    def queued(self, job_id):
        return os.path.exists(self.p("queue", str(job_id)))

    def marker_of(self, job_id):
        try:
            return open(self.p("scripts", str(job_id))).read()
        except OSError:
            return ""

    async def cluster(self, plans, stop):
        """plans: marker -> (pending, running, completing seconds, output, exit code)"""
        seen = {}
        while not stop.is_set():
            for n in os.listdir(self.p("queue")):
                if n.endswith(".tmp"):
                    continue
                if n not in seen:
                    text = self.marker_of(n)
                    for marker, plan in plans.items():
                        if marker in text:
                            seen[n] = (time.monotonic(), plan)
            now = time.monotonic()
            for n, (t0, (tp, tr, tc, out, code)) in ([] if self.frozen else list(seen.items())):
                if not self.queued(n):
                    continue
                age = now - t0
                if age >= tp + tr + tc:
                    # output and exit code become final, THEN the job leaves the queue
                    self.put(self.p("out", f"slurm-{n}.out"), out + "\n")
                    self.put(self.p("exit", n), f"{code}\n")
                    self.left[n] = time.monotonic()
                    os.remove(self.p("queue", n))
                elif age >= tp + tr:
                    self.put(self.p("out", f"slurm-{n}.out"), "PARTIAL\n")
                    self.put(self.p("queue", n), "COMPLETING\n")
                elif age >= tp:
                    self.put(self.p("queue", n), "RUNNING\n")
            await asyncio.sleep(0.02)


async def history(with_undeploy):
    fs = FakeSlurm(squeue_delay=rng.choice([0, 0, 0.05, 0.15]))
    old_path = os.environ["PATH"]
    os.environ["PATH"] = fs.p("bin") + os.pathsep + old_path
    bad = None
    try:
        local = LocalConnector("local", fs.dir)
        slurm = SlurmConnector("slurm", fs.dir, local, None, maxConcurrentJobs=10, pollingInterval=rng.choice([0.1, 0.2, 0.3]))
        loc = next(iter((await slurm.get_available_locations()).values())).location
        # (with an undeploy: several jobs that are certainly still queued when it comes)
        njobs = rng.randint(3, 6) if with_undeploy else rng.randint(1, 6)
        plans = {}
        for k in range(njobs):
            # several jobs share their end time now and then (completion detected within one polling interval)
            total = rng.choice([6.0, 8.0]) if with_undeploy and k < 3 else rng.choice([0.2, 0.5, 0.5, 0.9, 1.3])
            tc = rng.choice([0.0, 0.1, 0.3])
            tp = rng.uniform(0, max(0.0, total - tc) / 2)
            plans[f"job-{k}-marker"] = (tp, max(0.0, total - tc - tp), tc, f"output-of-job-{k}", (k * 7) % 5)
        stop = asyncio.Event()
        cl = asyncio.create_task(fs.cluster(plans, stop))
        problems = []

        async def submit(k):
            await asyncio.sleep(rng.uniform(0, 0.4))
            marker = f"job-{k}-marker"
            # (characters whose base64 encoding needs '+' and '/', at every alignment)
            tail = "x" * (k % 3) + "???>>>~~~" + f"END-OF-COMMAND-{k}"
            res = await slurm.run(loc, ["echo", marker, shlex.quote(tail)], job_name=f"/{marker}/0")
            jid = next((n for n in os.listdir(fs.p("scripts")) if marker in fs.marker_of(n)), None)
            if jid is None:
                problems.append({"failure": "the job was never submitted", "job": k})
            elif f"END-OF-COMMAND-{k}" not in fs.marker_of(jid):
                problems.append({"failure": "the script that reached sbatch is not the whole command of the job", "job": k, "job_id": jid, "script_tail": fs.marker_of(jid)[-120:]})
            elif fs.queued(jid):
                problems.append({"failure": "run() returned while the job is still in the queue", "job": k, "job_id": jid,
                                 "state": open(fs.p("queue", jid)).read().strip(), "result": repr(res)})
            elif res != (plans[marker][3], plans[marker][4]):
                problems.append({"failure": "run() did not return the job's own final output and exit code", "job": k, "job_id": jid, "result": repr(res),
                                 "expected": repr((plans[marker][3], plans[marker][4]))})

        tasks = [asyncio.create_task(submit(k)) for k in range(njobs)]
        if with_undeploy:
            await asyncio.sleep(rng.uniform(0.1, 0.8))
            for _ in range(100):  # until at least two submissions are registered (at most 5 s)
                if len(slurm._scheduled_jobs) >= 2:
                    break
                await asyncio.sleep(0.05)
            fs.frozen = True
            await asyncio.sleep(0.05)
            scheduled = sorted(slurm._scheduled_jobs)
            await slurm.undeploy(False)
            queued = sorted(n for n in os.listdir(fs.p("queue")) if not n.endswith(".tmp"))
            cancelled = sorted(set(open(fs.p("cancelled")).read().split())) if os.path.exists(fs.p("cancelled")) else []
            for t in tasks:
                t.cancel()
            await asyncio.gather(*tasks, return_exceptions=True)
            # exactly the registered jobs are cancelled; none of them is still queued afterwards (a job whose sbatch had not returned
            # yet when undeploy started is not registered and is not looked at)
            if set(cancelled) != set(scheduled) or (set(queued) & set(scheduled)):
                bad = {"failure": "undeploy did not cancel exactly the jobs still queued", "still_queued_after": queued, "registered": scheduled, "cancelled": cancelled}
        else:
            try:
                await asyncio.wait_for(asyncio.gather(*tasks), 120)
            except asyncio.TimeoutError:
                bad = {"failure": "a run() call did not return within 120 s although every job leaves the queue after at most 1.3 s",
                       "still_queued": sorted(os.listdir(fs.p("queue"))), "registered": sorted(slurm._scheduled_jobs), "left_queue": sorted(fs.left),
                       "scripts": sorted(os.listdir(fs.p("scripts"))), "tasks_done": [t.done() for t in tasks],
                       "jobs": {m: [round(x, 2) if isinstance(x, float) else x for x in p] for m, p in plans.items()}}
            if problems and not bad:
                bad = problems[0]
                bad["jobs"] = {m: [round(x, 2) if isinstance(x, float) else x for x in p] for m, p in plans.items()}
        stop.set()
        await cl
    except Exception as e:
        bad = {"failure": f"exception {type(e).__name__}: {e}"}
    finally:
        os.environ["PATH"] = old_path
        shutil.rmtree(fs.dir, ignore_errors=True)
    return bad


async def search(n):
    for k in range(n):
        bad = await history(with_undeploy=(k % 4 == 3))
        if bad:
            return bad
    return None


def replay(path):
    load_replay(path)
    finish_replay(path, asyncio.run(search(40)), "(40 histories of 1..6 concurrent batch jobs on the fake queue)")


def crosscheck(n):
    k = min(max(10, int(n) // 5), 150)  # a history takes 1.5-3 s of real time (the fake queue runs in real time)
    bad = asyncio.run(search(k))
    print(json.dumps({"inputs": k, "native_contract_failures": 1 if bad else 0, "samples": [bad] if bad else [], "known_findings": sorted(KNOWN)}, default=str))
    sys.exit(1 if bad else 0)


main({"replay": replay, "crosscheck": crosscheck})
