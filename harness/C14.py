"""C14 native drivers: the three laws of the statement evaluated on the real Hardware/Storage classes (integers as floats,
so IEEE arithmetic is exact), with aliasing keys (key != mount point, several keys per mount point)."""
import json
import sys

from common import finish_replay, load_replay, main, rng

from streamflow.core.exception import WorkflowExecutionException
from streamflow.core.scheduling import Hardware, Storage, _reduce_storages

MOUNTS = ["/", "/tmp", "/data", "/scratch"]


def rand_hw(n_keys=None):
    n = n_keys if n_keys is not None else rng.randint(1, 4)
    st = {}
    for i in range(n):
        mp = rng.choice(MOUNTS)
        key = mp if rng.random() < 0.5 else f"k{i}"
        if key in st:
            key = f"k{i}_{mp}"
        # sizes are dyadic rationals (exact in binary floating point, sums and differences too), including the
        # fractional values the scheduler produces with size / 2**20
        size = float(rng.randint(0, 50)) if rng.random() < 0.5 else rng.randint(0, 3200) / 32.0 + rng.choice([0.0, 0.0009765625, 2.0 ** -20])
        st[key] = Storage(mp, size, paths={f"{mp}/p{i}"} if rng.random() < 0.5 else None)
    return Hardware(float(rng.randint(0, 16)), float(rng.randint(0, 64)), st)


def total(h, mp):
    return sum(s.size for s in h.storage.values() if s.mount_point == mp)


def mounts(h):
    return {s.mount_point for s in h.storage.values()}


def check_one(h, r):
    """returns a failing description or None"""
    # law 1: (h + r) - r restores per-mount amounts, cores, memory
    s = h + r
    for mp in mounts(h) | mounts(r):
        if s.storage[mp].size != total(h, mp) + total(r, mp):
            return {"law": "add totals", "mp": mp}
    if not s.is_normalized():
        return {"law": "add normalised"}
    d = s - r
    if d.cores != h.cores or d.memory != h.memory:
        return {"law": "add_then_sub cores/memory"}
    for mp in mounts(h) | mounts(r):
        if total(d, mp) != total(h, mp):
            return {"law": "add_then_sub", "mp": mp, "got": total(d, mp), "want": total(h, mp)}
    # law 2: normalisation idempotent, total-preserving
    n1 = h.normalized()
    n2 = n1.normalized()
    if not n1.is_normalized() or set(n1.storage) != mounts(h):
        return {"law": "normalized keys"}
    for mp in mounts(h):
        if n1.storage[mp].size != total(h, mp) or n2.storage[mp].size != n1.storage[mp].size:
            return {"law": "normalized totals/idempotent", "mp": mp}
    if n2.cores != n1.cores or n2.memory != n1.memory or set(n2.storage) != set(n1.storage):
        return {"law": "idempotent"}
    # law 3: satisfies
    try:
        got = h.satisfies(r)
        raised = False
    except WorkflowExecutionException:
        raised, got = True, None
    big = h.cores >= r.cores and h.memory >= r.memory
    missing = bool(mounts(r) - mounts(h))
    if big and missing:
        if not raised:
            return {"law": "satisfies must raise on a missing mount point"}
    else:
        want = big and all(total(h, mp) >= total(r, mp) for mp in mounts(r))
        if raised or got != want:
            return {"law": "satisfies", "got": got, "want": want, "raised": raised}
    # _reduce_storages subtraction semantics: first occurrence minus the later ones
    return None


def describe(h):
    return {"cores": h.cores, "memory": h.memory, "storage": {k: [s.mount_point, s.size] for k, s in h.storage.items()}}


def search(n):
    for _ in range(n):
        h, r = rand_hw(), rand_hw()
        try:
            bad = check_one(h, r)
        except Exception as e:  # an unexpected exception is a failure of the law too
            bad = {"exception": repr(e)}
        if bad:
            bad.update({"h": describe(h), "r": describe(r)})
            return bad
    return None


def replay(path):
    load_replay(path)
    finish_replay(path, search(3000), "(3000 random hardware pairs with aliasing keys)")


def crosscheck(n):
    n = int(n)
    bad = search(n * 10)
    print(json.dumps({"inputs": n * 10, "native_contract_failures": 1 if bad else 0, "samples": [bad] if bad else []}))
    sys.exit(1 if bad else 0)


main({"replay": replay, "crosscheck": crosscheck})
