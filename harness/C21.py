"""C21 native driver: random register / relate / invalidate histories on the real DefaultDataManager, compared after every
operation with a reference model written from the statement:

  * an object is a registration (location, path); it is valid until the path or an ancestor of it is invalidated ON THAT LOCATION;
  * register_path(L, p) registers p and every ancestor directory of p on L (and, for a wrapped location with a mount point, the
    translated path on the wrapped location, related to the first);
  * register_relation(src, dst) makes every valid registration known at src.path known at dst.path and vice versa;
  * a path is reported on a location exactly by the valid registrations known at it;
  * the source location of a transfer is a valid PRIMARY registration known at the path.

Relations that would make two different paths of the SAME location copies of each other (directly, or because the node of a
path already holds a registration of that location) are not generated: the statement does not say whether invalidating one
copy reaches the other, and the implementation invalidates both."""
import asyncio
import json
import logging
import os
import sys
import tempfile

from common import finish_replay, load_replay, main, rng

from streamflow.core.data import DataType
from streamflow.core.deployment import ExecutionLocation
from streamflow.log_handler import logger
from streamflow.main import build_context

logger.setLevel(logging.CRITICAL)
KNOWN = set()


class Obj:
    __slots__ = ("loc", "path", "valid", "primary")

    def __init__(self, loc, path, primary=True):
        self.loc, self.path, self.valid, self.primary = loc, path, True, primary


def prefixes(path):
    parts = [p for p in path.split("/") if p]
    out = ["/"]
    for i in range(len(parts)):
        out.append("/" + "/".join(parts[: i + 1]))
    return out


def beneath(q, p):
    return q == p or p == "/" or q.startswith(p + "/")


class Model:
    def __init__(self):
        self.refs = {}  # node path -> list of Obj
        self.objs = []

    def known(self, node, loc, path):
        return any(o.valid and o.loc == loc and o.path == path for o in self.refs.get(node, []))

    def add(self, node, o):
        if o not in self.refs.get(node, []) and not self.known(node, o.loc, o.path):
            self.refs.setdefault(node, []).append(o)

    def register(self, loc, path):
        leaf = None
        for q in prefixes(path):
            cur = next((o for o in self.refs.get(q, []) if o.valid and o.loc == loc and o.path == q), None)
            if cur is None:
                cur = Obj(loc, q)
                self.objs.append(cur)
                self.refs.setdefault(q, []).append(cur)
            if q == path:
                leaf = cur
        return leaf

    def relate(self, src, dst):
        # every registration known at the source path takes part, invalidated ones too (the copies are the same data; an
        # invalidated one is never REPORTED, the filter is on the way out)
        for o in list(self.refs.get(src.path, [])):
            self.add(o.path, dst)
            self.add(dst.path, o)

    def relate_creates_local_copies(self, src, dst):
        """would the relation make two different paths of ONE location copies of each other (both known at one node)?"""
        adds = {}
        for o in self.refs.get(src.path, []):
            adds.setdefault(o.path, []).append(dst)
            adds.setdefault(dst.path, []).append(o)
        for node, new in adds.items():
            seen = {}
            for o in list(self.refs.get(node, [])) + new:
                if seen.setdefault(o.loc, o.path) != o.path:
                    return True
        return False

    def invalidate(self, loc, path):
        for o in self.objs:
            if o.loc == loc and beneath(o.path, path):
                o.valid = False

    def reported(self, node, loc=None):
        return sorted((o.loc, o.path) for o in self.refs.get(node, []) if o.valid and (loc is None or o.loc == loc))


MOUNTS = {"/mnt": "/scratch/j1", "/mnt/d": "/cache/x"}


def key(loc):
    return (loc.deployment, loc.name)


async def history(relations=True, wrapped=True, steps=None, duplicates=False):
    workdir = tempfile.mkdtemp(prefix="c21.")
    ctx = build_context({"database": {"type": "default", "config": {"connection": ":memory:"}}, "path": workdir})
    dm = ctx.data_manager
    host = ExecutionLocation(name="h", deployment="depH")
    locs = [ExecutionLocation(name="a", deployment="depA"), ExecutionLocation(name="b", deployment="depB")]
    if wrapped:
        locs.append(ExecutionLocation(name="box", deployment="depC", wraps=host, mounts=dict(MOUNTS)))
    alllocs = locs + ([host] if wrapped else [])
    model = Model()
    real = {}  # (loc key, path) -> latest real DataLocation returned by register_path
    trace = []
    bad = None
    names = ["d", "e", "f"]
    related = []
    dups, dup_related = set(), set()

    def rand_path(loc):
        depth = rng.randint(1, 4)
        p = "/" + "/".join(rng.choice(names) for _ in range(depth))
        if loc.wraps is not None and rng.random() < 0.7:
            p = "/mnt" + p
        return p

    def observe():
        nodes = sorted(set(model.refs) | {"/"})
        for node in nodes:
            for loc in alllocs + [None]:
                if loc is None:
                    got = sorted(((l.deployment, l.name), l.path) for l in dm.get_data_locations(node))
                    want = model.reported(node)
                else:
                    got = sorted(((l.deployment, l.name), l.path) for l in dm.get_data_locations(node, deployment=loc.deployment, location_name=loc.name))
                    want = model.reported(node, key(loc))
                # duplicates of one registration are not observable differences
                if sorted(set(got)) != sorted(set(want)):
                    return {"failure": "reported data locations differ from the reference model", "path": node, "location": str(key(loc)) if loc else "any",
                            "reported": got, "expected": want}
        return None

    try:
        for step in range(steps or rng.randint(3, 12)):
            r = rng.random()
            registered = [(k, p) for (k, p), o in real.items()]
            if r < 0.45 or not registered:
                if registered and rng.random() < 0.4:
                    # the same path is produced again (re-registration)
                    (k0, p) = rng.choice(registered)
                    loc = real[(k0, p)][2]
                else:
                    loc = rng.choice(locs)
                    p = rand_path(loc)
                if any(o.loc == key(loc) and o.path != q for q in prefixes(p) for o in model.refs.get(q, [])):
                    continue  # would make two paths of this location copies of each other (see the module docstring)
                already = model.known(p, key(loc), p)
                d = dm.register_path(loc, p)
                trace.append(("register_path", key(loc), p))
                o = model.register(key(loc), p)
                if already and not duplicates:
                    # the path is still valid: callers keep using the registration they already hold
                    # (for a directory first registered as an ancestor, that is the stored ancestor registration)
                    d = next(l for l in dm.get_data_locations(p, deployment=loc.deployment, location_name=loc.name) if l.path == p)
                elif already:
                    dups.add((key(loc), p))
                real[(key(loc), p)] = (d, o, loc)
                if loc.wraps is not None and p.startswith("/mnt/"):
                    # nested mount points: the most specific one decides where the path lives on the wrapped location
                    mount = max((m for m in MOUNTS if p == m or p.startswith(m + "/")), key=len)
                    inner = MOUNTS[mount] + p[len(mount):]
                    oi = model.register(key(host), inner)
                    model.relate(o, oi)
            elif r < 0.7:
                (k, p) = rng.choice(registered)
                loc = real[(k, p)][2]
                cut = rng.choice(prefixes(p)[1:])
                if any(o.loc == k and not beneath(o.path, cut) for q, objs in model.refs.items() if beneath(q, cut) for o in objs):
                    continue  # a copy of another path of this location is known beneath the cut (see the module docstring)
                dm.invalidate_location(loc, cut)
                trace.append(("invalidate_location", k, cut))
                model.invalidate(k, cut)
            elif relations:
                if related and rng.random() < 0.5:
                    (k1, p1), (k2, p2) = rng.choice(related)
                else:
                    (k1, p1), (k2, p2) = rng.choice(registered), rng.choice(registered)
                d1, o1, _ = real[(k1, p1)]
                d2, o2, _ = real[(k2, p2)]
                if k1 == k2 or not (o1.valid and o2.valid) or model.relate_creates_local_copies(o1, o2):
                    continue
                dm.register_relation(d1, d2)
                trace.append(("register_relation", (k1, p1), (k2, p2)))
                model.relate(o1, o2)
                related.append(((k1, p1), (k2, p2)))
                dup_related.update(x for x in ((k1, p1), (k2, p2)) if x in dups)
            else:
                continue
            bad = observe()
            if bad is not None and duplicates:
                extra = set(map(tuple, bad["reported"])) - set(map(tuple, bad["expected"]))
                missing = set(map(tuple, bad["expected"])) - set(map(tuple, bad["reported"]))
                if not missing and extra and extra <= dup_related:
                    bad["known"] = "KF-C21-duplicate-registration"
            if bad is None:
                # the source location of a transfer is a valid primary copy known at the path
                for node in list(model.refs):
                    dep = rng.choice(alllocs).deployment
                    src = await asyncio.wait_for(dm.get_source_location(node, dep), 5)
                    want = model.reported(node)
                    if (src is None) != (not want):
                        bad = {"failure": "get_source_location: a source exists exactly when a valid primary registration is known", "path": node,
                               "result": str(src and (src.deployment, src.path)), "expected_candidates": want}
                    elif src is not None and (src.data_type != DataType.PRIMARY or ((src.deployment, src.name), src.path) not in want):
                        bad = {"failure": "get_source_location returned something that is not a valid primary copy", "path": node,
                               "result": (src.deployment, src.path, str(src.data_type)), "expected_candidates": want}
                    if bad:
                        break
            if bad:
                bad["trace"] = trace[-10:]
                break
    except Exception as e:
        bad = {"failure": f"exception {type(e).__name__}: {e}", "trace": trace[-10:]}
    finally:
        await ctx.close()
        try:
            os.rmdir(workdir)
        except OSError:
            pass
    return bad


async def interleaved_source():
    """get_source_location waits for a copy that is still in flight; the copy ends as a symbolic link or is invalidated while it
    waits: the answer must still be a valid PRIMARY copy (or None)"""
    workdir = tempfile.mkdtemp(prefix="c21.")
    ctx = build_context({"database": {"type": "default", "config": {"connection": ":memory:"}}, "path": workdir})
    dm = ctx.data_manager
    bad = None
    try:
        for final in (DataType.SYMBOLIC_LINK, DataType.INVALID, DataType.PRIMARY):
            for dep in ("depA", "depB", "depZ"):
                a = ExecutionLocation(name="a", deployment="depA", local=(dep == "depZ"))
                b = ExecutionLocation(name="b", deployment="depB")
                p = f"/w/{final.name}/{dep}/f"
                other = dm.register_path(b, p)
                inflight = dm.register_path(a, p)
                inflight.available.clear()
                task = asyncio.create_task(dm.get_source_location(p, dep))
                for _ in range(5):
                    await asyncio.sleep(0)
                inflight.data_type = final
                inflight.available.set()
                src = await asyncio.wait_for(task, 5)
                if src is not None and src.data_type != DataType.PRIMARY:
                    bad = {"failure": "get_source_location returned a copy that is not PRIMARY any more when the wait ended", "path": p,
                           "in_flight_copy_became": final.name, "dst_deployment": dep, "result": (src.deployment, str(src.data_type))}
                    return bad
                if src is None:
                    bad = {"failure": "get_source_location found no source although a valid primary copy exists", "path": p, "dst_deployment": dep}
                    return bad
    finally:
        await ctx.close()
        try:
            os.rmdir(workdir)
        except OSError:
            pass
    return bad


async def directed_duplicate():
    workdir = tempfile.mkdtemp(prefix="c21.")
    ctx = build_context({"database": {"type": "default", "config": {"connection": ":memory:"}}, "path": workdir})
    dm = ctx.data_manager
    try:
        a, b = ExecutionLocation(name="a", deployment="depA"), ExecutionLocation(name="b", deployment="depB")
        da = dm.register_path(a, "/d/e/d")
        dm.register_path(b, "/e/e/e")
        db2 = dm.register_path(b, "/e/e/e")  # still valid: the returned object is not stored in the tree
        dm.register_relation(da, db2)
        dm.invalidate_location(b, "/e/e/e")
        got = [(l.deployment, l.path) for l in dm.get_data_locations("/d/e/d", deployment="depB", location_name="b")]
        return {"known": "KF-C21-duplicate-registration", "reported": got} if got else None
    finally:
        await ctx.close()
        try:
            os.rmdir(workdir)
        except OSError:
            pass


async def transfer_history(directed=False):
    """the last clause of the statement on real transfers: two local deployments, a source registered on the first, transferred (as a
    link or as a copy) into job directories of the second; job directories are lost and invalidated in between.  Every transfer must
    come from a VALID primary copy: the destination exists, holds the source's content, and is registered once."""
    import shutil

    from streamflow.core.deployment import DeploymentConfig

    root = os.path.realpath(tempfile.mkdtemp(prefix="c21t."))
    ctx = build_context({"database": {"type": "default", "config": {"connection": ":memory:"}}, "path": root})
    trace = []
    try:
        for name in ("__LOCAL__", "site2"):
            os.makedirs(os.path.join(root, "workdir-" + name))
            await ctx.deployment_manager.deploy(DeploymentConfig(name=name, type="local", config={}, external=True, lazy=False, workdir=os.path.join(root, "workdir-" + name)))

        async def loc_of(dep):
            return next(iter((await ctx.deployment_manager.get_connector(dep).get_available_locations()).values())).location

        local, site2 = await loc_of("__LOCAL__"), await loc_of("site2")
        dm = ctx.data_manager
        srcs = []
        for k in range(rng.randint(1, 2)):
            src = os.path.join(root, "inputs", f"in {k}.txt")
            os.makedirs(os.path.dirname(src), exist_ok=True)
            open(src, "w").write(f"payload-{k}")
            dm.register_path(local, src)
            srcs.append((src, f"payload-{k}"))
        jobs = []
        for step in range(3 if directed else rng.randint(2, 6)):
            # (directed: transfer, lose and invalidate the copy, transfer the same source again, read-only)
            if jobs and (step == 1 if directed else rng.random() < 0.4):
                jd = jobs.pop(rng.randrange(len(jobs)))
                shutil.rmtree(jd, ignore_errors=True)
                dm.invalidate_location(site2, jd)
                trace.append(("job directory lost and invalidated", os.path.basename(jd)))
                continue
            src, content = srcs[0] if directed else rng.choice(srcs)
            jd = os.path.join(root, "site2", f"job{step}")
            dst = os.path.join(jd, os.path.basename(src))
            writable = False if directed else rng.random() < 0.3
            trace.append(("transfer", os.path.basename(src), os.path.basename(jd), "writable" if writable else "read-only"))
            try:
                await asyncio.wait_for(dm.transfer_data(local, src, [site2], dst, writable=writable), 60)
            except Exception as e:  # noqa
                return {"failure": f"a transfer from a valid primary copy raised {type(e).__name__}: {e}", "trace": trace}
            jobs.append(jd)
            if not os.path.exists(dst):
                return {"failure": "the destination of a transfer does not exist or is a dangling link: the data was not taken from a valid primary copy",
                        "destination": dst, "link_to": os.readlink(dst) if os.path.islink(dst) else None, "trace": trace}
            if open(dst).read() != content:
                return {"failure": "the destination of a transfer does not hold the source's content", "destination": dst, "trace": trace}
            n = len([l for l in dm.get_data_locations(dst, "site2") if l.path == dst])  # (other valid copies of the same data on the location are reported too)
            if n != 1:
                return {"failure": "the destination of a transfer is not registered exactly once on its location", "registrations": n, "trace": trace}
        return None
    finally:
        try:
            await ctx.deployment_manager.undeploy_all()
            await ctx.close()
        except Exception:
            pass
        shutil.rmtree(root, ignore_errors=True)


async def directed_chain():
    """three copies on three locations related through one of them: relate A(a) with B(b), then A with C(c).  Every registration known at
    the source path takes part in a relation, so B and C end up knowing each other (the copies are the same data)"""
    workdir = tempfile.mkdtemp(prefix="c21c.")
    ctx = build_context({"database": {"type": "default", "config": {"connection": ":memory:"}}, "path": workdir})
    try:
        dm = ctx.data_manager
        locs = [ExecutionLocation(name=n, deployment=f"dep{n.upper()}") for n in ("a", "b", "c")]
        paths = ["/d/e", "/d/f", "/e/f"]
        model = Model()
        real, objs = [], []
        for loc, pth in zip(locs, paths):
            real.append(dm.register_path(loc, pth))
            objs.append(model.register(key(loc), pth))
        for j in (1, 2):
            dm.register_relation(real[0], real[j])
            model.relate(objs[0], objs[j])
        if rng.random() < 0.5:
            dm.invalidate_location(locs[0], "/d/e")
            model.invalidate(key(locs[0]), "/d/e")
        for node in sorted(model.refs):
            for loc in locs + [None]:
                if loc is None:
                    got = sorted(((l.deployment, l.name), l.path) for l in dm.get_data_locations(node))
                    want = model.reported(node)
                else:
                    got = sorted(((l.deployment, l.name), l.path) for l in dm.get_data_locations(node, deployment=loc.deployment, location_name=loc.name))
                    want = model.reported(node, key(loc))
                if sorted(set(got)) != sorted(set(want)):
                    return {"failure": "reported data locations differ from the reference model after a chain of relations (A-B, then A-C)", "path": node,
                            "location": str(key(loc)) if loc else "any", "reported": got, "expected": want}
        return None
    finally:
        await ctx.close()
        try:
            os.rmdir(workdir)
        except OSError:
            pass


async def search(n):
    bad = await interleaved_source()
    if bad:
        return bad
    if await directed_duplicate():
        KNOWN.add("KF-C21-duplicate-registration")
    for _ in range(2):
        bad = await directed_chain()
        if bad:
            return bad
    for i in range(max(6, n // 8)):
        bad = await transfer_history(directed=(i == 0))
        if bad:
            return bad
    for i in range(n):
        bad = await history(relations=(i % 3 != 0), wrapped=(i % 2 == 0))
        if bad:
            return bad
    # the recorded finding: a second register_path of a still valid path returns a DataLocation that is not in the tree; relating it
    # puts it where invalidating the path does not reach
    for i in range(max(20, n // 2)):
        bad = await history(relations=True, wrapped=(i % 2 == 0), duplicates=True)
        if bad and bad.get("known"):
            KNOWN.add(bad["known"])
        elif bad:
            return bad
    return None


def replay(path):
    d = load_replay(path)
    if (d.get("info") or {}).get("known") == "KF-C21-duplicate-registration":
        for i in range(200):
            bad = asyncio.run(history(relations=True, wrapped=False, duplicates=True))
            if bad and bad.get("known"):
                finish_replay(path, bad)
        finish_replay(path, None, "(200 histories with duplicate registrations)")
    finish_replay(path, asyncio.run(search(150)), "(150 register/relate/invalidate histories against the reference model)")


def crosscheck(n):
    k = max(40, int(n))
    bad = asyncio.run(search(k))
    print(json.dumps({"inputs": k, "native_contract_failures": 1 if bad else 0, "samples": [bad] if bad else [], "known_findings": sorted(KNOWN)}, default=str))
    sys.exit(1 if bad else 0)


main({"replay": replay, "crosscheck": crosscheck})
