# C23 — Tar-stream copies are exact or fail, however the stream is chunked
# bytes are sequences of ints.  The underlying byte stream is a ghost pair (data, cur); its read() obeys the CHUNKING
# CONTRACT: it returns ANY non-empty prefix of what was asked for, and nothing only at end of data.  Everything proved
# below therefore holds for every way the stream splits its data into chunks.
STRINGS = "abstract"
exc("tarfile.ReadError", base="Exception")
exc("ReadError", base="Exception")

cls("StreamWrapper", data=Bytes, cur=Int, written=Bytes)  # ghost: the bytes behind the stream, the read cursor, what was written
cls("BaseStreamWrapper", bases=["StreamWrapper"], stream=StreamWrapper)
cls("TellableStreamWrapper", bases=["BaseStreamWrapper"], position=Int)
cls("SeekableStreamReaderWrapper", bases=["TellableStreamWrapper"])


@pure
def wf_stream(s: StreamWrapper) -> Bool:
    return 0 <= s.cur and s.cur <= len(s.data)


@extern("StreamWrapper.read", final=True)
def _(self: StreamWrapper, size: Opt[Int] = None) -> Bytes:
    """CHUNKING CONTRACT (the environment of C23): any non-empty chunk up to the requested size; empty only at end of data"""
    requires(wf_stream(self))
    assigns(self.cur)
    ensures(wf_stream(self) and self.cur == old(self.cur) + len(result))
    ensures(implies(old(self.cur) == len(self.data), len(result) == 0))
    ensures(implies(old(self.cur) < len(self.data) and (size is None or size > 0), len(result) >= 1))
    ensures(implies(size is not None, len(result) <= size or size < 0))
    ensures(forall(range(0, len(result)), lambda j: result[j] == self.data[old(self.cur) + j]))


@extern("StreamWrapper.write", final=True)
def _(self: StreamWrapper, data: Bytes):
    assigns(self.written)
    ensures(self.written == old(self.written) + data)


# ---- TellableStreamWrapper: position mirrors the underlying cursor ----------------------------------------------------
@contract("streamflow/deployment/aiotarstream.py", "TellableStreamWrapper.read")
def _(self: TellableStreamWrapper, size: Int) -> Bytes:
    note("verified for an integer size (the only way the tar reader calls it); size=None (read to the end) is not covered")
    requires(wf_stream(self.stream) and self.position == self.stream.cur and size >= 0)
    assigns(self.position, self.stream.cur)
    # exactly the requested number of bytes, or everything that is left: never a short block in the middle of the data
    ensures(len(result) == min(size, len(self.stream.data) - old(self.stream.cur)))
    ensures(forall(range(0, len(result)), lambda j: result[j] == self.stream.data[old(self.stream.cur) + j]))
    ensures(self.position == old(self.position) + len(result) and self.position == self.stream.cur and wf_stream(self.stream))
    invariant(0, wf_stream(self.stream) and self.stream.cur == old(self.stream.cur) + len(buf) and size == old(size) - len(buf) and size >= 0)
    invariant(0, forall(range(0, len(buf)), lambda j: buf[j] == self.stream.data[old(self.stream.cur) + j]))
    invariant(0, self.position == old(self.position))
    decreases(0, size)


@contract("streamflow/deployment/aiotarstream.py", "TellableStreamWrapper.write")
def _(self: TellableStreamWrapper, data: Bytes):
    assigns(self.position, self.stream.written)
    ensures(self.stream.written == old(self.stream.written) + data and self.position == old(self.position) + len(data))


@contract("streamflow/deployment/aiotarstream.py", "SeekableStreamReaderWrapper.seek")
def _(self: SeekableStreamReaderWrapper, offset: Int):
    requires(wf_stream(self.stream) and self.position == self.stream.cur)
    assigns(self.position, self.stream.cur)
    raises(tarfile.ReadError, when=offset < self.position or offset > len(self.stream.data),
           ensures=implies(offset < old(self.position), self.position == old(self.position) and self.stream.cur == old(self.stream.cur)))
    # after a seek the wrapper and the underlying stream agree on where they are — for every chunking of the skipped bytes
    ensures(self.position == offset and self.stream.cur == offset and wf_stream(self.stream))


# ---- block copy --------------------------------------------------------------------------------------------------------
@contract("streamflow/deployment/aiotarstream.py", "write")
def _(src: StreamWrapper, dst: StreamWrapper, bufsize: Int):
    requires(wf_stream(src) and src is not dst and bufsize >= 0)
    assigns(src.cur, dst.written)
    # copies exactly bufsize bytes, or fails: a truncated source is an error, not a partial copy and not a hang
    raises(tarfile.ReadError, when=bufsize > len(src.data) - src.cur)
    ensures(src.cur == old(src.cur) + max(bufsize, 0) and wf_stream(src))
    ensures(len(dst.written) == old(len(dst.written)) + max(bufsize, 0))
    ensures(forall(range(0, max(bufsize, 0)), lambda j: dst.written[old(len(dst.written)) + j] == src.data[old(src.cur) + j]))
    ensures(forall(range(0, old(len(dst.written))), lambda j: dst.written[j] == old(dst.written[j])))
    invariant(0, wf_stream(src) and bufsize >= 0 and src.cur >= old(src.cur) and src.cur - old(src.cur) == old(bufsize) - bufsize and len(dst.written) == old(len(dst.written)) + (src.cur - old(src.cur)))
    invariant(0, forall(range(0, src.cur - old(src.cur)), lambda j: dst.written[old(len(dst.written)) + j] == src.data[old(src.cur) + j]))
    invariant(0, forall(range(0, old(len(dst.written))), lambda j: dst.written[j] == old(dst.written[j])))
    decreases(0, bufsize)


@contract("streamflow/deployment/aiotarstream.py", "copyfileobj")
def _(src: StreamWrapper, dst: StreamWrapper, length: Int, bufsize: Opt[Int] = None):
    note("verified for an integer length (tar members); length=None delegates to shutil.copyfileobj and is not covered")
    requires(wf_stream(src) and src is not dst and length >= 0 and (bufsize is None or bufsize >= 0))
    assigns(src.cur, dst.written)
    raises(tarfile.ReadError, when=length > len(src.data) - src.cur, strict=False)
    # exactly `length` bytes, for every buffer size (the remainder block included)
    ensures(src.cur == old(src.cur) + length and len(dst.written) == old(len(dst.written)) + length)
    ensures(forall(range(0, length), lambda j: dst.written[old(len(dst.written)) + j] == src.data[old(src.cur) + j]))
    invariant(0, wf_stream(src) and src.cur == old(src.cur) + i * bufsize and len(dst.written) == old(len(dst.written)) + i * bufsize, index="i")
    invariant(0, forall(range(0, i * bufsize), lambda j: dst.written[old(len(dst.written)) + j] == src.data[old(src.cur) + j]))
    invariant(0, bufsize >= 1 and blocks * bufsize + remainder == length and 0 <= remainder and remainder < bufsize and blocks >= 0)


# ---- reading one member's data ------------------------------------------------------------------------------------------
cls("FileStreamReaderWrapper", bases=["StreamWrapper"], stream=SeekableStreamReaderWrapper, size=Int, offset=Int, position=Int,
    map=List[Tuple[Bool, Int, Int, Opt[Int]]], map_index=Int)
const("tarfile.NUL", Bytes)


@pure
def plain_member(f: FileStreamReaderWrapper) -> Bool:
    # a non-sparse member: one data block covering the whole member (what FileStreamReaderWrapper.__init__ builds without blockinfo)
    return (len(f.map) == 1 and f.map[0][0] and f.map[0][1] == 0 and f.map[0][2] == f.size and f.map[0][3] is not None and f.map[0][3] == f.offset
            and f.map_index == 0 and 0 <= f.position and f.position <= f.size and f.offset >= 0)


@contract("streamflow/deployment/aiotarstream.py", "FileStreamReaderWrapper.read")
def _(self: FileStreamReaderWrapper, size: Opt[Int] = None) -> Bytes:
    requires(plain_member(self) and (size is None or size >= 0))
    requires(wf_stream(self.stream.stream) and self.stream.position == self.stream.stream.cur and self.stream.position <= self.offset + self.position)
    assigns(self.position, self.map_index, self.stream.position, self.stream.stream.cur)
    ghost("want", min(size, self.size - self.position) if size is not None else self.size - self.position)
    # a member whose data ends early is an error — never a short block without error
    raises(tarfile.ReadError, when=self.position < self.size and self.offset + self.position + want > len(self.stream.stream.data))
    ensures(len(result) == want)
    ensures(forall(range(0, want), lambda j: result[j] == self.stream.stream.data[self.offset + old(self.position) + j]))
    ensures(self.position == old(self.position) + want)
    ensures(implies(want > 0, self.stream.position == self.stream.stream.cur and self.stream.position == self.offset + self.position))
    invariant(0, self.map_index == 0 and self.position == old(self.position))
