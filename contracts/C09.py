# C09 (fragment) — every cached getter and the update that invalidates it use the same row cache, keyed by the row id
# The caches are modelled as dicts id -> row (cachebox.LRUCache with an unbounded size; the default key of cachebox.cached for one
# int argument is the argument itself, `self` excluded — cachebox 6.2 utils.make_key / _wrappers, read from its sources).
STRINGS = "abstract"

cls("Db")
cls("Stmt")
cls("Cursor")
cls("SqliteConnection")
cls("SqliteDatabase", connection=SqliteConnection,
    deployment_cache=Dict[Int, Val], port_cache=Dict[Int, Val], step_cache=Dict[Int, Val], target_cache=Dict[Int, Val],
    filter_cache=Dict[Int, Val], token_cache=Dict[Int, Val], workflow_cache=Dict[Int, Val])


@extern("SqliteConnection.__aenter__")
def _(self: SqliteConnection) -> Db: ...


@extern("Db.execute", ignore_args="all")
def _(self: Db) -> Stmt:
    """runs the SQL statement (the UPDATE of the row `id` of the table named in the method) — trusted, its text is not analysed"""


@extern("Stmt.__aenter__")
def _(self: Stmt) -> Cursor: ...


@pure
def only_dropped(before: Dict[Int, Val], after: Dict[Int, Val], k: Int) -> Bool:
    # exactly the entry k is gone; every other entry is as it was
    return k not in after and forall(Int, lambda j: implies(j != k, (j in after) == (j in before) and implies(j in before, after[j] == before[j])))


@contract("streamflow/persistence/sqlite.py", "SqliteDatabase.update_deployment")
def _(self: SqliteDatabase, deployment_id: Int, updates: Dict[Str, Val]) -> Int:
    assigns(self.deployment_cache)
    ensures(result == deployment_id and only_dropped(old(self.deployment_cache), self.deployment_cache, deployment_id))


@contract("streamflow/persistence/sqlite.py", "SqliteDatabase.update_filter")
def _(self: SqliteDatabase, filter_id: Int, updates: Dict[Str, Val]) -> Int:
    assigns(self.filter_cache)
    ensures(result == filter_id and only_dropped(old(self.filter_cache), self.filter_cache, filter_id))


@contract("streamflow/persistence/sqlite.py", "SqliteDatabase.update_port")
def _(self: SqliteDatabase, port_id: Int, updates: Dict[Str, Val]) -> Int:
    assigns(self.port_cache)
    ensures(result == port_id and only_dropped(old(self.port_cache), self.port_cache, port_id))


@contract("streamflow/persistence/sqlite.py", "SqliteDatabase.update_step")
def _(self: SqliteDatabase, step_id: Int, updates: Dict[Str, Val]) -> Int:
    assigns(self.step_cache)
    ensures(result == step_id and only_dropped(old(self.step_cache), self.step_cache, step_id))


@contract("streamflow/persistence/sqlite.py", "SqliteDatabase.update_target")
def _(self: SqliteDatabase, target_id: Int, updates: Dict[Str, Val]) -> Int:
    assigns(self.target_cache)
    ensures(result == target_id and only_dropped(old(self.target_cache), self.target_cache, target_id))


@contract("streamflow/persistence/sqlite.py", "SqliteDatabase.update_workflow")
def _(self: SqliteDatabase, workflow_id: Int, updates: Dict[Str, Val]) -> Int:
    assigns(self.workflow_cache)
    ensures(result == workflow_id and only_dropped(old(self.workflow_cache), self.workflow_cache, workflow_id))


@contract("streamflow/persistence/sqlite.py", "SqliteDatabase.update_execution")
def _(self: SqliteDatabase, execution_id: Int, updates: Dict[Str, Val]) -> Int:
    # executions are not cached: no cache is touched
    assigns()
    ensures(result == execution_id)


# ---- the getters: which cache the decorator names, and that returned rows are deep copies -------------------------------------
@contract("streamflow/persistence/sqlite.py", "SqliteDatabase.get_deployment", stmt="decorator:cached")
def _(self: SqliteDatabase):
    ensures(implies(decorated, identical(cache, self.deployment_cache) and postprocess == "postprocess_deepcopy_mutables"))


@contract("streamflow/persistence/sqlite.py", "SqliteDatabase.get_filter", stmt="decorator:cached")
def _(self: SqliteDatabase):
    ensures(implies(decorated, identical(cache, self.filter_cache) and postprocess == "postprocess_deepcopy_mutables"))


@contract("streamflow/persistence/sqlite.py", "SqliteDatabase.get_port", stmt="decorator:cached")
def _(self: SqliteDatabase):
    ensures(implies(decorated, identical(cache, self.port_cache) and postprocess == "postprocess_deepcopy_mutables"))


@contract("streamflow/persistence/sqlite.py", "SqliteDatabase.get_step", stmt="decorator:cached")
def _(self: SqliteDatabase):
    ensures(implies(decorated, identical(cache, self.step_cache) and postprocess == "postprocess_deepcopy_mutables"))


@contract("streamflow/persistence/sqlite.py", "SqliteDatabase.get_target", stmt="decorator:cached")
def _(self: SqliteDatabase):
    ensures(implies(decorated, identical(cache, self.target_cache) and postprocess == "postprocess_deepcopy_mutables"))


@contract("streamflow/persistence/sqlite.py", "SqliteDatabase.get_token", stmt="decorator:cached")
def _(self: SqliteDatabase):
    ensures(implies(decorated, identical(cache, self.token_cache) and postprocess == "postprocess_deepcopy_mutables"))
