# C08 (fragment, fifth module) — the hardware requirement of a CWL schedule step: what _save_additional_params writes is what _load
# hands back to the constructor, resource by resource — ZERO and the values that equal a constructor default included.
# Resources are numbers or expression strings: modelled as abstract JSON values (Val); the saved params as a RECORD class
# (key k <-> field k, Opt = optional key).
STRINGS = "abstract"
OPTIONS = {"dict_literal_class": ["HwParams"]}
excs_from("streamflow/core/exception.py")

cls("Database")
cls("LoadingContext")
cls("CWLHardwareRequirement", cores=Val, memory=Val, tmpdir=Val, outdir=Val, full_js=Bool, expression_lib=Opt[List[Str]])
cls("HwParams", record=True, cores=Opt[Val], memory=Opt[Val], tmpdir=Opt[Val], outdir=Opt[Val], full_js=Opt[Bool], expression_lib=Opt[Opt[List[Str]]])


@contract("streamflow/cwl/hardware.py", "CWLHardwareRequirement.__init__")
def _(self: CWLHardwareRequirement, cwl_version: Str, cores: Opt[Val] = None, memory: Opt[Val] = None, tmpdir: Opt[Val] = None,
      outdir: Opt[Val] = None, full_js: Bool = False, expression_lib: Opt[List[Str]] = None):
    assigns(self.cores, self.memory, self.tmpdir, self.outdir, self.full_js, self.expression_lib)
    # a resource that is GIVEN is kept as given, whatever its value (0 is a value, not "unset")
    ensures(implies(cores is not None, self.cores == cores) and implies(memory is not None, self.memory == memory))
    ensures(implies(tmpdir is not None, self.tmpdir == tmpdir) and implies(outdir is not None, self.outdir == outdir))
    ensures(self.full_js == full_js and self.expression_lib == expression_lib)


@contract("streamflow/cwl/hardware.py", "CWLHardwareRequirement._save_additional_params")
def _(self: CWLHardwareRequirement, database: Database) -> HwParams:
    assigns()
    # every resource is written, under its own key, with the requirement's own value
    ensures("cores" in result and result["cores"] == self.cores and "memory" in result and result["memory"] == self.memory)
    ensures("tmpdir" in result and result["tmpdir"] == self.tmpdir and "outdir" in result and result["outdir"] == self.outdir)
    ensures("full_js" in result and result["full_js"] == self.full_js)
    ensures("expression_lib" in result and result["expression_lib"] == self.expression_lib)


@contract("streamflow/cwl/hardware.py", "CWLHardwareRequirement._load", cls="CWLHardwareRequirement")
def _(row: HwParams, loading_context: LoadingContext) -> CWLHardwareRequirement:
    requires("cores" in row and "memory" in row and "tmpdir" in row and "outdir" in row and "full_js" in row and "expression_lib" in row)
    ensures(fresh(result))
    ensures(result.cores == row["cores"] and result.memory == row["memory"] and result.tmpdir == row["tmpdir"] and result.outdir == row["outdir"])
    ensures(result.full_js == row["full_js"] and result.expression_lib == row["expression_lib"])


@lemma
def hardware_requirement_round_trip(h: CWLHardwareRequirement, db: Database, ctx: LoadingContext):
    """save then load: the same six attributes"""
    p = CWLHardwareRequirement._save_additional_params(h, db)
    g = CWLHardwareRequirement._load(p, ctx)
    ensures(g.cores == h.cores and g.memory == h.memory and g.tmpdir == h.tmpdir and g.outdir == h.outdir)
    ensures(g.full_js == h.full_js and g.expression_lib == h.expression_lib)
