# C24 (fragment) — the shell command of every remote path operation names the path only as ONE quoted shell word
# Strings are abstract.  q(x) is shlex.quote(x): the one shell word that a POSIX shell expands to exactly x (A-SHLEX / A-SH, validated
# against /bin/sh by harness/C25.py).  The connector joins the command list with blanks and hands it to `sh -c`; so "agrees with the
# local filesystem for any path name" needs, structurally, that the path text (and a link target) enters the list only as q(text).
STRINGS = "abstract"
OPTIONS = {"format_specs": {"o": "octal"}}
excs_from("streamflow/core/exception.py")


@spec
def q(s: Str) -> Str:
    """shlex.quote"""


@spec
def octal(mode: Int) -> Str:
    """f"{mode:o}" """


@extern("shlex.quote", pure=True)
def _(s: Str) -> Str:
    ensures(result == q(s))


cls("ExecutionLocation")
cls("CmdLog", cmds=List[List[Str]])  # ghost: the command lists handed to Connector.run by the method under verification itself
const("LOG", CmdLog)
cls("Connector", transferBufferSize=Int)
cls("StreamFlowPath")
enum("DataType", PRIMARY=0, SYMBOLIC_LINK=1, INVALID=2)
cls("Event")
cls("DataLocation", data_type=Int, path=Str, available=Event)
cls("DataManager")
cls("Context", data_manager=DataManager)
cls("RemoteStreamFlowPath", bases=["StreamFlowPath"], connector=Connector, location=ExecutionLocation, text=Str, context=Context)


@extern("RemoteStreamFlowPath.__str__")
def _(self: RemoteStreamFlowPath) -> Str:
    ensures(result == self.text)


@extern("RemoteStreamFlowPath._get_inner_path")
def _(self: RemoteStreamFlowPath) -> StreamFlowPath:
    """the innermost path through the mount points of wrapped locations (or self)"""


@extern("StreamFlowPath.checksum", final=True)
def _(self: StreamFlowPath) -> Opt[Str]: ...


@extern("StreamFlowPath.chmod", final=True)
def _(self: StreamFlowPath, mode: Int, follow_symlinks: Bool = True): ...


@extern("StreamFlowPath.exists", final=True)
def _(self: StreamFlowPath) -> Bool: ...


@extern("StreamFlowPath.is_dir", final=True)
def _(self: StreamFlowPath) -> Bool: ...


@extern("StreamFlowPath.is_executable", final=True)
def _(self: StreamFlowPath) -> Bool: ...


@extern("StreamFlowPath.is_file", final=True)
def _(self: StreamFlowPath) -> Bool: ...


@extern("StreamFlowPath.mkdir", final=True)
def _(self: StreamFlowPath, mode: Int = 511, parents: Bool = False, exist_ok: Bool = False): ...


@extern("StreamFlowPath.read_text", final=True)
def _(self: StreamFlowPath, n: Int = -1, encoding: Opt[Str] = None, errors: Opt[Str] = None) -> Str: ...


@extern("StreamFlowPath.rmtree", final=True)
def _(self: StreamFlowPath): ...


@extern("StreamFlowPath.size", final=True)
def _(self: StreamFlowPath) -> Int: ...


@extern("StreamFlowPath.symlink_to", final=True)
def _(self: StreamFlowPath, target: Str, target_is_directory: Bool = False): ...


@extern("StreamFlowPath.hardlink_to", final=True)
def _(self: StreamFlowPath, target: Str): ...


@extern("Connector.run")
def _(self: Connector, location: ExecutionLocation, command: List[Str], capture_output: Bool = False) -> Tuple[Str, Int]:
    """runs " ".join(command) through `sh -c` on the location; the ghost log records the command lists"""
    assigns(LOG.cmds)
    ensures(LOG.cmds == old(LOG.cmds) + [command])


@extern("_check_status")
def _(command: List[Str], location: ExecutionLocation, result: Str, status: Int):
    raises(WorkflowExecutionException, when=status != 0)


@pure
def ran(before: List[List[Str]], command: List[Str]) -> Bool:
    # either the operation was delegated to the inner path (whose own contract speaks for it; nothing is run here), or exactly this
    # command was run on the location
    return LOG.cmds == before or LOG.cmds == before + [command]


@contract("streamflow/data/remotepath.py", "RemoteStreamFlowPath._test")
def _(self: RemoteStreamFlowPath, command: List[Str]) -> Bool:
    assigns(LOG.cmds)
    raises(WorkflowExecutionException)
    ensures(LOG.cmds == old(LOG.cmds) + [["test"] + command])


@contract("streamflow/data/remotepath.py", "RemoteStreamFlowPath.exists")
def _(self: RemoteStreamFlowPath) -> Bool:
    assigns(LOG.cmds)
    raises(WorkflowExecutionException)
    ensures(ran(old(LOG.cmds), ["test", "-e", q(self.text)]))


@contract("streamflow/data/remotepath.py", "RemoteStreamFlowPath.is_dir")
def _(self: RemoteStreamFlowPath) -> Bool:
    assigns(LOG.cmds)
    raises(WorkflowExecutionException)
    ensures(ran(old(LOG.cmds), ["test", "-d", q(self.text)]))


@contract("streamflow/data/remotepath.py", "RemoteStreamFlowPath.is_file")
def _(self: RemoteStreamFlowPath) -> Bool:
    assigns(LOG.cmds)
    raises(WorkflowExecutionException)
    ensures(ran(old(LOG.cmds), ["test", "-f", q(self.text)]))


@contract("streamflow/data/remotepath.py", "RemoteStreamFlowPath.is_executable")
def _(self: RemoteStreamFlowPath) -> Bool:
    assigns(LOG.cmds)
    raises(WorkflowExecutionException)
    ensures(ran(old(LOG.cmds), ["test", "-x", q(self.text)]))


@contract("streamflow/data/remotepath.py", "RemoteStreamFlowPath.is_symlink")
def _(self: RemoteStreamFlowPath) -> Bool:
    assigns(LOG.cmds)
    raises(WorkflowExecutionException)
    ensures(ran(old(LOG.cmds), ["test", "-L", q(self.text)]))


@contract("streamflow/data/remotepath.py", "RemoteStreamFlowPath.checksum")
def _(self: RemoteStreamFlowPath) -> Opt[Str]:
    assigns(LOG.cmds)
    raises(WorkflowExecutionException)
    # (the file is read from standard input: sha1sum escapes odd file names in its output line)
    ensures(ran(old(LOG.cmds), ["test", "-f", q(self.text), "&&", "sha1sum", "<", q(self.text), "|", "awk", "'{print $1}'"]))


@contract("streamflow/data/remotepath.py", "RemoteStreamFlowPath.chmod")
def _(self: RemoteStreamFlowPath, mode: Int, follow_symlinks: Bool = True):
    assigns(LOG.cmds)
    raises(WorkflowExecutionException)
    ensures(ran(old(LOG.cmds), (["chmod"] if follow_symlinks else ["chmod", "-h"]) + [octal(mode), q(self.text)]))


@contract("streamflow/data/remotepath.py", "RemoteStreamFlowPath.mkdir")
def _(self: RemoteStreamFlowPath, mode: Int = 511, parents: Bool = False, exist_ok: Bool = False):
    assigns(LOG.cmds)
    raises(WorkflowExecutionException)
    # `-p` both for parents=True and for exist_ok=True (mkdir -p does not fail on an existing directory)
    ensures(ran(old(LOG.cmds), ["mkdir", "-m", octal(mode)] + (["-p"] if parents or exist_ok else []) + [q(self.text)]))


@contract("streamflow/data/remotepath.py", "RemoteStreamFlowPath.read_text")
def _(self: RemoteStreamFlowPath, n: Int = -1, encoding: Opt[Str] = None, errors: Opt[Str] = None) -> Str:
    assigns(LOG.cmds)
    raises(WorkflowExecutionException)
    ensures(ran(old(LOG.cmds), (["head", "-c", str(n)] if n >= 0 else ["cat"]) + [q(self.text)]))


@contract("streamflow/data/remotepath.py", "RemoteStreamFlowPath.rmtree")
def _(self: RemoteStreamFlowPath):
    assigns(LOG.cmds)
    raises(WorkflowExecutionException)
    ensures(ran(old(LOG.cmds), ["rm", "-rf", q(self.text)]))


@contract("streamflow/data/remotepath.py", "RemoteStreamFlowPath.size")
def _(self: RemoteStreamFlowPath) -> Int:
    assigns(LOG.cmds)
    raises(WorkflowExecutionException)
    raises(ValueError)  # int() after str.isdigit(): not excluded here for non-ASCII digits in the command output (awk prints ASCII)
    ensures(ran(old(LOG.cmds), ["".join(["find -L ", q(self.text), " -type f -exec ls -ln {} \\+ | ", "awk 'BEGIN {sum=0} {sum+=$5} END {print sum}'; "])]))


@contract("streamflow/data/remotepath.py", "RemoteStreamFlowPath.symlink_to")
def _(self: RemoteStreamFlowPath, target: Str, target_is_directory: Bool = False):
    assigns(LOG.cmds)
    raises(WorkflowExecutionException)
    ensures(ran(old(LOG.cmds), ["ln", "-snf", "--", q(target), q(self.text)]))


@contract("streamflow/data/remotepath.py", "RemoteStreamFlowPath.hardlink_to")
def _(self: RemoteStreamFlowPath, target: Str):
    assigns(LOG.cmds)
    raises(WorkflowExecutionException)
    ensures(ran(old(LOG.cmds), ["ln", "-nf", "--", q(target), q(self.text)]))



# ---- resolve: the registry first, then `readlink -f` on the quoted path --------------------------------------------------------
@extern("Event.wait")
def _(self: Event): ...


@extern("DataManager.get_data_locations", ignore_args="all")
def _(self: DataManager) -> List[DataLocation]: ...


@extern("RemoteStreamFlowPath.with_segments", ignore_args="all")
def _(self: RemoteStreamFlowPath) -> RemoteStreamFlowPath: ...


@contract("streamflow/data/remotepath.py", "RemoteStreamFlowPath.resolve")
def _(self: RemoteStreamFlowPath, strict: Bool = False) -> Opt[RemoteStreamFlowPath]:
    assigns(LOG.cmds)
    raises(WorkflowExecutionException)
    # either a registered primary copy answers, or the location is asked with the path as one quoted word (twice)
    ensures(ran(old(LOG.cmds), ["test", "-e", q(self.text), "&&", "readlink", "-f", q(self.text)]))


# ---- write_text: the file is written by `tee <quoted path>` fed through the connector's stream writer --------------------------------
cls("Writer")
cls("Reader")


@extern("StreamFlowPath.write_text", final=True, ignore_args="all")
def _(self: StreamFlowPath) -> Int: ...


@extern("Connector.get_stream_writer")
def _(self: Connector, command: List[Str], location: ExecutionLocation) -> Writer:
    assigns(LOG.cmds)
    ensures(LOG.cmds == old(LOG.cmds) + [command])


@extern("Writer.__aenter__")
def _(self: Writer) -> Writer:
    ensures(result is self)


@extern("Writer.write", ignore_args="all")
def _(self: Writer): ...


@extern("io.BytesIO", ignore_args="all")
def _() -> Reader: ...


@extern("Reader.read", ignore_args="all")
def _(self: Reader) -> Bytes: ...


@extern("Reader.close")
def _(self: Reader): ...


@contract("streamflow/data/remotepath.py", "RemoteStreamFlowPath.write_text")
def _(self: RemoteStreamFlowPath, data: Str) -> Int:
    assigns(LOG.cmds)
    raises(WorkflowExecutionException)
    ensures(ran(old(LOG.cmds), ["tee", q(self.text), ">", "/dev/null"]))
