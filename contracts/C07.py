# C07 (fragment) — a persisted token is linked to exactly the input ids it was given, and only to tokens persisted before it
STRINGS = "abstract"
excs_from("streamflow/core/exception.py")

cls("DbState", next=Int, prov=Dict[Int, Set[Int]])  # ghost: the next row id of the token table; depender id -> set of dependee ids
const("DB", DbState)
cls("Database")
cls("Context", database=Database)
cls("Workflow", context=Context)
cls("Port", persistent_id=Opt[Int])
cls("Token", persistent_id=Opt[Int])
cls("BaseStep", name=Str, workflow=Workflow)
cls("Db")
cls("Stmt")
cls("Cursor")
cls("SqliteConnection")
cls("RowLog", rows=List[Tuple[Int, Int]])  # ghost: the (dependee, depender) rows handed to executemany
const("ROWS", RowLog)
cls("SqliteDatabase", connection=SqliteConnection)


@extern("Token.save")
def _(self: Token, database: Database, port_id: Opt[Int] = None):
    """INSERT into the token table: the new row id is larger than every id handed out before (AUTOINCREMENT)"""
    requires(self.persistent_id is None or self.persistent_id == 0)
    assigns(self.persistent_id, DB.next)
    ensures(self.persistent_id == old(DB.next) and DB.next == old(DB.next) + 1)


@extern("Database.add_provenance")
def _(self: Database, inputs: List[Opt[Int]], token: Opt[Int]):
    requires(token is not None and forall(inputs, lambda i: i is not None))
    assigns(DB.prov)
    ensures(token in DB.prov and forall(Int, lambda d: (d in DB.prov[token]) == ((old(token in DB.prov) and d in old(DB.prov)[token]) or exists(inputs, lambda i: i == d))))
    ensures(forall(Int, lambda t: implies(t != token, (t in DB.prov) == old(t in DB.prov) and implies(t in DB.prov, DB.prov[t] == old(DB.prov)[t]))))


@pure
def ordered() -> Bool:
    # every recorded dependee was persisted before its depender (so the provenance relation has no cycle: it is contained in <)
    return forall(DB.prov, lambda t: t < DB.next and forall(Int, lambda d: implies(d in DB.prov[t], d < t)))


@contract("streamflow/workflow/step.py", "BaseStep._persist_token")
def _(self: BaseStep, token: Token, port: Port, input_token_ids: List[Opt[Int]]) -> Token:
    requires(ordered() and DB.next > 0)
    # the inputs were persisted earlier (their ids were handed out before)
    requires(forall(input_token_ids, lambda i: i is None or (0 < i and i < DB.next)))
    assigns(token.persistent_id, DB.next, DB.prov)
    # a token is persisted once
    raises(WorkflowDefinitionException, when=token.persistent_id is not None and token.persistent_id != 0, strict=True)
    # an unpersisted input cannot be linked: this is an error, never a silently shorter record
    raises(WorkflowExecutionException, when=exists(input_token_ids, lambda i: i is None), strict=True)
    ensures(result is token and token.persistent_id == old(DB.next))
    # linked to exactly the given ids ...
    ensures(implies(len(input_token_ids) > 0, token.persistent_id in DB.prov and forall(Int, lambda d: (d in DB.prov[token.persistent_id]) == exists(input_token_ids, lambda i: i == d))))
    ensures(implies(len(input_token_ids) == 0, DB.prov == old(DB.prov)))
    # ... nothing else in the record changes, and dependees still precede their dependers
    ensures(forall(Int, lambda t: implies(t != token.persistent_id, (t in DB.prov) == old(t in DB.prov) and implies(t in DB.prov, DB.prov[t] == old(DB.prov)[t]))))
    ensures(ordered())


@contract("streamflow/core/utils.py", "get_entity_ids")
def _(persistable_entities: Opt[List[Token]]) -> List[Opt[Int]]:
    # exactly the ids of the persisted ones (an unpersisted entity contributes nothing — its absence is what _persist_token's callers
    # have to make sure of)
    ensures(forall(result, lambda i: i is not None and i != 0 and exists(persistable_entities or [], lambda pe: pe.persistent_id == i)))
    ensures(forall(persistable_entities or [], lambda pe: implies(pe.persistent_id is not None and pe.persistent_id != 0, pe.persistent_id in result)))


@extern("SqliteConnection.__aenter__")
def _(self: SqliteConnection) -> Db: ...


@extern("Db.executemany")
def _(self: Db, sql: Str, rows: List[Tuple[Int, Int]]) -> Stmt:
    assigns(ROWS.rows)
    ensures(ROWS.rows == old(ROWS.rows) + rows)


@extern("Stmt.__aenter__")
def _(self: Stmt) -> Cursor: ...


@contract("streamflow/persistence/sqlite.py", "SqliteDatabase.add_provenance")
def _(self: SqliteDatabase, inputs: List[Int], token: Int):
    assigns(ROWS.rows)
    # one row per input id, all of them, each paired with the depender
    ensures(ROWS.rows == old(ROWS.rows) + [(i, token) for i in inputs])
