# C25 — Commands run exactly once with verbatim arguments, environment and output
# Strings are abstract.  q(x) is shlex.quote(x): the one shell word that a POSIX shell expands to exactly x (A-SHLEX/A-SH,
# validated against /bin/sh by harness/C25.py).  "Verbatim" is therefore the structural obligation that every user-supplied
# value (environment value, working directory, redirection target) enters the command text only as q(value).
STRINGS = "abstract"
excs_from("streamflow/core/exception.py")
const("asyncio.subprocess.DEVNULL", Val)
const("asyncio.subprocess.STDOUT", Val)
const("asyncio.subprocess.PIPE", Val)
const("logging.DEBUG", Int)


@spec
def q(s: Str) -> Str:
    """shlex.quote"""


@extern("shlex.quote", pure=True)
def _(s: Str) -> Str:
    ensures(result == q(s))


@extern("logger.isEnabledFor")
def _(level: Int) -> Bool: ...


@axiom("A-CONSTS")
def stream_constants_distinct():
    return (asyncio.subprocess.DEVNULL != asyncio.subprocess.STDOUT and asyncio.subprocess.DEVNULL != asyncio.subprocess.PIPE
            and asyncio.subprocess.STDOUT != asyncio.subprocess.PIPE
            # they are ints, never equal to a string
            and forall(Str, lambda s: s != asyncio.subprocess.DEVNULL and s != asyncio.subprocess.STDOUT and s != asyncio.subprocess.PIPE))


# ---- command text for a fresh process --------------------------------------------------------------------------------------
@contract("streamflow/core/utils.py", "create_command")
def _(class_name: Str, command: List[Str], environment: Opt[ODict[Str, Str]] = None, workdir: Opt[Str] = None, stdin: Val = None,
      stdout: Val = asyncio.subprocess.STDOUT, stderr: Val = asyncio.subprocess.STDOUT) -> Str:
    requires(stdin is None and stdout == asyncio.subprocess.STDOUT and stderr == asyncio.subprocess.STDOUT)
    note("verified for the default stdin/stdout/stderr (no redirection): the redirection operands are already passed through shlex.quote in the code")
    # the working directory and every environment value enter the command text as ONE quoted shell word: no shell interpretation,
    # for any string
    ensures(result == ("cd " + q(workdir) + " && " if workdir is not None else "")
            + ("".join(["export " + k + "=" + q(v) + " && " for (k, v) in environment.items()]) if environment is not None else "")
            + " ".join(command) + " 2>&1")  # (stderr defaults to "same as stdout")


# ---- command text for the persistent shell ------------------------------------------------------------------------------------
@pure
def marker_line(end_marker: Str) -> Str:
    return '\necho "' + end_marker + ':$?"\n'


@pure
def has_env_or_dir(environment: Opt[ODict[Str, Str]], workdir: Opt[Str]) -> Bool:
    return (environment is not None and len(environment) > 0) or (workdir is not None and workdir != "")


@pure
def off(workdir: Opt[Str]) -> Int:
    return 1 if (workdir is not None and workdir != "") else 0


@contract("streamflow/deployment/shell.py", "_build_shell_command")
def _(end_marker: Str, command: List[Str], shell_class: Str, shell_cmd: List[Str], environment: Opt[ODict[Str, Str]] = None, workdir: Opt[Str] = None) -> Str:
    local("subshell_parts", List[Str])
    # without environment and working directory: the command, then the end marker with the exit status
    ensures(implies(not has_env_or_dir(environment, workdir), result == " ".join(command) + " 2>&1" + marker_line(end_marker)))
    # otherwise the command runs in a CHILD `sh -c <one quoted word>` (nothing leaks into the long-lived shell), the directory and
    # every environment value entering as quoted words
    hint("exit", let(parts=final("subshell_parts", [""])))
    ensures(implies(has_env_or_dir(environment, workdir),
                    result == "sh -c " + q("; ".join(parts)) + " 2>&1" + marker_line(end_marker)
                    and len(parts) == off(workdir) + (len(environment) if environment is not None else 0) + 1
                    and implies(off(workdir) == 1, parts[0] == "cd " + q(workdir))
                    and parts[len(parts) - 1] == " ".join(command)
                    and implies(environment is not None, forall(range(0, len(environment)), lambda j:
                        parts[off(workdir) + j] == "export " + list(environment.keys())[j] + "=" + q(environment[list(environment.keys())[j]])))))
    invariant(0, len(subshell_parts) == off(workdir) + i and implies(off(workdir) == 1, subshell_parts[0] == "cd " + q(workdir)), index="i")
    invariant(0, forall(range(0, i), lambda j: subshell_parts[off(workdir) + j] == "export " + list(environment.keys())[j] + "=" + q(environment[list(environment.keys())[j]])))


# ---- exactly once: which executor gets the command ------------------------------------------------------------------------------
cls("ExecLog", n=Int)  # ghost: how many times the command text was handed to an executor (persistent shell or fresh process)
cls("Shell")
cls("ExecutionLocation")
cls("BaseConnector")
const("EXEC", ExecLog)


@extern("BaseConnector.get_shell")
def _(self: BaseConnector, command: List[Str], location: ExecutionLocation) -> Shell: ...


@extern("utils.run_in_shell")
def _(shell: Shell, location: ExecutionLocation, command: List[Str], environment: Opt[ODict[Str, Str]] = None, workdir: Opt[Str] = None,
      capture_output: Bool = False, timeout: Opt[Int] = None) -> Opt[Tuple[Str, Int]]:
    """the persistent shell: runs the command and returns; or fails BEFORE running it (shell already dead); or fails AFTER having
    started it (timeout waiting for its output, broken pipe, unparsable status) — all three as WorkflowExecutionException"""
    assigns(EXEC.n)
    ensures(EXEC.n == old(EXEC.n) + 1)
    raises(WorkflowExecutionException, ensures=EXEC.n == old(EXEC.n))
    raises(WorkflowExecutionException, ensures=EXEC.n == old(EXEC.n) + 1)


@extern("utils.create_command")
def _(class_name: Str, command: List[Str], environment: Opt[ODict[Str, Str]], workdir: Opt[Str], stdin: Val, stdout: Val, stderr: Val) -> Str: ...


@extern("utils.run_in_subprocess")
def _(location: ExecutionLocation, command: List[Str], capture_output: Bool, timeout: Opt[Int]) -> Opt[Tuple[Str, Int]]:
    assigns(EXEC.n)
    ensures(EXEC.n == old(EXEC.n) + 1)


@extern("BaseConnector.__class__", property=True)
def _(self: BaseConnector) -> ClassInfo: ...


cls("ClassInfo", __name__=Str)


@contract("streamflow/deployment/connector/base.py", "BaseConnector.run")
def _(self: BaseConnector, location: ExecutionLocation, command: List[Str], environment: Opt[ODict[Str, Str]] = None, workdir: Opt[Str] = None,
      stdin: Val = None, stdout: Val = asyncio.subprocess.STDOUT, stderr: Val = asyncio.subprocess.STDOUT, capture_output: Bool = False,
      timeout: Opt[Int] = None, job_name: Opt[Str] = None) -> Opt[Tuple[Str, Int]]:
    assigns(EXEC.n)
    # the command is executed exactly once.  Does NOT hold when the persistent shell fails after it has started the command
    # (e.g. a timeout): contextlib.suppress swallows the failure and the command is run again in a fresh process.
    ensures_known("KF-C25-timeout-reexecution", EXEC.n == old(EXEC.n) + 1)
    # at least: it is never skipped, and never run more than twice
    ensures(EXEC.n >= old(EXEC.n) + 1 and EXEC.n <= old(EXEC.n) + 2)
