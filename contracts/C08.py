# C08 (fragment) — a token is written with its own fields, once, and read back from the same fields
STRINGS = "abstract"
excs_from("streamflow/core/exception.py")

cls("Event", is_set=Bool)
cls("TokenRow", record=True, tag=Str, value=Val, recoverable=Bool)
cls("AddedToken", port=Opt[Int], recoverable=Bool, tag=Str, value=Val)  # ghost: the arguments of one add_token call
cls("TokenLog", rows=List[AddedToken], next=Int)
const("TOKENS", TokenLog)
cls("Database")
cls("LoadingContext")
cls("PersistableEntity", persistent_id=Opt[Int], _saving=Opt[Event])
cls("Token", bases=["PersistableEntity"], value=Val, tag=Str, _recoverable=Bool)

inline("streamflow/core/persistence.py", "PersistableEntity.__init__")
inline("streamflow/core/workflow.py", "Token.__init__")


@extern("asyncio.Event")
def _() -> Event:
    ensures(fresh(result) and not result.is_set)


@extern("Event.wait")
def _(self: Event):
    """a yield point: returns once the event is set by the coroutine that is saving the token — which it does after the id has been
    assigned or the save has failed; an id once assigned never changes (rely condition on the other coroutines)"""
    assigns(self.is_set, all_of("PersistableEntity.persistent_id"))
    ensures(self.is_set)
    ensures(forall(PersistableEntity, lambda e: implies(old(e.persistent_id) is not None, e.persistent_id == old(e.persistent_id))))


@extern("Event.set")
def _(self: Event):
    assigns(self.is_set)
    ensures(self.is_set)


@extern("Token._save_value", final=True)
def _(self: Token, context: Database) -> Val:
    """(a plain token stores its value; containers store the ids of their elements — not under contract)"""
    ensures(result == self.value)


@extern("Database.add_token", ignore_args=False)
def _(self: Database, port: Opt[Int], recoverable: Bool, tag: Str, type: Val, value: Val) -> Int:
    assigns(TOKENS.rows, TOKENS.next)
    raises(TypeError)
    ensures(result == old(TOKENS.next) and TOKENS.next == old(TOKENS.next) + 1 and len(TOKENS.rows) == len(old(TOKENS.rows)) + 1
            and forall(range(0, len(old(TOKENS.rows))), lambda j: TOKENS.rows[j] is old(TOKENS.rows)[j]))
    ensures(TOKENS.rows[len(TOKENS.rows) - 1].port == port and TOKENS.rows[len(TOKENS.rows) - 1].recoverable == recoverable
            and TOKENS.rows[len(TOKENS.rows) - 1].tag == tag and TOKENS.rows[len(TOKENS.rows) - 1].value == value)


@contract("streamflow/core/workflow.py", "Token.save")
def _(self: Token, database: Database, port_id: Opt[Int] = None):
    assigns(all_of("PersistableEntity.persistent_id"), self._saving, TOKENS.rows, TOKENS.next, all_of("Event.is_set"))
    raises(WorkflowExecutionException)
    # ids are stable: no token that has an id gets another one (what containers rely on: contracts/C08_tokens.py)
    ensures(forall(PersistableEntity, lambda e: implies(old(e.persistent_id) is not None, e.persistent_id == old(e.persistent_id))))
    # the saver itself returns normally only with an id
    ensures(implies(old(self._saving) is None, self.persistent_id is not None))
    # saved at most once: a token that has an id, or whose save is in flight, is not written again ...
    ensures(implies(old(self.persistent_id) is not None or old(self._saving) is not None, TOKENS.rows == old(TOKENS.rows)))
    # ... and the second saver returns only when the first one has finished (its event is set)
    ensures(implies(old(self.persistent_id) is None and old(self._saving) is not None, self._saving is not None and self._saving.is_set))
    # the first saver writes exactly the token's own fields, takes the id the database hands out, and signals the end
    ensures(implies(old(self.persistent_id) is None and old(self._saving) is None,
                    len(TOKENS.rows) == len(old(TOKENS.rows)) + 1 and TOKENS.rows[len(TOKENS.rows) - 1].tag == self.tag
                    and TOKENS.rows[len(TOKENS.rows) - 1].value == self.value and TOKENS.rows[len(TOKENS.rows) - 1].recoverable == self._recoverable
                    and TOKENS.rows[len(TOKENS.rows) - 1].port == port_id and self.persistent_id == old(TOKENS.next)
                    and self._saving is not None and self._saving.is_set))


@contract("streamflow/core/workflow.py", "Token._load", cls="Token")
def _(row: TokenRow, loading_context: LoadingContext) -> Token:
    ensures(fresh(result) and result.tag == row.tag and result.value == row.value and result._recoverable == row.recoverable and result.persistent_id is None)
