# C27 (fragment) — when the polling loop lets a batch job go, and what the queue is asked
STRINGS = "abstract"
excs_from("streamflow/core/exception.py")
const("logging.DEBUG", Int)

cls("Lock", held=Bool)
cls("ExecutionLocation")
cls("CmdLog", cmds=List[List[Str]])
const("LOG", CmdLog)
cls("QueueManagerConnector", _jobs_cache_lock=Lock, _scheduled_jobs=ODict[Str, ExecutionLocation], pollingInterval=Int, _jobs_cache=Dict[Str, Val])
cls("SlurmConnector", bases=["QueueManagerConnector"])


@extern("logger.isEnabledFor")
def _(level: Int) -> Bool: ...


@extern("logger.debug", ignore_args="all")
def _(): ...


@extern("asyncio.sleep")
def _(delay: Int): ...


@extern("QueueManagerConnector._get_running_jobs", final=True)
def _(self: QueueManagerConnector, location: ExecutionLocation) -> List[Str]:
    """the job ids the queue manager lists as still queued (possibly the listing cached during the current polling interval); asked
    while the cache lock is held, so that no listing older than a submission can be stored after the cache was cleared for it"""
    requires(self._jobs_cache_lock.held)


@contract("streamflow/deployment/connector/queue_manager.py", "QueueManagerConnector.run", stmt="While#0")
def _(self: QueueManagerConnector, location: ExecutionLocation, job_id: Str):
    requires(not self._jobs_cache_lock.held)
    assigns(self._jobs_cache_lock.held)
    # the loop ends only on a listing that does not contain the job, obtained under the lock, and releases the lock
    ensures(job_id not in result_of("QueueManagerConnector._get_running_jobs", 0))
    ensures(not self._jobs_cache_lock.held)
    invariant(0, not self._jobs_cache_lock.held)


@assumed("streamflow/deployment/connector/queue_manager.py", "QueueManagerConnector.run")
def _(self: QueueManagerConnector, location: ExecutionLocation, command: List[Str], capture_output: Bool = False) -> Tuple[Str, Int]:
    """(as called by the Slurm helpers, without a job name: the command is run on the inner location)"""
    assigns(LOG.cmds)
    ensures(LOG.cmds == old(LOG.cmds) + [command])


@contract("streamflow/deployment/connector/queue_manager.py", "SlurmConnector._get_running_jobs")
def _(self: SlurmConnector, location: ExecutionLocation) -> List[Str]:
    assigns(LOG.cmds)
    # squeue is asked for ALL the scheduled jobs (the listing is shared by every polling coroutine) and for every state in which a job
    # is still in the queue — COMPLETING included: its output and exit code are not final yet
    ensures(LOG.cmds == old(LOG.cmds) + [["squeue", "-h", "-j", ",".join(self._scheduled_jobs.keys()), "-t",
            ",".join(["PENDING", "RUNNING", "SUSPENDED", "COMPLETING", "CONFIGURING", "RESIZING", "REVOKED", "SPECIAL_EXIT"]), "-O", "JOBID"]])


@contract("streamflow/deployment/connector/queue_manager.py", "SlurmConnector._get_running_jobs", stmt="decorator:cached")
def _(self: SlurmConnector):
    # one shared listing per polling interval: the per-connector TTL cache, under one constant key
    ensures(implies(decorated, identical(cache, self._jobs_cache) and key_maker == "_const_key_maker"))
