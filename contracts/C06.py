# C06 — Loops emit the last/all iteration values in iteration order, for any count
STRINGS = "abstract"
excs_from("streamflow/core/exception.py")

cls("Token", tag=Str, value=Val, _recoverable=Bool)
cls("ListToken", bases=["Token"], items=List[Token])  # `items` is the list held in ListToken.value
cls("LoopOutputStep", name=Str, token_map=Dict[Str, List[Token]], size_map=Dict[Str, Int], termination_map=Dict[Str, Bool])
cls("CWLLoopOutputAllStep", bases=["LoopOutputStep"])
cls("CWLLoopOutputLastStep", bases=["LoopOutputStep"])


@pure
def iteration(t: Token) -> Int:
    # the iteration index is the numeric value of the last tag component
    return int(t.tag.split(".")[-1])


@pure
def wf_instance(ts: List[Token]) -> Bool:
    # the values of one loop instance: numeric last components, one value per iteration (any arrival order)
    return (len(ts) >= 1 and forall(ts, lambda t: parses_int(t.tag.split(".")[-1]))
            and forall(range(0, len(ts)), range(0, len(ts)), lambda a, b: implies(a != b, iteration(ts[a]) != iteration(ts[b]))))


# ---- assumed constructors / reflection (plain field assignments; Token.retag builds self.__class__(...)) ----
@assumed("streamflow/core/workflow.py", "Token.__init__")
def _(self: Token, value: Val, tag: Str = "0", recoverable: Bool = False):
    assigns(self.value, self.tag, self._recoverable)
    ensures(self.value == value and self.tag == tag and self._recoverable == recoverable)


@assumed("streamflow/workflow/token.py", "ListToken.__init__")
def _(self: ListToken, value: List[Token], tag: Str = "0", recoverable: Bool = False):
    assigns(self.items, self.tag, self._recoverable)
    ensures(self.items == value and self.tag == tag and self._recoverable == False)


@assumed("streamflow/core/workflow.py", "Token.retag")
def _(self: Token, tag: Str) -> Token:
    ensures(fresh(result) and result.tag == tag and result.value == self.value and result._recoverable == self._recoverable)


# ---- the two output policies -----------------------------------------------------------------------------------
@contract("streamflow/cwl/step.py", "CWLLoopOutputAllStep._process_output")
def _(self: CWLLoopOutputAllStep, tag: Str) -> ListToken:
    requires(forall(self.token_map, lambda k: wf_instance(self.token_map[k])))
    ensures(fresh(result) and result.tag == tag)
    # no iterations: the empty list
    ensures(implies(tag not in self.token_map, len(result.items) == 0))
    # otherwise: exactly the instance's values, in ITERATION order (numeric, so iteration 10 follows 9), whatever the arrival order
    ensures(implies(tag in self.token_map, len(result.items) == len(self.token_map[tag])))
    ensures(implies(tag in self.token_map, forall(self.token_map[tag], lambda t: t in result.items)))
    ensures(implies(tag in self.token_map, forall(range(0, len(result.items)), range(0, len(result.items)),
                                                  lambda a, b: implies(a < b, iteration(result.items[a]) < iteration(result.items[b])))))
    # proof hint: distinct positions of the sorted list come from distinct positions of the instance's list, hence distinct iterations
    hint("exit", implies(tag in self.token_map, forall(range(0, len(self.token_map[tag])), range(0, len(self.token_map[tag])), lambda a, b: implies(
        a != b, iteration(self.token_map[tag][sort_source_index(a)]) != iteration(self.token_map[tag][sort_source_index(b)])))))


@contract("streamflow/cwl/step.py", "CWLLoopOutputLastStep._process_output")
def _(self: CWLLoopOutputLastStep, tag: Str) -> Token:
    requires(forall(self.token_map, lambda k: wf_instance(self.token_map[k])))
    ensures(fresh(result) and result.tag == tag)
    # no iterations: a null value
    ensures(implies(tag not in self.token_map, result.value is None))
    # otherwise: the value of the LAST iteration (greatest numeric index)
    ensures(implies(tag in self.token_map, exists(self.token_map[tag], lambda t: result.value == t.value
                                                  and forall(self.token_map[tag], lambda u: iteration(u) <= iteration(t)))))
