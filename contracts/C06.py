# C06 — Loops emit the last/all iteration values in iteration order, for any count
STRINGS = "abstract"
excs_from("streamflow/core/exception.py")

cls("Token", tag=Str, value=Val, _recoverable=Bool)
cls("ListToken", bases=["Token"], items=List[Token])  # `items` is the list held in ListToken.value
cls("LoopOutputStep", name=Str, token_map=Dict[Str, List[Token]], size_map=Dict[Str, Int], termination_map=Dict[Str, Bool])
cls("CWLLoopOutputAllStep", bases=["LoopOutputStep"])
cls("CWLLoopOutputLastStep", bases=["LoopOutputStep"])


@pure
def iteration(t: Token) -> Int:
    # the iteration index is the numeric value of the last tag component
    return int(t.tag.split(".")[-1])


@pure
def wf_instance(ts: List[Token]) -> Bool:
    # the values of one loop instance: numeric last components, one value per iteration (any arrival order)
    return (len(ts) >= 1 and forall(ts, lambda t: parses_int(t.tag.split(".")[-1]))
            and forall(range(0, len(ts)), range(0, len(ts)), lambda a, b: implies(a != b, iteration(ts[a]) != iteration(ts[b]))))


# ---- assumed constructors / reflection (plain field assignments; Token.retag builds self.__class__(...)) ----
@assumed("streamflow/core/workflow.py", "Token.__init__")
def _(self: Token, value: Val, tag: Str = "0", recoverable: Bool = False):
    assigns(self.value, self.tag, self._recoverable)
    ensures(self.value == value and self.tag == tag and self._recoverable == recoverable)


@assumed("streamflow/workflow/token.py", "ListToken.__init__")
def _(self: ListToken, value: List[Token], tag: Str = "0", recoverable: Bool = False):
    assigns(self.items, self.tag, self._recoverable)
    ensures(self.items == value and self.tag == tag and self._recoverable == False)


@assumed("streamflow/core/workflow.py", "Token.retag")
def _(self: Token, tag: Str) -> Token:
    ensures(fresh(result) and result.tag == tag and result.value == self.value and result._recoverable == self._recoverable)


# ---- the two output policies -----------------------------------------------------------------------------------
@contract("streamflow/cwl/step.py", "CWLLoopOutputAllStep._process_output")
def _(self: CWLLoopOutputAllStep, tag: Str) -> ListToken:
    requires(forall(self.token_map, lambda k: wf_instance(self.token_map[k])))
    ensures(fresh(result) and result.tag == tag)
    # no iterations: the empty list
    ensures(implies(tag not in self.token_map, len(result.items) == 0))
    # otherwise: exactly the instance's values, in ITERATION order (numeric, so iteration 10 follows 9), whatever the arrival order
    ensures(implies(tag in self.token_map, len(result.items) == len(self.token_map[tag])))
    ensures(implies(tag in self.token_map, forall(self.token_map[tag], lambda t: t in result.items)))
    ensures(implies(tag in self.token_map, forall(range(0, len(result.items)), range(0, len(result.items)),
                                                  lambda a, b: implies(a < b, iteration(result.items[a]) < iteration(result.items[b])))))
    # proof hint: distinct positions of the sorted list come from distinct positions of the instance's list, hence distinct iterations
    hint("exit", implies(tag in self.token_map, forall(range(0, len(self.token_map[tag])), range(0, len(self.token_map[tag])), lambda a, b: implies(
        a != b, iteration(self.token_map[tag][sort_source_index(a)]) != iteration(self.token_map[tag][sort_source_index(b)])))))


@contract("streamflow/cwl/step.py", "CWLLoopOutputLastStep._process_output")
def _(self: CWLLoopOutputLastStep, tag: Str) -> Token:
    requires(forall(self.token_map, lambda k: wf_instance(self.token_map[k])))
    ensures(fresh(result) and result.tag == tag)
    # no iterations: a null value
    ensures(implies(tag not in self.token_map, result.value is None))
    # otherwise: the value of the LAST iteration (greatest numeric index)
    ensures(implies(tag in self.token_map, exists(self.token_map[tag], lambda t: result.value == t.value
                                                  and forall(self.token_map[tag], lambda u: iteration(u) <= iteration(t)))))


# ---- resuming a loop after a failure: the iteration counters are restored from the tags of the lost tokens ----------------------
cls("LoopCombinator", iteration_map=Dict[Str, Int])


@pure
def entries(from_tags: ODict[Str, Tuple[Str, Str]]) -> List[Tuple[Str, Str]]:
    return list(from_tags.values())


@pure
def resume_at(e: Tuple[Str, Str]) -> Int:
    # the iteration to resume from is the NUMERIC value of the last component of the second tag (iteration 12 of instance 0.3 is "0.3.12")
    return int(e[1].split(".")[-1])


@contract("streamflow/workflow/combinator.py", "LoopCombinator.restore")
def _(self: LoopCombinator, from_tags: ODict[Str, Tuple[Str, Str]]):
    requires(forall(entries(from_tags), lambda e: parses_int(e[1].split(".")[-1])))
    assigns(self.iteration_map)
    ghost("es", entries(from_tags))
    # every loop instance named in the request resumes at (at least) the requested iteration ...
    ensures(forall(range(0, len(es)), lambda j: es[j][0] in self.iteration_map and self.iteration_map[es[j][0]] >= resume_at(es[j])))
    # ... and at nothing invented: a counter keeps its old value or takes one of the requested iterations of its instance
    ensures(forall(self.iteration_map, lambda p: (old(p in self.iteration_map) and self.iteration_map[p] == old(self.iteration_map[p]))
                   or exists(range(0, len(es)), lambda j: es[j][0] == p and self.iteration_map[p] == resume_at(es[j]))))
    # counters of other instances are kept, and no counter goes backwards
    ensures(forall(Str, lambda p: implies(old(p in self.iteration_map), p in self.iteration_map and self.iteration_map[p] >= old(self.iteration_map[p]))))
    invariant(0, forall(range(0, i), lambda j: es[j][0] in self.iteration_map and self.iteration_map[es[j][0]] >= resume_at(es[j])), index="i")
    invariant(0, forall(self.iteration_map, lambda p: (old(p in self.iteration_map) and self.iteration_map[p] == old(self.iteration_map[p]))
                        or exists(range(0, i), lambda j: es[j][0] == p and self.iteration_map[p] == resume_at(es[j]))))
    invariant(0, forall(Str, lambda p: implies(old(p in self.iteration_map), p in self.iteration_map and self.iteration_map[p] >= old(self.iteration_map[p]))))
