# C26 (small fragment) — the bookkeeping at the edge of the deployment manager.  The lifecycle itself (interleavings of _deploy /
# _inner_deploy / undeploy on the event loop) is NOT under contract: see the bounded run-time check harness/C26.py.
STRINGS = "abstract"
excs_from("streamflow/core/exception.py")

cls("Connector")
cls("DeploymentConfig", name=Str)
cls("DefaultDeploymentManager", deployments_map=Dict[Str, Connector], dependency_graph=Dict[Str, Set[Str]], config_map=Dict[Str, DeploymentConfig])


@assumed("streamflow/deployment/manager.py", "DefaultDeploymentManager._deploy")
def _(self: DefaultDeploymentManager, deployment_config: DeploymentConfig):
    """returns only for a registered deployment (it has its dependency set); raises when the deployment failed"""
    assigns(self.deployments_map, self.dependency_graph, self.config_map)
    raises(WorkflowExecutionException)
    raises(WorkflowDefinitionException)
    raises(Exception)
    ensures(deployment_config.name in self.dependency_graph and deployment_config.name in self.config_map)


@contract("streamflow/deployment/manager.py", "DefaultDeploymentManager.deploy")
def _(self: DefaultDeploymentManager, deployment_config: DeploymentConfig):
    assigns(self.deployments_map, self.dependency_graph, self.config_map)
    raises(WorkflowExecutionException)
    raises(WorkflowDefinitionException)
    raises(Exception)
    # an explicit request holds the deployment itself (its own name in its dependency set): it is not undeployed by the release of
    # the deployments that wrap it
    ensures(deployment_config.name in self.dependency_graph and deployment_config.name in self.dependency_graph[deployment_config.name])


@contract("streamflow/deployment/manager.py", "DefaultDeploymentManager.get_connector")
def _(self: DefaultDeploymentManager, deployment_name: Str) -> Opt[Connector]:
    assigns()
    ensures((result is None) == (deployment_name not in self.deployments_map))
    ensures(implies(deployment_name in self.deployments_map, result == self.deployments_map[deployment_name]))


# ---- a failed deployment: gone from the live map, holding nothing alive, its waiters woken -----------------------------------------
cls("Event", is_set=Bool)
cls("DefaultDeploymentManager2", bases=["DefaultDeploymentManager"], events_map=Dict[Str, Event])


@extern("Event.set")
def _(self: Event):
    assigns(self.is_set)
    ensures(self.is_set)


@contract("streamflow/deployment/manager.py", "DefaultDeploymentManager._set_failed")
def _(self: DefaultDeploymentManager2, deployment_name: Str):
    requires(deployment_name in self.events_map)
    assigns(self.deployments_map, self.dependency_graph, self.events_map[deployment_name].is_set)
    # the failed deployment is not live (a request that waited for it fails instead of using a connector that does not exist) ...
    ensures(deployment_name not in self.deployments_map)
    ensures(forall(Str, lambda k: implies(k != deployment_name, (k in self.deployments_map) == old(k in self.deployments_map)
                                          and implies(k in self.deployments_map, self.deployments_map[k] is old(self.deployments_map[k])))))
    # ... it keeps nothing alive: it is in no dependency set any more, and nothing else left or entered one ...
    ensures(forall(Str, lambda k: (k in self.dependency_graph) == old(k in self.dependency_graph)))
    ensures(forall(self.dependency_graph, lambda k: deployment_name not in self.dependency_graph[k]
                   and forall(Str, lambda x: implies(x != deployment_name, (x in self.dependency_graph[k]) == old(x in self.dependency_graph[k])))))
    # ... and everybody waiting for it is woken (to fail as well)
    ensures(self.events_map[deployment_name].is_set)
    hint("loop0:init", let(G0=self.dependency_graph))
    invariant(0, forall(Str, lambda k: (k in self.dependency_graph) == (k in G0)), index="d")
    invariant(0, forall(Str, Str, lambda k, x: implies(k in G0, (x in self.dependency_graph[k]) == (x in G0[k] and not (k in d and x == deployment_name)))))
    invariant(0, deployment_name not in self.deployments_map and forall(Str, lambda k: implies(k != deployment_name, (k in self.deployments_map) == old(k in self.deployments_map)
                                          and implies(k in self.deployments_map, self.deployments_map[k] is old(self.deployments_map[k])))))
