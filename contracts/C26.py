# C26 (small fragment) — the bookkeeping at the edge of the deployment manager.  The lifecycle itself (interleavings of _deploy /
# _inner_deploy / undeploy on the event loop) is NOT under contract: see the bounded run-time check harness/C26.py.
STRINGS = "abstract"
excs_from("streamflow/core/exception.py")

cls("Connector")
cls("DeploymentConfig", name=Str)
cls("DefaultDeploymentManager", deployments_map=Dict[Str, Connector], dependency_graph=Dict[Str, Set[Str]], config_map=Dict[Str, DeploymentConfig])


@assumed("streamflow/deployment/manager.py", "DefaultDeploymentManager._deploy")
def _(self: DefaultDeploymentManager, deployment_config: DeploymentConfig):
    """returns only for a registered deployment (it has its dependency set); raises when the deployment failed"""
    assigns(self.deployments_map, self.dependency_graph, self.config_map)
    raises(WorkflowExecutionException)
    raises(WorkflowDefinitionException)
    raises(Exception)
    ensures(deployment_config.name in self.dependency_graph and deployment_config.name in self.config_map)


@contract("streamflow/deployment/manager.py", "DefaultDeploymentManager.deploy")
def _(self: DefaultDeploymentManager, deployment_config: DeploymentConfig):
    assigns(self.deployments_map, self.dependency_graph, self.config_map)
    raises(WorkflowExecutionException)
    raises(WorkflowDefinitionException)
    raises(Exception)
    # an explicit request holds the deployment itself (its own name in its dependency set): it is not undeployed by the release of
    # the deployments that wrap it
    ensures(deployment_config.name in self.dependency_graph and deployment_config.name in self.dependency_graph[deployment_config.name])


@contract("streamflow/deployment/manager.py", "DefaultDeploymentManager.get_connector")
def _(self: DefaultDeploymentManager, deployment_name: Str) -> Opt[Connector]:
    assigns()
    ensures((result is None) == (deployment_name not in self.deployments_map))
    ensures(implies(deployment_name in self.deployments_map, result == self.deployments_map[deployment_name]))
