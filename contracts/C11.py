# C11 / C12 (fragment) — reservations follow the job status; every status change under the scheduler lock wakes the waiters
# Ghost: JobAllocation.reserved says whether the job's hardware is currently charged on its locations.  It is set by
# _allocate_job (through the assumed JobAllocation constructor) and cleared by _free_resources (assumed contract).
STRINGS = "abstract"
excs_from("streamflow/core/exception.py")
enum("Status", WAITING=0, FIREABLE=1, RUNNING=2, SKIPPED=3, COMPLETED=4, RECOVERY=5, ROLLBACK=6, FAILED=7, CANCELLED=8, RECOVERED=9)

cls("ExecutionLocation", name=Str, deployment=Str)
cls("JobAllocation", job=Str, status=Int, locations=List[ExecutionLocation], reserved=Bool)
cls("LocationAllocation", name=Str, deployment=Str, jobs=List[Str])
cls("Condition", held=Bool, notified=Int)
cls("Connector")
cls("DefaultScheduler", job_allocations=Dict[Str, JobAllocation], location_allocations=Dict[Str, Dict[Str, LocationAllocation]], wait_queue=Condition,
    n_freed=Int)
const("logging.DEBUG", Int)


@extern("logger.isEnabledFor")
def _(level: Int) -> Bool: ...


@extern("DefaultScheduler.get_connector")
def _(self: DefaultScheduler, job_name: Str) -> Connector: ...


@extern("Condition.notify_all")
def _(self: Condition):
    # a condition variable may only be notified by the holder of its lock
    requires(self.held)
    assigns(self.notified)
    ensures(self.notified == old(self.notified) + 1)


@assumed("streamflow/scheduling/scheduler.py", "DefaultScheduler._free_resources")
def _(self: DefaultScheduler, connector: Connector, job_allocation: JobAllocation):
    """gives back what _allocate_job charged for this job (cores and memory exactly; storage keeps the measured usage)"""
    # only a reservation that exists can be released: releasing twice drives the location's reservation negative
    requires(job_allocation.reserved)
    assigns(job_allocation.reserved, self.n_freed)
    ensures(not job_allocation.reserved and self.n_freed == old(self.n_freed) + 1)


@pure
def charged(a: JobAllocation) -> Bool:
    # I2: the job's hardware is reserved exactly while the job is fireable or running
    return a.reserved == (a.status == Status.FIREABLE or a.status == Status.RUNNING)


@pure
def in_protocol(prev: Int, new: Int) -> Bool:
    # the transitions the workflow engine produces: a repeated notification, FIREABLE -> RUNNING, leaving FIREABLE/RUNNING for a
    # terminal or recovery status, and moves between statuses that hold no reservation
    return (prev == new or (prev == Status.FIREABLE and new == Status.RUNNING)
            or ((prev == Status.FIREABLE or prev == Status.RUNNING) and new != Status.FIREABLE and new != Status.RUNNING)
            or (prev != Status.FIREABLE and prev != Status.RUNNING and new != Status.FIREABLE and new != Status.RUNNING))


@contract("streamflow/scheduling/scheduler.py", "DefaultScheduler.notify_status")
def _(self: DefaultScheduler, job_name: Str, status: Int):
    requires(not self.wait_queue.held)
    requires(implies(job_name in self.job_allocations, charged(self.job_allocations[job_name])))
    requires(forall(self.job_allocations, self.job_allocations, lambda a, b: implies(a != b, self.job_allocations[a] is not self.job_allocations[b])))
    # every location the job is allocated on has its allocation record
    requires(implies(job_name in self.job_allocations, forall(self.job_allocations[job_name].locations, lambda l:
             l.deployment in self.location_allocations and l.name in self.location_allocations[l.deployment])))
    assigns(all_of("JobAllocation.status"), all_of("JobAllocation.reserved"), all_of("JobAllocation.locations"), all_of("LocationAllocation.jobs"),
            self.n_freed, self.wait_queue.held, self.wait_queue.notified)
    ensures(not self.wait_queue.held)
    # the status is recorded, only this job's allocation is touched ...
    ensures(implies(job_name in self.job_allocations, self.job_allocations[job_name].status == status))
    ensures(forall(self.job_allocations, lambda k: implies(k != job_name, self.job_allocations[k].status == old(self.job_allocations[k].status)
                                                           and self.job_allocations[k].reserved == old(self.job_allocations[k].reserved))))
    # ... resources are released at most once per notification ...
    ensures(self.n_freed <= old(self.n_freed) + 1)
    # ... and afterwards they are reserved exactly if the job is fireable or running — for the transitions of the protocol
    ensures(implies(job_name in self.job_allocations and in_protocol(old(self.job_allocations[job_name].status), status), charged(self.job_allocations[job_name])))
    # (C11 as stated also covers notifications that arrive out of order: a RUNNING after a terminal status, RUNNING -> FIREABLE)
    ensures_known("KF-C11-out-of-order-notifications", implies(job_name in self.job_allocations, charged(self.job_allocations[job_name])))
    # C12 (safety part): whenever the allocation exists the waiters are woken, exactly once, while the lock is held
    ensures(self.wait_queue.notified == old(self.wait_queue.notified) + (1 if job_name in self.job_allocations else 0))
    # a rolled-back job leaves its locations
    ensures(implies(job_name in self.job_allocations and status == Status.ROLLBACK, len(self.job_allocations[job_name].locations) == 0))
    hint("loop0:init", let(A=job_allocation, L0=job_allocation.locations))
    invariant(0, self.wait_queue.held and self.wait_queue.notified == old(self.wait_queue.notified) and self.n_freed <= old(self.n_freed) + 1, index="i")
    invariant(0, A.status == status and identical(A.locations, L0) and (A.reserved == (False if self.n_freed == old(self.n_freed) + 1 else old(A.reserved))))
    invariant(0, forall(self.job_allocations, lambda k: implies(k != job_name, self.job_allocations[k].status == old(self.job_allocations[k].status)
                                                                and self.job_allocations[k].reserved == old(self.job_allocations[k].reserved))))
