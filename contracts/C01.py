# C01 — Scatter then gather returns the original list in its original order
STRINGS = "abstract"
excs_from("streamflow/core/exception.py")

cls("Token", tag=Str, value=Val, _recoverable=Bool, persistent_id=Opt[Int])
cls("ListToken", bases=["Token"], value=List[Token])
cls("Port", name=Str, token_list=List[Token])
cls("BaseStep", name=Str)
cls("ScatterStep", bases=["BaseStep"])
cls("GatherStep", bases=["BaseStep"], depth=Int, size_map=Dict[Str, Token], token_map=Dict[Str, List[Token]])


# ---- tags (same vocabulary and trusted facts as C33, where compare_tags itself is proved) ------------------
@spec
def wf_tag(t: Str) -> Bool: ...


@pure
def depth(t: Str) -> Int:
    return len(t.split("."))


@pure
def comp(t: Str, j: Int) -> Int:
    return int(t.split(".")[j])


@pure
def lexlt(a: Str, b: Str) -> Bool:
    return depth(a) < depth(b) or (
        depth(a) == depth(b)
        and exists(range(0, depth(a)), lambda k: comp(a, k) < comp(b, k) and forall(range(0, k), lambda j: comp(a, j) == comp(b, j))))


@axiom("A-STR")
def tag_append(t: Str, i: Int):
    # t + "." + str(i) for a natural i: one more component, equal to i, the earlier ones unchanged
    return implies(wf_tag(t) and i >= 0,
                   wf_tag(t + "." + str(i)) and depth(t + "." + str(i)) == depth(t) + 1 and comp(t + "." + str(i), depth(t)) == i
                   and forall(range(0, depth(t)), lambda j: comp(t + "." + str(i), j) == comp(t, j)))


@assumed("streamflow/core/utils.py", "compare_tags", pure=True)
def _(tag1: Str, tag2: Str) -> Int:
    """proved in contracts/C33.py"""
    requires(wf_tag(tag1) and wf_tag(tag2))
    ensures((result < 0) == lexlt(tag1, tag2))
    ensures((result > 0) == lexlt(tag2, tag1))
    ensures((result == 0) == (tag1 == tag2))


# ---- assumed collaborators -------------------------------------------------------------------------------------
@assumed("streamflow/core/workflow.py", "Token.__init__")
def _(self: Token, value: Val, tag: Str = "0", recoverable: Bool = False):
    assigns(self.value, self.tag, self._recoverable, self.persistent_id)
    ensures(self.value == value and self.tag == tag and self._recoverable == recoverable and self.persistent_id is None)


@assumed("streamflow/workflow/token.py", "ListToken.__init__")
def _(self: ListToken, value: List[Token], tag: Str = "0", recoverable: Bool = False):
    assigns(self.value, self.tag, self._recoverable, self.persistent_id)
    ensures(self.value == value and self.tag == tag and self._recoverable == False and self.persistent_id is None)


@assumed("streamflow/core/workflow.py", "Token.retag")
def _(self: Token, tag: Str) -> Token:
    ensures(fresh(result) and result.tag == tag and result.value == self.value and result._recoverable == self._recoverable)


@assumed("streamflow/core/workflow.py", "Port.put")
def _(self: Port, token: Token):
    """proved in contracts/C03.py"""
    assigns(self.token_list)
    ensures(self.token_list == old(self.token_list) + [token])


# ghost: the provenance links requested so far — one entry per _persist_token call: the token, the port it is persisted for, and
# the ENTITIES whose ids were handed over as its inputs (what _persist_token does with the ids is proved in contracts/C07.py)
cls("IdList", ents=List[Token])  # stands for the list of ids returned by get_entity_ids(ents)
cls("Links", toks=List[Token], ports=List[Port], srcs=List[List[Token]])
const("PROV", Links)


@assumed("streamflow/workflow/step.py", "BaseStep._persist_token")
def _(self: BaseStep, token: Token, port: Port, input_token_ids: IdList) -> Token:
    assigns(token.persistent_id, PROV.toks, PROV.ports, PROV.srcs)
    ensures(result is token)
    ensures(PROV.toks == old(PROV.toks) + [token] and PROV.ports == old(PROV.ports) + [port] and len(PROV.srcs) == old(len(PROV.srcs)) + 1
            and forall(range(0, old(len(PROV.srcs))), lambda j: PROV.srcs[j] == old(PROV.srcs)[j])
            and PROV.srcs[len(PROV.srcs) - 1] == input_token_ids.ents)


@extern("get_entity_ids")
def _(persistable_entities: List[Token]) -> IdList:
    ensures(fresh(result) and result.ents == persistable_entities)


@spec
def out_port(s: BaseStep) -> Port: ...


@spec
def size_port_of(s: BaseStep) -> Port: ...


@axiom("A-WIRING")
def ports_distinct(s: BaseStep):
    return out_port(s) is not size_port_of(s)


@extern("ScatterStep.get_output_port")
def _(self: ScatterStep) -> Port:
    ensures(result is out_port(self))


@extern("ScatterStep.get_size_port")
def _(self: ScatterStep) -> Port:
    ensures(result is size_port_of(self))


@extern("GatherStep.get_output_port")
def _(self: GatherStep) -> Port:
    ensures(result is out_port(self))


# ---- scatter --------------------------------------------------------------------------------------------------------
@contract("streamflow/workflow/step.py", "ScatterStep._scatter")
def _(self: ScatterStep, token: ListToken):
    note("the non-list branch (raise WorkflowDefinitionException) is excluded by the parameter sort")
    requires(wf_tag(token.tag))
    assigns(out_port(self).token_list, size_port_of(self).token_list, all_of("Token.persistent_id"), PROV.toks, PROV.ports, PROV.srcs)
    # element i goes out retagged <tag>.<i>, in list order, with its value ...
    ensures(len(out_port(self).token_list) == old(len(out_port(self).token_list)) + len(token.value))
    ensures(forall(range(0, old(len(out_port(self).token_list))), lambda j: out_port(self).token_list[j] is old(out_port(self).token_list[j])))
    ensures(forall(range(0, len(token.value)), lambda i: out_port(self).token_list[old(len(out_port(self).token_list)) + i].tag == token.tag + "." + str(i)
                   and out_port(self).token_list[old(len(out_port(self).token_list)) + i].value == token.value[i].value))
    # ... and then exactly one size token <tag> carrying the length (0 for an empty list)
    ensures(len(size_port_of(self).token_list) == old(len(size_port_of(self).token_list)) + 1)
    ensures(size_port_of(self).token_list[len(size_port_of(self).token_list) - 1].tag == token.tag
            and size_port_of(self).token_list[len(size_port_of(self).token_list) - 1].value == len(token.value))
    # C07 at this call site: every emitted element, and the size token, is linked to exactly the scattered list token and persisted
    # for the port it is put on
    requires(len(PROV.toks) == len(PROV.srcs) and len(PROV.toks) == len(PROV.ports))
    ensures_for("C07", len(PROV.toks) == old(len(PROV.toks)) + len(token.value) + 1 and len(PROV.srcs) == len(PROV.toks) and len(PROV.ports) == len(PROV.toks))
    ensures_for("C07", forall(range(0, len(token.value)), lambda i: PROV.toks[old(len(PROV.toks)) + i] is out_port(self).token_list[old(len(out_port(self).token_list)) + i]
                   and PROV.ports[old(len(PROV.toks)) + i] is out_port(self)
                   and len(PROV.srcs[old(len(PROV.toks)) + i]) == 1 and PROV.srcs[old(len(PROV.toks)) + i][0] is token))
    ensures_for("C07", PROV.toks[len(PROV.toks) - 1] is size_port_of(self).token_list[len(size_port_of(self).token_list) - 1]
            and PROV.ports[len(PROV.toks) - 1] is size_port_of(self)
            and len(PROV.srcs[len(PROV.toks) - 1]) == 1 and PROV.srcs[len(PROV.toks) - 1][0] is token)
    hint("loop0:init", let(O0=out_port(self).token_list, P0=len(PROV.toks)))
    invariant(0, len(PROV.toks) == P0 + i and len(PROV.srcs) == len(PROV.toks) and len(PROV.ports) == len(PROV.toks))
    invariant(0, forall(range(0, i), lambda k: PROV.toks[P0 + k] is out_port(self).token_list[len(O0) + k] and PROV.ports[P0 + k] is out_port(self)
                        and len(PROV.srcs[P0 + k]) == 1 and PROV.srcs[P0 + k][0] is token))
    invariant(0, len(out_port(self).token_list) == len(O0) + i and forall(range(0, len(O0)), lambda j: out_port(self).token_list[j] is O0[j]), index="i")
    invariant(0, forall(range(0, i), lambda k: out_port(self).token_list[len(O0) + k].tag == token.tag + "." + str(k)
                        and out_port(self).token_list[len(O0) + k].value == token.value[k].value))
    invariant(0, identical(size_port_of(self).token_list, old(size_port_of(self).token_list)))
    invariant(0, forall(range(0, i), lambda k: allocated(out_port(self).token_list[len(O0) + k])))


# ---- gather ---------------------------------------------------------------------------------------------------------
@contract("streamflow/workflow/step.py", "GatherStep._gather")
def _(self: GatherStep, key: Str):
    requires(key in self.token_map and key in self.size_map)
    requires(forall(self.token_map[key], lambda t: wf_tag(t.tag)))
    # the tags of one key's elements are pairwise different (one element per scatter index)
    requires(forall(range(0, len(self.token_map[key])), range(0, len(self.token_map[key])),
                    lambda a, b: implies(a != b, self.token_map[key][a].tag != self.token_map[key][b].tag)))
    assigns(out_port(self).token_list, all_of("Token.persistent_id"), PROV.toks, PROV.ports, PROV.srcs)
    # C07 at this call site: the gathered list is linked to the size token and to EVERY collected element of the key, nothing else
    requires(len(PROV.toks) == len(PROV.srcs) and len(PROV.toks) == len(PROV.ports))
    ensures_for("C07", len(PROV.toks) == old(len(PROV.toks)) + 1 and PROV.toks[len(PROV.toks) - 1] is out_port(self).token_list[len(out_port(self).token_list) - 1]
            and PROV.ports[len(PROV.toks) - 1] is out_port(self))
    ensures_for("C07", len(PROV.srcs[len(PROV.srcs) - 1]) == 1 + len(self.token_map[key]))
    ensures_for("C07", PROV.srcs[len(PROV.srcs) - 1][0] is self.size_map[key])
    ensures_for("C07", forall(range(0, len(self.token_map[key])), lambda j: PROV.srcs[len(PROV.srcs) - 1][1 + j] is self.token_map[key][j]))
    ensures(len(out_port(self).token_list) == old(len(out_port(self).token_list)) + 1)
    ensures(forall(range(0, old(len(out_port(self).token_list))), lambda j: out_port(self).token_list[j] is old(out_port(self).token_list[j])))
    # one list token with the key as tag, holding exactly the key's elements ordered by tag: depth first, then numerically
    ensures(isinstance(out_port(self).token_list[len(out_port(self).token_list) - 1], ListToken))
    ensures(out_port(self).token_list[len(out_port(self).token_list) - 1].tag == key)
    hint("exit", let(G=cast(ListToken, out_port(self).token_list[len(out_port(self).token_list) - 1]).value))
    ensures(len(G) == len(self.token_map[key]) and forall(self.token_map[key], lambda t: t in G))
    ensures(forall(range(0, len(G)), range(0, len(G)), lambda a, b: implies(a < b, lexlt(G[a].tag, G[b].tag))))




# ---- order restoration: lemmas over the two contracts -------------------------------------------------------------------
@lemma
def strictly_increasing_naturals_below_n(f: List[Int]):
    """n strictly increasing naturals below n are 0..n-1 (two ghost inductions; no cardinality reasoning)"""
    requires(forall(range(0, len(f)), lambda a: 0 <= f[a] and f[a] < len(f)))
    requires(forall(range(0, len(f)), range(0, len(f)), lambda a, b: implies(a < b, f[a] < f[b])))
    ensures(forall(range(0, len(f)), lambda a: f[a] == a))
    invariant(0, 0 <= k and k <= len(f) and forall(range(0, k), lambda a: f[a] >= a))
    invariant(1, 0 <= m and m <= len(f) and forall(range(len(f) - m, len(f)), lambda a: f[a] <= a))
    k = 0
    while k < len(f):
        k = k + 1
    m = 0
    while m < len(f):
        m = m + 1


@lemma
def gather_restores_scatter_order(G: List[Token], key: Str):
    """if the gathered list holds one element per scatter index of `key` (tags key.0 .. key.(n-1), any arrival order) and is
    ordered as GatherStep._gather guarantees, then position a holds the element scattered from position a — also for n >= 10"""
    requires(wf_tag(key) and forall(G, lambda t: wf_tag(t.tag) and depth(t.tag) == depth(key) + 1))
    requires(forall(G, lambda t: forall(range(0, depth(key)), lambda j: comp(t.tag, j) == comp(key, j))))
    requires(forall(G, lambda t: 0 <= comp(t.tag, depth(key)) and comp(t.tag, depth(key)) < len(G)))
    requires(forall(range(0, len(G)), range(0, len(G)), lambda a, b: implies(a < b, lexlt(G[a].tag, G[b].tag))))
    ensures(forall(range(0, len(G)), lambda a: comp(G[a].tag, depth(key)) == a))
    idx = [comp(t.tag, depth(key)) for t in G]
    assert forall(range(0, len(G)), range(0, len(G)), lambda a, b: implies(a < b, idx[a] < idx[b]))
    strictly_increasing_naturals_below_n(idx)
