# C08 (fragment, second module) — the save / load PAIRS of ports and of the steps of streamflow/workflow/step.py.
# A saved step is a JSON dict: its `params` are modelled as RECORD classes (key k <-> field k, Opt = optional key), so "the loader
# reads the key the saver wrote, and hands it to the constructor argument it came from" is a statement about fields.  What the
# database and the loading context do is assumed (externs): load_port / load_workflow are functions of the id (spec functions
# loaded_port / loaded_workflow).  Each round trip is a lemma over the two contracts of a pair.
STRINGS = "abstract"
OPTIONS = {"dict_literal_class": ["GatherParams", "ScatterParams", "JobPortParams", "DeployParams", "CombinatorStepParams"]}
excs_from("streamflow/core/exception.py")

cls("Event", is_set=Bool)
cls("Database")
cls("LoadingContext")
cls("PersistableEntity", persistent_id=Opt[Int], _saving=Opt[Event])
cls("Workflow", bases=["PersistableEntity"], ports=ODict[Str, Port])
cls("Port", bases=["PersistableEntity"], name=Str, workflow=Workflow, token_list=List[Val], queues=Dict[Str, Val])
cls("Step", bases=["PersistableEntity"], name=Str, workflow=Workflow, input_ports=ODict[Str, Str], output_ports=ODict[Str, Str], status=Int, terminated=Bool)
cls("BaseStep", bases=["Step"], _log_level=Int)
cls("GatherStep", bases=["BaseStep"], depth=Int, size_map=Dict[Str, Val], token_map=Dict[Str, Val])
enum("DependencyType", INPUT=0, OUTPUT=1)
enum("Status", WAITING=0)
const("logging.DEBUG", Int, 10)

# ---- the rows -------------------------------------------------------------------------------------------------------------
cls("PortRow", record=True, name=Str, workflow=Int)
cls("GatherParams", record=True, depth=Opt[Int], size_port=Opt[Opt[Int]])
cls("GatherRow", record=True, name=Str, workflow=Int, params=GatherParams)
cls("ScatterParams", record=True, size_port=Opt[Opt[Int]])
cls("ScatterRow", record=True, name=Str, workflow=Int, params=ScatterParams)
cls("JobPortParams", record=True, job_port=Opt[Opt[Int]])
cls("JobPortRow", record=True, name=Str, workflow=Int, params=JobPortParams)
cls("ScatterStep", bases=["BaseStep"])
cls("TransferStep", bases=["BaseStep"])
cls("InputInjectorStep", bases=["BaseStep"])
inline("streamflow/workflow/step.py", "ScatterStep.add_output_port")
inline("streamflow/workflow/step.py", "ScatterStep.get_output_port")
inline("streamflow/workflow/step.py", "ScatterStep.get_size_port")
inline("streamflow/workflow/step.py", "InputInjectorStep.add_output_port")

inline("streamflow/core/persistence.py", "PersistableEntity.__init__")
inline("streamflow/core/workflow.py", "Step.__init__")
inline("streamflow/core/workflow.py", "Step._add_port")
inline("streamflow/core/workflow.py", "Step.add_input_port")
inline("streamflow/core/workflow.py", "Step.add_output_port")
inline("streamflow/core/workflow.py", "Step.get_input_port")
inline("streamflow/core/workflow.py", "Step.get_output_port")
inline("streamflow/core/workflow.py", "Step._save_additional_params")
inline("streamflow/core/workflow.py", "Port.__init__")
inline("streamflow/workflow/step.py", "BaseStep.__init__")
inline("streamflow/workflow/step.py", "GatherStep.add_input_port")
inline("streamflow/workflow/step.py", "GatherStep.get_input_port")
inline("streamflow/workflow/step.py", "GatherStep.get_size_port")


@spec
def loaded_port(ctx: LoadingContext, pid: Opt[Int]) -> Port:
    """the port the loading context resolves a persistent id to"""


@spec
def loaded_workflow(ctx: LoadingContext, wid: Int) -> Workflow:
    """the workflow the loading context resolves a persistent id to"""


@extern("LoadingContext.load_port")
def _(self: LoadingContext, persistent_id: Opt[Int]) -> Port:
    ensures(result is loaded_port(self, persistent_id))


@extern("LoadingContext.load_workflow")
def _(self: LoadingContext, persistent_id: Int) -> Workflow:
    ensures(result is loaded_workflow(self, persistent_id))


@extern("asyncio.Queue")
def _() -> Val: ...


# ---- ports ------------------------------------------------------------------------------------------------------------------
@contract("streamflow/core/workflow.py", "Port._load", cls="Port")
def _(row: PortRow, loading_context: LoadingContext) -> Port:
    ensures(fresh(result) and result.name == row.name and result.workflow is loaded_workflow(loading_context, row.workflow)
            and result.persistent_id is None and len(result.token_list) == 0)


# ---- GatherStep -------------------------------------------------------------------------------------------------------------
@contract("streamflow/workflow/step.py", "GatherStep.__init__")
def _(self: GatherStep, name: Str, workflow: Workflow, size_port: Port, depth: Int = 1):
    assigns(self.persistent_id, self._saving, self.input_ports, self.name, self.output_ports, self.status, self.terminated, self.workflow,
            self._log_level, self.depth, self.size_map, self.token_map, workflow.ports)
    ensures(self.name == name and self.workflow is workflow and self.depth == depth and self.persistent_id is None)
    # the size port is wired under "__size__" (by name), and nothing else is wired
    ensures(len(self.input_ports) == 1 and self.input_ports["__size__"] == size_port.name and len(self.output_ports) == 0)
    # ... and registered in the workflow unless a port of that name already is
    ensures(size_port.name in workflow.ports and implies(size_port.name not in old(workflow.ports), workflow.ports[size_port.name] is size_port))
    ensures(forall(old(workflow.ports), lambda k: k in workflow.ports and workflow.ports[k] is old(workflow.ports)[k]))


@contract("streamflow/workflow/step.py", "GatherStep._save_additional_params")
def _(self: GatherStep, database: Database) -> GatherParams:
    requires("__size__" in self.input_ports and self.input_ports["__size__"] in self.workflow.ports)
    assigns(all_of("PersistableEntity.persistent_id"), all_of("PersistableEntity._saving"), all_of("Event.is_set"), DB.ports)
    # exactly the two keys, carrying the step's own depth and the id under which its size port IS saved (saved here if need be)
    ensures("depth" in result and result["depth"] == self.depth)
    ensures("size_port" in result and result["size_port"] is not None
            and result["size_port"] == self.workflow.ports[self.input_ports["__size__"]].persistent_id)


@contract("streamflow/workflow/step.py", "GatherStep._load", cls="GatherStep")
def _(row: GatherRow, loading_context: LoadingContext) -> GatherStep:
    requires("depth" in row.params and "size_port" in row.params)
    assigns(loaded_workflow(loading_context, row.workflow).ports)
    ensures(fresh(result) and result.name == row.name and result.workflow is loaded_workflow(loading_context, row.workflow))
    ensures(result.depth == row.params["depth"])
    # steps refer to their ports by NAME: the size port is the port the context loads from the stored id
    ensures(len(result.input_ports) == 1 and result.input_ports["__size__"] == loaded_port(loading_context, row.params["size_port"]).name)
    ensures(loaded_port(loading_context, row.params["size_port"]).name in result.workflow.ports)


@lemma
def gather_step_round_trip(s: GatherStep, db: Database, ctx: LoadingContext, wid: Int):
    """save then load: same name and depth, and the size port is the one the context loads from the id the size port was saved under"""
    requires("__size__" in s.input_ports and s.input_ports["__size__"] in s.workflow.ports)
    p = GatherStep._save_additional_params(s, db)
    sid = s.workflow.ports[s.input_ports["__size__"]].persistent_id  # the id the size port is saved under
    row = GatherRow(name=s.name, workflow=wid, params=p)
    t = GatherStep._load(row, ctx)
    ensures(t.name == s.name and t.depth == s.depth and t.workflow is loaded_workflow(ctx, wid))
    ensures(sid is not None and t.input_ports["__size__"] == loaded_port(ctx, sid).name)


# ---- ScatterStep ------------------------------------------------------------------------------------------------------------
@extern("Workflow.create_port", ignore_args="all")
def _(self: Workflow) -> Port:
    assigns(self.ports)
    ensures(fresh(result) and result.name not in old(self.ports) and result.name in self.ports and self.ports[result.name] is result)
    ensures(forall(old(self.ports), lambda k: k in self.ports and self.ports[k] is old(self.ports)[k]))


@contract("streamflow/workflow/step.py", "ScatterStep.__init__")
def _(self: ScatterStep, name: Str, workflow: Workflow, size_port: Opt[Port] = None):
    assigns(self.persistent_id, self._saving, self.input_ports, self.name, self.output_ports, self.status, self.terminated, self.workflow,
            self._log_level, workflow.ports)
    ensures(self.name == name and self.workflow is workflow and self.persistent_id is None and len(self.input_ports) == 0)
    # a given size port is wired under "__size__" (by name) and registered in the workflow unless a port of that name already is
    ensures(implies(size_port is not None, len(self.output_ports) == 1 and self.output_ports["__size__"] == size_port.name
                    and size_port.name in workflow.ports and implies(size_port.name not in old(workflow.ports), workflow.ports[size_port.name] is size_port)))
    ensures(forall(old(workflow.ports), lambda k: k in workflow.ports and workflow.ports[k] is old(workflow.ports)[k]))


@contract("streamflow/workflow/step.py", "ScatterStep._save_additional_params")
def _(self: ScatterStep, database: Database) -> ScatterParams:
    requires("__size__" in self.output_ports and self.output_ports["__size__"] in self.workflow.ports)
    assigns(all_of("PersistableEntity.persistent_id"), all_of("PersistableEntity._saving"), all_of("Event.is_set"), DB.ports)
    ensures("size_port" in result and result["size_port"] is not None
            and result["size_port"] == self.workflow.ports[self.output_ports["__size__"]].persistent_id)


@contract("streamflow/workflow/step.py", "ScatterStep._load", cls="ScatterStep")
def _(row: ScatterRow, loading_context: LoadingContext) -> ScatterStep:
    requires("size_port" in row.params)
    assigns(loaded_workflow(loading_context, row.workflow).ports)
    ensures(fresh(result) and result.name == row.name and result.workflow is loaded_workflow(loading_context, row.workflow))
    ensures(len(result.output_ports) == 1 and result.output_ports["__size__"] == loaded_port(loading_context, row.params["size_port"]).name)
    ensures(loaded_port(loading_context, row.params["size_port"]).name in result.workflow.ports)


@lemma
def scatter_step_round_trip(s: ScatterStep, db: Database, ctx: LoadingContext, wid: Int):
    requires("__size__" in s.output_ports and s.output_ports["__size__"] in s.workflow.ports)
    p = ScatterStep._save_additional_params(s, db)
    sid = s.workflow.ports[s.output_ports["__size__"]].persistent_id
    row = ScatterRow(name=s.name, workflow=wid, params=p)
    t = ScatterStep._load(row, ctx)
    ensures(t.name == s.name and t.workflow is loaded_workflow(ctx, wid))
    ensures(sid is not None and t.output_ports["__size__"] == loaded_port(ctx, sid).name)


# ---- TransferStep / InputInjectorStep: the job port ----------------------------------------------------------------------------
@contract("streamflow/workflow/step.py", "TransferStep.__init__")
def _(self: TransferStep, name: Str, workflow: Workflow, job_port: Port):
    assigns(self.persistent_id, self._saving, self.input_ports, self.name, self.output_ports, self.status, self.terminated, self.workflow,
            self._log_level, workflow.ports)
    ensures(self.name == name and self.workflow is workflow and self.persistent_id is None)
    ensures(len(self.input_ports) == 1 and self.input_ports["__job__"] == job_port.name and len(self.output_ports) == 0)
    ensures(job_port.name in workflow.ports and implies(job_port.name not in old(workflow.ports), workflow.ports[job_port.name] is job_port))
    ensures(forall(old(workflow.ports), lambda k: k in workflow.ports and workflow.ports[k] is old(workflow.ports)[k]))


@contract("streamflow/workflow/step.py", "TransferStep._save_additional_params")
def _(self: TransferStep, database: Database) -> JobPortParams:
    requires("__job__" in self.input_ports and self.input_ports["__job__"] in self.workflow.ports)
    # the id of the job port as it is NOW (the workflow saves its ports before its steps; the step does not save the port itself)
    ensures("job_port" in result and result["job_port"] == self.workflow.ports[self.input_ports["__job__"]].persistent_id)


@contract("streamflow/workflow/step.py", "TransferStep._load", cls="TransferStep")
def _(row: JobPortRow, loading_context: LoadingContext) -> TransferStep:
    requires("job_port" in row.params)
    assigns(loaded_workflow(loading_context, row.workflow).ports)
    ensures(fresh(result) and result.name == row.name and result.workflow is loaded_workflow(loading_context, row.workflow))
    ensures(len(result.input_ports) == 1 and result.input_ports["__job__"] == loaded_port(loading_context, row.params["job_port"]).name)


@lemma
def transfer_step_round_trip(s: TransferStep, db: Database, ctx: LoadingContext, wid: Int):
    requires("__job__" in s.input_ports and s.input_ports["__job__"] in s.workflow.ports)
    # the job port has been saved (Workflow.save saves the ports before the steps); otherwise None is stored and nothing can be loaded
    requires(s.workflow.ports[s.input_ports["__job__"]].persistent_id is not None)
    p = TransferStep._save_additional_params(s, db)
    jid = s.workflow.ports[s.input_ports["__job__"]].persistent_id
    row = JobPortRow(name=s.name, workflow=wid, params=p)
    t = TransferStep._load(row, ctx)
    ensures(t.name == s.name and t.input_ports["__job__"] == loaded_port(ctx, jid).name)


@contract("streamflow/workflow/step.py", "InputInjectorStep.__init__")
def _(self: InputInjectorStep, name: Str, workflow: Workflow, job_port: Port):
    assigns(self.persistent_id, self._saving, self.input_ports, self.name, self.output_ports, self.status, self.terminated, self.workflow,
            self._log_level, workflow.ports)
    ensures(self.name == name and self.workflow is workflow and self.persistent_id is None)
    ensures(len(self.input_ports) == 1 and self.input_ports["__job__"] == job_port.name and len(self.output_ports) == 0)
    ensures(forall(old(workflow.ports), lambda k: k in workflow.ports and workflow.ports[k] is old(workflow.ports)[k]))


@contract("streamflow/workflow/step.py", "InputInjectorStep._save_additional_params")
def _(self: InputInjectorStep, database: Database) -> JobPortParams:
    requires("__job__" in self.input_ports and self.input_ports["__job__"] in self.workflow.ports)
    ensures("job_port" in result and result["job_port"] == self.workflow.ports[self.input_ports["__job__"]].persistent_id)


@contract("streamflow/workflow/step.py", "InputInjectorStep._load", cls="InputInjectorStep")
def _(row: JobPortRow, loading_context: LoadingContext) -> InputInjectorStep:
    requires("job_port" in row.params)
    assigns(loaded_workflow(loading_context, row.workflow).ports)
    ensures(fresh(result) and result.name == row.name and result.workflow is loaded_workflow(loading_context, row.workflow))
    ensures(len(result.input_ports) == 1 and result.input_ports["__job__"] == loaded_port(loading_context, row.params["job_port"]).name)


@lemma
def input_injector_round_trip(s: InputInjectorStep, db: Database, ctx: LoadingContext, wid: Int):
    requires("__job__" in s.input_ports and s.input_ports["__job__"] in s.workflow.ports)
    requires(s.workflow.ports[s.input_ports["__job__"]].persistent_id is not None)
    p = InputInjectorStep._save_additional_params(s, db)
    jid = s.workflow.ports[s.input_ports["__job__"]].persistent_id
    row = JobPortRow(name=s.name, workflow=wid, params=p)
    t = InputInjectorStep._load(row, ctx)
    ensures(t.name == s.name and t.input_ports["__job__"] == loaded_port(ctx, jid).name)


# ---- DeployStep ----------------------------------------------------------------------------------------------------------------
cls("DeploymentConfig", bases=["PersistableEntity"], name=Str)
cls("DeployStep", bases=["BaseStep"], deployment_config=DeploymentConfig)
cls("DeployParams", record=True, deployment_config=Opt[Opt[Int]], connector_port=Opt[Opt[Int]])
cls("DeployRow", record=True, name=Str, workflow=Int, params=DeployParams)
inline("streamflow/workflow/step.py", "DeployStep.add_output_port")
inline("streamflow/workflow/step.py", "DeployStep.get_output_port")


@spec
def loaded_deployment(ctx: LoadingContext, did: Opt[Int]) -> DeploymentConfig:
    """the deployment configuration the loading context resolves a persistent id to (DeploymentConfig.load: contracts/C08_config.py)"""


@extern("LoadingContext.load_deployment")
def _(self: LoadingContext, persistent_id: Opt[Int]) -> DeploymentConfig:
    ensures(result is loaded_deployment(self, persistent_id))


@extern("DeploymentConfig.save")
def _(self: DeploymentConfig, database: Database):
    """(proved in contracts/C08_config.py; here what callers rely on)"""
    assigns(all_of("PersistableEntity.persistent_id"), self._saving, all_of("Event.is_set"))
    ensures(self.persistent_id is not None)
    ensures(forall(PersistableEntity, lambda e: implies(old(e.persistent_id) is not None, e.persistent_id == old(e.persistent_id))))


@contract("streamflow/workflow/step.py", "DeployStep.__init__")
def _(self: DeployStep, name: Str, workflow: Workflow, deployment_config: DeploymentConfig, connector_port: Opt[Port] = None):
    assigns(self.persistent_id, self._saving, self.input_ports, self.name, self.output_ports, self.status, self.terminated, self.workflow,
            self._log_level, self.deployment_config, workflow.ports)
    ensures(self.name == name and self.workflow is workflow and self.persistent_id is None and self.deployment_config is deployment_config)
    # the connector port is wired under the NAME OF THE DEPLOYMENT
    ensures(implies(connector_port is not None, len(self.output_ports) == 1 and self.output_ports[deployment_config.name] == connector_port.name
                    and connector_port.name in workflow.ports))
    ensures(forall(old(workflow.ports), lambda k: k in workflow.ports and workflow.ports[k] is old(workflow.ports)[k]))


@contract("streamflow/workflow/step.py", "DeployStep._save_additional_params")
def _(self: DeployStep, database: Database) -> DeployParams:
    requires(self.deployment_config.name in self.output_ports and self.output_ports[self.deployment_config.name] in self.workflow.ports)
    assigns(all_of("PersistableEntity.persistent_id"), all_of("PersistableEntity._saving"), all_of("Event.is_set"))
    # the deployment is saved here; its id and the id of the port wired under the deployment's name are stored
    ensures("deployment_config" in result and result["deployment_config"] is not None and result["deployment_config"] == self.deployment_config.persistent_id)
    ensures("connector_port" in result
            and result["connector_port"] == self.workflow.ports[self.output_ports[self.deployment_config.name]].persistent_id)
    ensures(forall(PersistableEntity, lambda e: implies(old(e.persistent_id) is not None, e.persistent_id == old(e.persistent_id))))


@contract("streamflow/workflow/step.py", "DeployStep._load", cls="DeployStep")
def _(row: DeployRow, loading_context: LoadingContext) -> DeployStep:
    requires("deployment_config" in row.params and "connector_port" in row.params)
    assigns(loaded_workflow(loading_context, row.workflow).ports)
    ensures(fresh(result) and result.name == row.name and result.workflow is loaded_workflow(loading_context, row.workflow))
    ensures(result.deployment_config is loaded_deployment(loading_context, row.params["deployment_config"]))
    ensures(len(result.output_ports) == 1 and result.output_ports[loaded_deployment(loading_context, row.params["deployment_config"]).name]
            == loaded_port(loading_context, row.params["connector_port"]).name)


@lemma
def deploy_step_round_trip(s: DeployStep, db: Database, ctx: LoadingContext, wid: Int):
    requires(s.deployment_config.name in s.output_ports and s.output_ports[s.deployment_config.name] in s.workflow.ports)
    requires(s.workflow.ports[s.output_ports[s.deployment_config.name]].persistent_id is not None)
    p = DeployStep._save_additional_params(s, db)
    did = s.deployment_config.persistent_id
    cid = s.workflow.ports[s.output_ports[s.deployment_config.name]].persistent_id
    row = DeployRow(name=s.name, workflow=wid, params=p)
    t = DeployStep._load(row, ctx)
    ensures(t.name == s.name and did is not None and t.deployment_config is loaded_deployment(ctx, did))
    ensures(cid is not None and t.output_ports[loaded_deployment(ctx, did).name] == loaded_port(ctx, cid).name)


# ---- CombinatorStep ------------------------------------------------------------------------------------------------------------
cls("Combinator", name=Str, workflow=Workflow)
cls("CombinatorRow", record=True)
cls("CombinatorStep", bases=["BaseStep"], combinator=Combinator)
cls("CombinatorStepParams", record=True, combinator=Opt[CombinatorRow])
cls("CombinatorStepRow", record=True, name=Str, workflow=Int, params=CombinatorStepParams)


@spec
def saved_combinator(c: Combinator) -> CombinatorRow:
    """the dict Combinator.save produces"""


@spec
def loaded_combinator(ctx: LoadingContext, r: CombinatorRow) -> Combinator:
    """the combinator Combinator.load builds from that dict"""


@extern("Combinator.save")
def _(self: Combinator, database: Database) -> CombinatorRow:
    ensures(result is saved_combinator(self))


@extern("Combinator.load")
def _(row: CombinatorRow, loading_context: LoadingContext) -> Combinator:
    ensures(result is loaded_combinator(loading_context, row))


@contract("streamflow/workflow/step.py", "CombinatorStep.__init__")
def _(self: CombinatorStep, name: Str, workflow: Workflow, combinator: Combinator):
    assigns(self.persistent_id, self._saving, self.input_ports, self.name, self.output_ports, self.status, self.terminated, self.workflow,
            self._log_level, self.combinator)
    ensures(self.name == name and self.workflow is workflow and self.persistent_id is None and self.combinator is combinator)
    ensures(len(self.input_ports) == 0 and len(self.output_ports) == 0)


@contract("streamflow/workflow/step.py", "CombinatorStep._save_additional_params")
def _(self: CombinatorStep, database: Database) -> CombinatorStepParams:
    ensures("combinator" in result and result["combinator"] is saved_combinator(self.combinator))


@contract("streamflow/workflow/step.py", "CombinatorStep._load", cls="CombinatorStep")
def _(row: CombinatorStepRow, loading_context: LoadingContext) -> CombinatorStep:
    requires("combinator" in row.params)
    ensures(fresh(result) and result.name == row.name and result.workflow is loaded_workflow(loading_context, row.workflow))
    ensures(result.combinator is loaded_combinator(loading_context, row.params["combinator"]))


@lemma
def combinator_step_round_trip(s: CombinatorStep, db: Database, ctx: LoadingContext, wid: Int):
    p = CombinatorStep._save_additional_params(s, db)
    row = CombinatorStepRow(name=s.name, workflow=wid, params=p)
    t = CombinatorStep._load(row, ctx)
    ensures(t.name == s.name and t.combinator is loaded_combinator(ctx, saved_combinator(s.combinator)))


# ---- Port.save / Step.save: written once, with the object's own fields -----------------------------------------------------------
cls("SavedPort", record=True, name=Str, workflow_id=Opt[Int], type=Val)
cls("SavedStep", record=True, name=Str, workflow_id=Opt[Int], status=Int, type=Val)
cls("Tables", ports=Dict[Int, SavedPort], steps=Dict[Int, SavedStep])
const("DB", Tables)
inline("streamflow/core/workflow.py", "Port._save_additional_params")


@extern("asyncio.Event")
def _() -> Event:
    ensures(fresh(result) and not result.is_set)


@extern("Event.wait")
def _(self: Event):
    """a yield point: returns once the FIRST saver has set the event, which it does after assigning the id (proved on the first-saver
    path below); an id once assigned never changes (rely condition on the other coroutines)"""
    assigns(self.is_set, all_of("PersistableEntity.persistent_id"))
    ensures(self.is_set)
    ensures(forall(PersistableEntity, lambda e: implies(e._saving is self, e.persistent_id is not None)
                   and implies(old(e.persistent_id) is not None, e.persistent_id == old(e.persistent_id))))


@extern("Event.set")
def _(self: Event):
    assigns(self.is_set)
    ensures(self.is_set)


@extern("Database.add_port", ignore_args=False)
def _(self: Database, name: Str, workflow_id: Opt[Int], type: Val, params: Dict[Str, Val]) -> Int:
    assigns(DB.ports)
    ensures(result not in old(DB.ports) and result in DB.ports and fresh(DB.ports[result]))
    ensures(DB.ports[result].name == name and DB.ports[result]["workflow_id"] == workflow_id and DB.ports[result].type == type)
    ensures(forall(old(DB.ports), lambda k: k in DB.ports and DB.ports[k] is old(DB.ports)[k]))


@contract("streamflow/core/workflow.py", "Port.save")
def _(self: Port, database: Database):
    assigns(all_of("PersistableEntity.persistent_id"), self._saving, DB.ports, all_of("Event.is_set"))
    # whoever returns from save() holds a saved port; ids are stable
    ensures(self.persistent_id is not None)
    ensures(forall(PersistableEntity, lambda e: implies(old(e.persistent_id) is not None, e.persistent_id == old(e.persistent_id))))
    # written at most once ...
    ensures(implies(old(self.persistent_id) is not None or old(self._saving) is not None, DB.ports == old(DB.ports)))
    # ... by the first saver, with the port's own name and the id of ITS workflow, under the id the port keeps
    ensures(implies(old(self.persistent_id) is None and old(self._saving) is None,
                    self.persistent_id not in old(DB.ports) and self.persistent_id in DB.ports
                    and DB.ports[self.persistent_id].name == self.name and DB.ports[self.persistent_id]["workflow_id"] == self.workflow.persistent_id
                    and self._saving is not None and self._saving.is_set))
    ensures(forall(old(DB.ports), lambda k: k in DB.ports and DB.ports[k] is old(DB.ports)[k]))
