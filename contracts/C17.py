# C17 — Retries are bounded and exhausted retries fail the workflow
STRINGS = "abstract"

excs_from("streamflow/core/exception.py")  # class hierarchy read from the source on every run
enum("Status", WAITING=0, FIREABLE=1, RUNNING=2, SKIPPED=3, COMPLETED=4, RECOVERY=5, ROLLBACK=6, FAILED=7, CANCELLED=8, RECOVERED=9)

cls("Lock")
cls("Workflow", context=StreamFlowContext, ports=Dict[Str, "InterWorkflowPort"])
cls("RecoveryRequest", lock=Lock, name=Str, version=Int, workflow=Opt[Workflow])
cls("Scheduler", n_rollback=Int, last_notified=Str)  # ghost: number of ROLLBACK notifications sent
cls("FailureManager", n_recover=Int, recover_failed=Int)  # ghost: number of recover() calls, and how many of them raised
cls("StreamFlowContext", scheduler=Scheduler, failure_manager=FailureManager)
cls("RollbackFailureManager", bases=["FailureManager"], context=StreamFlowContext, max_retries=Opt[Int], retry_delay=Opt[Int],
    _retry_requests=Dict[Str, RecoveryRequest], n_recover_runs=Int, n_recover_failed=Int)  # ghost: _recover() calls / how many raised
cls("DummyFailureManager", bases=["FailureManager"], context=StreamFlowContext)
cls("Job", name=Str)
cls("Step", workflow=Workflow)
cls("FuncGhost", failed=Int)
const("GHOST", FuncGhost)

inline("streamflow/core/recovery.py", "RecoveryRequest.__init__")


@extern("asyncio.Lock")
def _() -> Lock: ...


@extern("Scheduler.notify_status")
def _(self: Scheduler, job_name: Str, status: Int):
    assigns(self.n_rollback, self.last_notified)
    ensures(self.n_rollback == old(self.n_rollback) + ite(status == Status.ROLLBACK, 1, 0))
    ensures(self.last_notified == job_name)


@pure
def bounded(fm: RollbackFailureManager, r: RecoveryRequest) -> Bool:
    # the class invariant the statement needs: a request never counts past the limit (a limit below 1 still allows
    # the initial execution, which RecoveryRequest.__init__ numbers 1)
    return fm.max_retries is None or r.version <= fm.max_retries or r.version == 1


@contract("streamflow/core/recovery.py", "RecoveryRequest.__init__")
def _(self: RecoveryRequest, name: Str):
    assigns(self.lock, self.name, self.version, self.workflow)
    ensures(self.version == 1 and self.name == name and self.workflow is None)


@contract("streamflow/recovery/failure_manager.py", "RollbackFailureManager._update_request")
def _(self: RollbackFailureManager, job_name: Str):
    requires(job_name in self._retry_requests)
    requires(bounded(self, self._retry_requests[job_name]))
    assigns(self._retry_requests[job_name].version, self.context.scheduler.n_rollback, self.context.scheduler.last_notified)
    # exhausted retries fail, without counting and without notifying
    raises(
        FailureHandlingException,
        when=self.max_retries is not None and self._retry_requests[job_name].version >= self.max_retries,
        ensures=self._retry_requests[job_name].version == old(self._retry_requests[job_name].version)
        and self.context.scheduler.n_rollback == old(self.context.scheduler.n_rollback),
    )
    ensures(self._retry_requests[job_name].version == old(self._retry_requests[job_name].version) + 1)
    ensures(self.context.scheduler.n_rollback == old(self.context.scheduler.n_rollback) + 1)
    ensures(self.context.scheduler.last_notified == job_name)
    ensures(bounded(self, self._retry_requests[job_name]))
    # "no job is executed more times than the configured retry limit"
    ensures(self.max_retries is None or self._retry_requests[job_name].version <= self.max_retries)


@contract("streamflow/recovery/failure_manager.py", "RollbackFailureManager.get_request")
def _(self: RollbackFailureManager, job_name: Str) -> RecoveryRequest:
    assigns(self._retry_requests)
    ensures(job_name in self._retry_requests and self._retry_requests[job_name] is result)
    # one request object per job name: the counter is never reset by asking again
    ensures(implies(old(job_name in self._retry_requests), result is old(self._retry_requests[job_name]) and result.version == old(result.version)))
    ensures(implies(not old(job_name in self._retry_requests), result.version == 1))
    ensures(forall(Str, lambda k: implies(k != job_name, (k in self._retry_requests) == old(k in self._retry_requests)
                                              and implies(k in self._retry_requests, self._retry_requests[k] is old(self._retry_requests[k])))))
    ensures(forall(RecoveryRequest, lambda r: implies(r is not result or old(job_name in self._retry_requests), r.version == old(r.version))))


@contract("streamflow/recovery/failure_manager.py", "DummyFailureManager.recover")
def _(self: DummyFailureManager, job: Job, step: Step, exception: Exc):
    # without a rollback failure manager the first job failure fails the workflow: never returns normally,
    # and what propagates is the very exception that was handed in
    raises(BaseException, ensures=raised is exception)
    ensures(False)


# ---- the @recoverable wrapper: the try statement that decides whether a failure is handed to the failure manager ----
@extern("func", ignore_args=True)
def _():
    """the wrapped coroutine: returns, or raises an exception of any class (one representative per except-clause)"""
    assigns(GHOST.failed)
    ensures(GHOST.failed == 0)
    raises(asyncio.CancelledError, ensures=GHOST.failed == 0)
    raises(KeyboardInterrupt, ensures=GHOST.failed == 0)
    raises(UnrecoverableWorkflowException, ensures=GHOST.failed == 0)
    raises(WorkflowExecutionException, ensures=GHOST.failed == 1)
    raises(FailureHandlingException, ensures=GHOST.failed == 0)  # a subclass of UnrecoverableWorkflowException
    raises(Exception, ensures=GHOST.failed == 1)


@extern("FailureManager.recover", final=True)  # abstract summary of every failure manager (ghost counters); DummyFailureManager.recover refines its third clause
def _(self: FailureManager, job: Job, step: Step, exception: Exc):
    assigns(self.n_recover, self.recover_failed)
    ensures(self.n_recover == old(self.n_recover) + 1 and self.recover_failed == old(self.recover_failed))
    raises(FailureHandlingException, ensures=self.n_recover == old(self.n_recover) + 1 and self.recover_failed == old(self.recover_failed) + 1)
    raises(WorkflowExecutionException, ensures=self.n_recover == old(self.n_recover) + 1 and self.recover_failed == old(self.recover_failed) + 1)
    # ... or gives up by re-raising the very exception object it was handed (what DummyFailureManager.recover is proved to do)
    raises(BaseException, reraise="exception", ensures=self.n_recover == old(self.n_recover) + 1 and self.recover_failed == old(self.recover_failed) + 1)


@contract("streamflow/core/recovery.py", "recoverable.wrapper", stmt="Try#0")
def _(step: Step, job: Job):
    assigns(GHOST.failed, step.workflow.context.failure_manager.n_recover, step.workflow.context.failure_manager.recover_failed)
    # a recovery that fails is never swallowed: the wrapper returns normally only if no recover() call raised
    ensures(step.workflow.context.failure_manager.recover_failed == old(step.workflow.context.failure_manager.recover_failed))
    # a failure of the wrapped call is handed to the failure manager exactly once; success never is
    ensures(step.workflow.context.failure_manager.n_recover == old(step.workflow.context.failure_manager.n_recover) + GHOST.failed)
    # on every exceptional exit the same accounting holds: unrecoverable exceptions of the wrapped call (GHOST.failed == 0:
    # cancellation, interrupt, UnrecoverableWorkflowException and its subclasses) propagate without any recovery attempt;
    # a generic failure (GHOST.failed == 1) reaches here only as the exception raised by the single recover() call
    raises(asyncio.CancelledError, ensures=step.workflow.context.failure_manager.n_recover == old(step.workflow.context.failure_manager.n_recover) and GHOST.failed == 0)
    raises(KeyboardInterrupt, ensures=step.workflow.context.failure_manager.n_recover == old(step.workflow.context.failure_manager.n_recover) and GHOST.failed == 0)
    raises(Exception, ensures=step.workflow.context.failure_manager.n_recover == old(step.workflow.context.failure_manager.n_recover) + GHOST.failed
           and step.workflow.context.failure_manager.recover_failed == old(step.workflow.context.failure_manager.recover_failed) + GHOST.failed)


# ---- the rollback manager's own failure handler: a failed recovery (retries exhausted) must propagate ----------------
const("logging.INFO", Int)
const("logging.DEBUG", Int)
const("logging.WARNING", Int)


@extern("logger.isEnabledFor")
def _(level: Int) -> Bool:
    """any answer: the outcome must not depend on the configured log level"""


@extern("asyncio.sleep")
def _(delay: Int): ...


@assumed("streamflow/recovery/failure_manager.py", "RollbackFailureManager._recover")
def _(self: RollbackFailureManager, failed_job: Job, failed_step: Step):
    assigns(self.n_recover_runs, self.n_recover_failed)
    ensures(self.n_recover_runs == old(self.n_recover_runs) + 1 and self.n_recover_failed == old(self.n_recover_failed))
    raises(FailureHandlingException, ensures=self.n_recover_runs == old(self.n_recover_runs) + 1 and self.n_recover_failed == old(self.n_recover_failed) + 1)


@contract("streamflow/recovery/failure_manager.py", "RollbackFailureManager._do_handle_failure")
def _(self: RollbackFailureManager, job: Job, step: Step):
    note("the undecorated body; the @recoverable wrapper around it is verified separately (recoverable.wrapper@Try#0)")
    assigns(self.n_recover_runs, self.n_recover_failed)
    # exactly one recovery attempt; it returns normally only if that attempt succeeded, whatever the log level
    ensures(self.n_recover_runs == old(self.n_recover_runs) + 1 and self.n_recover_failed == old(self.n_recover_failed))
    raises(FailureHandlingException, ensures=self.n_recover_runs == old(self.n_recover_runs) + 1 and self.n_recover_failed == old(self.n_recover_failed) + 1)


# ---- every rollback path counts: the synchronisation of concurrent recoveries --------------------------------------------------
cls("JobToken", tag=Str, persistent_id=Int)
cls("Dag")
cls("Mapper", dag_tokens=Dag, token_instances=Dict[Int, Val])
cls("Port", name=Str)
cls("InterWorkflowPort", bases=["Port"])
const("logging.DEBUG", Int)


@extern("logger.isEnabledFor")
def _(level: Int) -> Bool: ...


@extern("logger.debug", ignore_args="all")
def _(): ...


@extern("RollbackFailureManager.is_recovering")
def _(self: RollbackFailureManager, job_name: Str) -> Bool: ...


@extern("get_job_token", ignore_args="all")
def _() -> JobToken: ...


@extern("Dag.contains", ignore_args="all")
def _(self: Dag) -> Bool: ...


@extern("Dag.successors", ignore_args="all")
def _(self: Dag) -> List[Int]: ...


@extern("Mapper.move_token_to_root", ignore_args="all")
def _(self: Mapper): ...


@extern("_get_recovery_port", ignore_args="all")
def _() -> Port: ...


@extern("InterWorkflowPort.add_inter_port", ignore_args="all")
def _(self: InterWorkflowPort): ...


@pure
def all_bounded(fm: RollbackFailureManager) -> Bool:
    return forall(fm._retry_requests, lambda n: bounded(fm, fm._retry_requests[n]))


@contract("streamflow/recovery/failure_manager.py", "RollbackFailureManager._synchronize_workflows")
def _(self: RollbackFailureManager, failed_job: Str, job_tokens: List[JobToken], mapper: Mapper, retry_requests: List[RecoveryRequest], workflow: Workflow):
    local("available_tokens", Set[Int])
    requires(all_bounded(self))
    # the requests handed in are the registered ones (they come from get_request)
    requires(forall(retry_requests, lambda r: r.name in self._retry_requests and self._retry_requests[r.name] is r))
    assigns(all_of("RecoveryRequest.version"), all_of("RecoveryRequest.workflow"), self.context.scheduler.n_rollback, self.context.scheduler.last_notified)
    raises(FailureHandlingException)
    # (the branch for a job that is already being recovered wires inter-workflow ports: its look-ups are not the subject here)
    raises(AttributeError)
    raises(KeyError)
    # whichever jobs are rolled back here — the failed one or the upstream jobs it drags along — none counts past the limit:
    # every count goes through _update_request
    ensures(all_bounded(self))
    ensures(forall(self._retry_requests, lambda n: self._retry_requests[n].version >= old(self._retry_requests[n].version)))
    invariant(0, all_bounded(self) and forall(self._retry_requests, lambda n: self._retry_requests[n].version >= old(self._retry_requests[n].version)))


# ---- a failed job fails its step -------------------------------------------------------------------------------------------------
@contract("streamflow/workflow/step.py", "_reduce_statuses")
def _(statuses: List[Int]) -> Int:
    # the first FAILED or CANCELLED job status decides: in particular a FAILED job that no CANCELLED one precedes makes the step FAILED
    # (a step that ends FAILED makes the executor raise), whatever comes later in the list
    ensures(implies(exists(range(0, len(statuses)), lambda j: statuses[j] == Status.FAILED and forall(range(0, j), lambda k: statuses[k] != Status.CANCELLED)),
                    result == Status.FAILED))
    ensures(implies(result == Status.FAILED, exists(statuses, lambda x: x == Status.FAILED)))
    invariant(0, forall(range(0, i), lambda k: statuses[k] != Status.FAILED and statuses[k] != Status.CANCELLED), index="i")
