# C20 — Provenance graph operations keep the graph consistent
# Nodes are integers (token ids / any hashable: only equality is used).  The abstract view of a graph is (N, E):
#   N = keys(_successors),  E = {(u, v) | u in N and v in _successors[u]}
STRINGS = "abstract"

cls("DirectedGraph", name=Str, _successors=Dict[Int, Set[Int]], _predecessors=Dict[Int, Set[Int]])
cls("DirectedAcyclicGraph", bases=["DirectedGraph"])


@pure
def is_node(g: DirectedGraph, u: Int) -> Bool:
    return u in g._successors


@pure
def is_edge(g: DirectedGraph, u: Int, v: Int) -> Bool:
    return u in g._successors and v in g._successors[u]


@pure
def wf(g: DirectedGraph) -> Bool:
    # representation invariant: same key set, successor and predecessor views mirror each other, edges stay inside N
    return (forall(Int, lambda u: (u in g._successors) == (u in g._predecessors))
            and forall(Int, Int, lambda u, v: implies(u in g._successors and v in g._successors[u], v in g._predecessors and u in g._predecessors[v]))
            and forall(Int, Int, lambda u, v: implies(v in g._predecessors and u in g._predecessors[v], u in g._successors and v in g._successors[u])))


@contract("streamflow/recovery/utils.py", "DirectedGraph._add_node")
def _(self: DirectedGraph, node: Int):
    requires(wf(self))
    assigns(self._successors, self._predecessors)
    ensures(wf(self))
    ensures(forall(Int, lambda u: is_node(self, u) == (old(is_node(self, u)) or u == node)))
    ensures(forall(Int, Int, lambda u, v: is_edge(self, u, v) == old(is_edge(self, u, v))))


@contract("streamflow/recovery/utils.py", "DirectedGraph.add")
def _(self: DirectedGraph, u: Int, v: Opt[Int] = None):
    requires(wf(self))
    assigns(self._successors, self._predecessors)
    ensures(wf(self))
    ensures(forall(Int, lambda w: is_node(self, w) == (old(is_node(self, w)) or w == u or (v is not None and w == v))))
    ensures(forall(Int, Int, lambda a, b: is_edge(self, a, b) == (old(is_edge(self, a, b)) or (v is not None and a == u and b == v))))


@contract("streamflow/recovery/utils.py", "DirectedGraph.contains")
def _(self: DirectedGraph, u: Int) -> Bool:
    ensures(result == is_node(self, u))


@contract("streamflow/recovery/utils.py", "DirectedGraph.get_nodes")
def _(self: DirectedGraph) -> Set[Int]:
    ensures(forall(Int, lambda u: (u in result) == is_node(self, u)))


@contract("streamflow/recovery/utils.py", "DirectedGraph.successors")
def _(self: DirectedGraph, node: Int) -> Set[Int]:
    requires(wf(self))
    raises(KeyError, when=not is_node(self, node))
    ensures(forall(Int, lambda v: (v in result) == is_edge(self, node, v)))


@contract("streamflow/recovery/utils.py", "DirectedGraph.predecessors")
def _(self: DirectedGraph, node: Int) -> Set[Int]:
    requires(wf(self))
    raises(KeyError, when=not is_node(self, node))
    ensures(forall(Int, lambda u: (u in result) == is_edge(self, u, node)))


@pure
def dupfree(xs: List[Int]) -> Bool:
    return forall(range(0, len(xs)), range(0, len(xs)), lambda i, j: implies(i != j, xs[i] != xs[j]))


@contract("streamflow/recovery/utils.py", "DirectedGraph.remove_nodes")
def _(self: DirectedGraph, nodes: List[Int], prune_dead_end: Bool = True) -> List[Int]:
    requires(wf(self))
    local("removed_nodes", List[Int])
    assigns(self._successors, self._predecessors)
    ensures(wf(self))
    # exactly the returned nodes disappear, together with every edge touching them; nothing else changes
    ensures(forall(Int, lambda u: is_node(self, u) == (old(is_node(self, u)) and u not in result)))
    ensures(forall(Int, Int, lambda u, v: is_edge(self, u, v) == (old(is_edge(self, u, v)) and u not in result and v not in result)))
    ensures(dupfree(result) and forall(result, lambda x: old(is_node(self, x))))
    # lower bound: every requested node that exists is removed
    ensures(forall(nodes, lambda x: implies(old(is_node(self, x)), x in result)))
    # pruning is complete: no surviving node that lost a successor is left without successors
    ensures(implies(prune_dead_end, forall(Int, lambda p: implies(
        is_node(self, p) and exists(Int, lambda c: old(is_edge(self, p, c)) and c in result), exists(Int, lambda c: is_edge(self, p, c))))))
    # without pruning: exactly the requested nodes, nothing more
    ensures(implies(not prune_dead_end, forall(result, lambda x: x in nodes)))
    # ---- outer loop (while stack) ----
    invariant(0, implies(not prune_dead_end, forall(removed_nodes, lambda x: x in nodes) and forall(stack, lambda x: x in nodes)))
    invariant(0, wf(self))
    invariant(0, forall(Int, lambda u: is_node(self, u) == (old(is_node(self, u)) and u not in removed_nodes)))
    invariant(0, forall(Int, Int, lambda u, v: is_edge(self, u, v) == (old(is_edge(self, u, v)) and u not in removed_nodes and v not in removed_nodes)))
    invariant(0, dupfree(removed_nodes) and forall(removed_nodes, lambda x: old(is_node(self, x))))
    invariant(0, forall(nodes, lambda x: implies(old(is_node(self, x)), x in removed_nodes or x in stack)))
    invariant(0, implies(prune_dead_end, forall(Int, lambda p: implies(
        is_node(self, p) and exists(Int, lambda c: old(is_edge(self, p, c)) and c in removed_nodes) and not exists(Int, lambda c: is_edge(self, p, c)),
        p in stack))))
    # ---- loop 1: for succ in self._successors[current] (only _predecessors is written) ----
    hint("loop1:init", let(P1=self._predecessors))
    invariant(1, forall(Int, lambda u: (u in self._predecessors) == (u in P1)), index="d1")
    invariant(1, forall(Int, Int, lambda u, v: implies(u in P1, (v in self._predecessors[u]) == (v in P1[u] and not (u in d1 and v == current)))))
    # ---- loop 2: for pred in self._predecessors[current] (only _successors and the stack are written) ----
    hint("loop2:init", let(S2=self._successors, K2=stack))
    invariant(2, forall(Int, lambda u: (u in self._successors) == (u in S2)), index="d2")
    invariant(2, forall(Int, Int, lambda u, v: implies(u in S2, (v in self._successors[u]) == (v in S2[u] and not (u in d2 and v == current)))))
    invariant(2, len(stack) >= len(K2) and forall(range(0, len(K2)), lambda j: stack[j] == K2[j]))
    invariant(2, forall(range(len(K2), len(stack)), lambda j: stack[j] in d2 and prune_dead_end))
    invariant(2, implies(prune_dead_end, forall(d2, lambda p: implies(not exists(Int, lambda c: c in self._successors[p]), p in stack))))
    hint("loop2:step", implies(prune_dead_end, exists(Int, lambda c: c in self._successors[pred]) or pred in stack))


@contract("streamflow/recovery/utils.py", "DirectedGraph.remove_node")
def _(self: DirectedGraph, node: Int, prune_dead_end: Bool = True) -> List[Int]:
    requires(wf(self))
    assigns(self._successors, self._predecessors)
    ensures(wf(self))
    ensures(forall(Int, lambda u: is_node(self, u) == (old(is_node(self, u)) and u not in result)))
    ensures(forall(Int, Int, lambda u, v: is_edge(self, u, v) == (old(is_edge(self, u, v)) and u not in result and v not in result)))
    ensures(dupfree(result) and implies(old(is_node(self, node)), node in result))
    # without pruning: the node itself and nothing more
    ensures(implies(not prune_dead_end, forall(result, lambda x: x == node)))
    ensures(implies(prune_dead_end, forall(Int, lambda p: implies(
        is_node(self, p) and exists(Int, lambda c: old(is_edge(self, p, c)) and c in result), exists(Int, lambda c: is_edge(self, p, c))))))


@contract("streamflow/recovery/utils.py", "DirectedGraph.empty")
def _(self: DirectedGraph) -> Bool:
    ensures(result == (not exists(Int, lambda u: is_node(self, u))))


@contract("streamflow/recovery/utils.py", "DirectedAcyclicGraph.get_sources")
def _(self: DirectedAcyclicGraph) -> Set[Int]:
    requires(wf(self))
    ensures(forall(Int, lambda n: (n in result) == (is_node(self, n) and not exists(Int, lambda u: is_edge(self, u, n)))))


@contract("streamflow/recovery/utils.py", "DirectedAcyclicGraph.get_sinks")
def _(self: DirectedAcyclicGraph) -> Set[Int]:
    requires(wf(self))
    ensures(forall(Int, lambda n: (n in result) == (is_node(self, n) and not exists(Int, lambda v: is_edge(self, n, v)))))


@recursive
def visited(L: List[Int], i: Int, u: Int) -> Bool:
    # u is one of the first i elements of L
    return False if i <= 0 else (visited(L, i - 1, u) or L[i - 1] == u)


@contract("streamflow/recovery/utils.py", "DirectedAcyclicGraph.promote_to_source")
def _(self: DirectedAcyclicGraph, node: Int) -> List[Int]:
    requires(wf(self))
    local("to_delete", List[Int])
    assigns(self._successors, self._predecessors)
    ensures(wf(self))
    ensures(implies(not old(is_node(self, node)), len(result) == 0))
    # the incoming edges of `node` are gone; the returned nodes (and the edges touching them) are gone; nothing else changed
    ensures(forall(Int, lambda u: is_node(self, u) == (old(is_node(self, u)) and u not in result)))
    ensures(forall(Int, Int, lambda u, v: is_edge(self, u, v) == (old(is_edge(self, u, v)) and v != node and u not in result and v not in result)))
    ensures(dupfree(result))
    # exactly the ancestors that no longer lead anywhere: no survivor that lost a successor is left with none
    ensures(forall(Int, lambda p: implies(
        is_node(self, p) and exists(Int, lambda c: old(is_edge(self, p, c)) and (c == node or c in result)), exists(Int, lambda c: is_edge(self, p, c)))))
    hint("loop0:init", let(S0=self._successors, P0=self._predecessors, L=_src0))
    invariant(0, forall(Int, lambda u: (u in self._successors) == (u in S0) and (u in self._predecessors) == (u in P0)), index="i")
    invariant(0, forall(Int, Int, lambda u, v: implies(u in S0, (v in self._successors[u])
                                                       == (v in S0[u] and not (v == node and visited(L, i, u))))))
    invariant(0, forall(Int, Int, lambda u, v: implies(u in P0, (v in self._predecessors[u])
                                                       == (v in P0[u] and not (u == node and visited(L, i, v))))))
    invariant(0, dupfree(to_delete) and forall(to_delete, lambda x: visited(L, i, x)))
    invariant(0, forall(Int, lambda p: implies(visited(L, i, p) and not exists(Int, lambda c: c in self._successors[p]), p in to_delete)))
    invariant(0, forall(range(0, i), lambda j: visited(L, i, L[j])) and forall(Int, lambda u: implies(visited(L, i, u), exists(range(0, i), lambda j: L[j] == u))))
    hint("loop0:init", forall(Int, lambda u: unfold(visited(L, i, u))))
    hint("loop0:step", forall(Int, lambda u: unfold(visited(L, i, u))))


@pure
def ren(x: Int, old_node: Int, new_node: Int) -> Int:
    return old_node if x == new_node else x


@contract("streamflow/recovery/utils.py", "DirectedGraph.replace")
def _(self: DirectedGraph, old_node: Int, new_node: Int):
    requires(wf(self))
    assigns(self._successors, self._predecessors)
    raises(ValueError, when=is_node(self, old_node) and is_node(self, new_node),
           ensures=forall(Int, lambda u: is_node(self, u) == old(is_node(self, u))) and forall(Int, Int, lambda u, v: is_edge(self, u, v) == old(is_edge(self, u, v))))
    ensures(wf(self))
    # a missing old node: nothing happens
    ensures(implies(not old(is_node(self, old_node)),
                    forall(Int, lambda u: is_node(self, u) == old(is_node(self, u))) and forall(Int, Int, lambda u, v: is_edge(self, u, v) == old(is_edge(self, u, v)))))
    # otherwise the graph is the old one with old_node renamed to new_node: every edge (self loops included) is preserved
    ensures(implies(old(is_node(self, old_node)),
                    forall(Int, lambda u: is_node(self, u) == ((old(is_node(self, u)) and u != old_node) or u == new_node))))
    ensures(implies(old(is_node(self, old_node)),
                    forall(Int, Int, lambda a, b: is_edge(self, a, b)
                           == (a != old_node and b != old_node and old(is_edge(self, ren(a, old_node, new_node), ren(b, old_node, new_node)))))))
    # ---- loop 0: for succ in self._successors[old_node] ----
    hint("loop0:init", let(SA=self._successors, PA=self._predecessors))
    invariant(0, forall(Int, lambda u: (u in self._successors) == (u in SA) and (u in self._predecessors) == (u in PA)), index="d0")
    invariant(0, forall(Int, Int, lambda u, v: implies(u in SA, (v in self._successors[u]) == (v in SA[u] or (u == new_node and v in d0)))))
    invariant(0, forall(Int, Int, lambda u, v: implies(u in PA, (v in self._predecessors[u])
                                                       == ((v in PA[u] and not (u in d0 and v == old_node)) or (u in d0 and v == new_node)))))
    # ---- loop 1: for pred in self._predecessors[old_node] ----
    hint("loop1:init", let(SB=self._successors, PB=self._predecessors))
    invariant(1, forall(Int, lambda u: (u in self._successors) == (u in SB) and (u in self._predecessors) == (u in PB)), index="d1")
    invariant(1, forall(Int, Int, lambda u, v: implies(u in PB, (v in self._predecessors[u]) == (v in PB[u] or (u == new_node and v in d1)))))
    invariant(1, forall(Int, Int, lambda u, v: implies(u in SB, (v in self._successors[u])
                                                       == ((v in SB[u] and not (u in d1 and v == old_node)) or (u in d1 and v == new_node)))))
