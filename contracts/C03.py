# C03 — Ports deliver every token to every consumer exactly once, in order
STRINGS = "abstract"
excs_from("streamflow/core/exception.py")

cls("Token", tag=Str, value=Val)
cls("TerminationToken", bases=["Token"])
cls("Queue", items=List[Token])  # asyncio.Queue: FIFO content (A-ASYNCIO)
cls("Port", name=Str, queues=Dict[Str, Queue], token_list=List[Token])


@extern("asyncio.Queue")
def _() -> Queue:
    ensures(fresh(result) and len(result.items) == 0)


@extern("Queue.put_nowait")
def _(self: Queue, item: Token):
    assigns(self.items)
    ensures(self.items == old(self.items) + [item])


@extern("Queue.get")
def _(self: Queue) -> Token:
    """a blocked get resumes only once the queue is non-empty (cooperative scheduling): modelled as a precondition"""
    requires(len(self.items) >= 1)
    assigns(self.items)
    ensures(result is old(self.items[0]) and self.items == old(self.items[1:]))


@extern("Queue.task_done")
def _(self: Queue): ...


@pure
def suffix_of(q: List[Token], tl: List[Token]) -> Bool:
    # q is the tail of tl that the consumer has not been handed yet
    return len(q) <= len(tl) and forall(range(0, len(q)), lambda j: q[j] is tl[len(tl) - len(q) + j])


@pure
def port_inv(p: Port) -> Bool:
    # representation invariant: one queue object per consumer (no sharing), each holding exactly the not-yet-delivered tail
    # of token_list.  Hence what a consumer has received so far is always a prefix of token_list: exactly once, in put order.
    return (forall(Str, Str, lambda a, b: implies(a in p.queues and b in p.queues and a != b, p.queues[a] is not p.queues[b]))
            and forall(p.queues, lambda c: suffix_of(p.queues[c].items, p.token_list)))


@contract("streamflow/core/workflow.py", "Port._init_consumer")
def _(self: Port, consumer: Str):
    requires(port_inv(self) and consumer not in self.queues)
    assigns(self.queues, all_of("Queue.items"))
    ensures(port_inv(self))
    ensures(forall(Str, lambda c: (c in self.queues) == (old(c in self.queues) or c == consumer)))
    ensures(forall(Str, lambda c: implies(old(c in self.queues), self.queues[c] is old(self.queues[c]) and self.queues[c].items == old(self.queues[c].items))))
    # a late subscriber is handed the whole history
    ensures(self.queues[consumer].items == self.token_list and fresh(self.queues[consumer]))
    invariant(0, consumer in self.queues and fresh(self.queues[consumer]) and forall(Str, lambda c: (c in self.queues) == (old(c in self.queues) or c == consumer)), index="i")
    invariant(0, forall(Str, lambda c: implies(old(c in self.queues), self.queues[c] is old(self.queues[c]))))
    invariant(0, len(self.queues[consumer].items) == i and forall(range(0, i), lambda j: self.queues[consumer].items[j] is self.token_list[j]))
    invariant(0, forall(Queue, lambda q: implies(allocated_before(q), q.items == old(q.items))))


@contract("streamflow/core/workflow.py", "Port.put")
def _(self: Port, token: Token):
    requires(port_inv(self))
    assigns(self.token_list, all_of("Queue.items"))
    ensures(port_inv(self))
    ensures(self.token_list == old(self.token_list) + [token])
    # every subscribed consumer gets the token appended to what it still has to read; nobody else's queue changes
    ensures(forall(self.queues, lambda c: self.queues[c].items == old(self.queues[c].items) + [token]))
    ensures(forall(Queue, lambda q: implies(allocated_before(q) and not exists(Str, lambda c: c in self.queues and self.queues[c] is q), q.items == old(q.items))))
    invariant(0, forall(Str, lambda c: implies(c in self.queues, self.queues[c].items == (old(self.queues[c].items) + [token] if c in d0 else old(self.queues[c].items)))), index="d0")
    invariant(0, forall(Queue, lambda q: implies(allocated_before(q) and not exists(Str, lambda c: c in self.queues and self.queues[c] is q), q.items == old(q.items))))


@contract("streamflow/core/workflow.py", "Port.get")
def _(self: Port, consumer: Str) -> Token:
    requires(port_inv(self))
    # the consumer has something to read (a blocked get resumes only after a put)
    requires(implies(consumer in self.queues, len(self.queues[consumer].items) >= 1))
    requires(implies(consumer not in self.queues, len(self.token_list) >= 1))
    assigns(self.queues, all_of("Queue.items"))
    ensures(port_inv(self))
    ensures(consumer in self.queues)
    # exactly once, in put order: the k-th get of a consumer returns token_list[k] (k = number of tokens it was handed before)
    ensures(implies(old(consumer in self.queues), result is self.token_list[len(self.token_list) - old(len(self.queues[consumer].items))]))
    ensures(implies(not old(consumer in self.queues), result is self.token_list[0]))
    ensures(len(self.queues[consumer].items) == (old(len(self.queues[consumer].items)) - 1 if old(consumer in self.queues) else len(self.token_list) - 1))
    # other consumers are not affected
    ensures(forall(Str, lambda c: implies(old(c in self.queues) and c != consumer, self.queues[c] is old(self.queues[c]) and self.queues[c].items == old(self.queues[c].items))))


@contract("streamflow/core/workflow.py", "Port.close")
def _(self: Port, consumer: Str):
    """a consumer that closes its side stays subscribed: were its queue released, a later get under the same name would be handed the
    whole history again (tokens twice, tokens after the termination token)"""
    requires(port_inv(self))
    assigns()
    ensures(port_inv(self))
    ensures(forall(Str, lambda c: (c in self.queues) == old(c in self.queues)))
    ensures(forall(Str, lambda c: implies(old(c in self.queues), self.queues[c] is old(self.queues[c]) and self.queues[c].items == old(self.queues[c].items))))
    ensures(self.token_list == old(self.token_list))


# ---- filtering port ---------------------------------------------------------------------------------------------------------
cls("FilterTokenPort", bases=["Port"])


@spec
def admitted(p: FilterTokenPort, t: Token) -> Bool:
    """the port's filter function applied to the token"""


@extern("FilterTokenPort.filter_function", pure=True)
def _(self: FilterTokenPort, token: Token) -> Bool:
    ensures(result == admitted(self, token))


@contract("streamflow/workflow/port.py", "FilterTokenPort.put")
def _(self: FilterTokenPort, token: Token):
    requires(port_inv(self))
    assigns(self.token_list, all_of("Queue.items"))
    ensures(port_inv(self))
    # exactly the tokens the filter admits (termination tokens always pass), in order
    ensures(self.token_list == (old(self.token_list) + [token] if (isinstance(token, TerminationToken) or admitted(self, token)) else old(self.token_list)))
    ensures(forall(self.queues, lambda c: self.queues[c].items
                   == (old(self.queues[c].items) + [token] if (isinstance(token, TerminationToken) or admitted(self, token)) else old(self.queues[c].items))))


# ---- boundary rules ---------------------------------------------------------------------------------------------------------
cls("BoundaryRule", action=Set[Int], port=Port, tags=List[Str])
const("BoundaryAction.PROPAGATE", Int, 1)
const("BoundaryAction.TERMINATE", Int, 2)


@contract("streamflow/workflow/port.py", "BoundaryRule.is_satisfied", pure=True)
def _(self: BoundaryRule) -> Bool:
    ensures(result == (len(self.tags) == 0))


@contract("streamflow/workflow/port.py", "BoundaryRule.remove_tag")
def _(self: BoundaryRule, tag: Str):
    assigns(self.tags)
    ensures(implies(tag not in old(self.tags), self.tags == old(self.tags)))
    ensures(implies(tag in old(self.tags), len(self.tags) == old(len(self.tags)) - 1))
    ensures(forall(Str, lambda x: implies(x != tag, (x in self.tags) == old(x in self.tags))))
    ensures(forall(self.tags, lambda x: x in old(self.tags)))
    # the rule becomes (or stays) satisfied exactly when nothing but this tag was missing
    ensures((len(self.tags) == 0) == (old(len(self.tags)) == 0 or (old(len(self.tags)) == 1 and old(self.tags[0]) == tag)))
    # on a duplicate-free tag list, removal really removes: the tag is gone and the list stays duplicate-free
    ensures(implies(old(forall(range(0, len(self.tags)), range(0, len(self.tags)), lambda a, b: implies(a != b, self.tags[a] != self.tags[b]))),
                    tag not in self.tags and forall(range(0, len(self.tags)), range(0, len(self.tags)), lambda a, b: implies(a != b, self.tags[a] != self.tags[b]))))
