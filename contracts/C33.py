# C33 — Tag ordering and tag selection follow numeric component order
# Parsed by pyvc (never imported).  Strings are abstract: `t.split(".")` is (str_nsplit, str_part), `int(s)` is
# str_toint guarded by str_isint; facts about concrete string shapes are trusted axioms tagged A-STR / A-PATHLIB,
# each exercised against CPython by harness/C33.py.
STRINGS = "abstract"

cls("Token", tag=Str, value=Val)
cls("PurePosixPath", _s=Str)


# ---- spec vocabulary -----------------------------------------------------------------------------
@spec
def wf_tag(t: Str) -> Bool:
    """t matches 0(\\.(0|[1-9][0-9]*))* — every tag in the system derives from "0" by appending ".<int>" """


@pure
def depth(t: Str) -> Int:
    return len(t.split("."))


@pure
def comp(t: Str, j: Int) -> Int:
    return int(t.split(".")[j])


@pure
def lexlt(a: Str, b: Str) -> Bool:
    # the order of the statement: depth first, then components numerically
    return depth(a) < depth(b) or (
        depth(a) == depth(b)
        and exists(
            range(0, depth(a)),
            lambda k: comp(a, k) < comp(b, k) and forall(range(0, k), lambda j: comp(a, j) == comp(b, j)),
        )
    )


@spec
def tag_prefix(a: Str, b: Str) -> Bool:
    """component-wise prefix: parts(a) == parts(b)[:depth(a)]"""


@spec
def is_step_name(s: Str) -> Bool:
    """normalised absolute posix path: '/' itself (the step of a single-tool document), or '/seg/seg...' with no empty, '.' or '..'
    segment and no trailing '/'"""


@spec
def posix_join(a: Str, b: Str) -> Str: ...


@spec
def posix_dirname(a: Str) -> Str: ...


@spec
def posix_basename(a: Str) -> Str: ...


# ---- trusted string facts (A-STR): validated at run time, never proved ---------------------------------
@axiom("A-STR")
def wf_parts_are_naturals(t: Str):
    return implies(
        wf_tag(t),
        forall(range(0, depth(t)), lambda j: parses_int(t.split(".")[j]) and comp(t, j) >= 0),
    )


@axiom("A-STR")
def canonical_decimal_injective(a: Str, b: Str):
    # join(parts(t)) == t and canonical decimals are determined by their value
    return implies(
        wf_tag(a) and wf_tag(b) and depth(a) == depth(b) and forall(range(0, depth(a)), lambda j: comp(a, j) == comp(b, j)),
        a == b,
    )


@axiom("A-STR")
def root_tag(t: Str):
    return wf_tag("0") and depth("0") == 1 and len("0") == 1 and implies(wf_tag(t), tag_prefix("0", t) and len(t) >= 1)


@axiom("A-STR")
def prefix_chain_lengths(a: Str, b: Str):
    # b == a + "." + rest  ==> strictly longer string and strictly deeper; equal depth on a prefix pair ==> same tag
    return implies(
        wf_tag(a) and wf_tag(b) and tag_prefix(a, b),
        depth(a) <= depth(b) and len(a) <= len(b) and ((depth(a) < depth(b)) == (len(a) < len(b))),
    )


@axiom("A-PATHLIB")
def job_name_splits(s: Str, t: Str):
    return implies(
        is_step_name(s) and wf_tag(t),
        posix_dirname(posix_join(s, t)) == s and posix_basename(posix_join(s, t)) == t,
    )


# ---- external contracts (trusted) -----------------------------------------------------------------------
@extern("PurePosixPath")
def _(s: Str) -> PurePosixPath:
    ensures(result._s == s)


@extern("PurePosixPath.parent", property=True)
def _(self: PurePosixPath) -> PurePosixPath:
    ensures(result._s == posix_dirname(self._s))


@extern("PurePosixPath.name", property=True)
def _(self: PurePosixPath) -> Str:
    ensures(result == posix_basename(self._s))


@extern("PurePosixPath.as_posix")
def _(self: PurePosixPath) -> Str:
    ensures(result == self._s)


# ---- contracts on the real functions --------------------------------------------------------------------
@contract("streamflow/core/utils.py", "compare_tags")
def _(tag1: Str, tag2: Str) -> Int:
    requires(wf_tag(tag1) and wf_tag(tag2))
    ensures((result < 0) == lexlt(tag1, tag2))
    ensures((result > 0) == lexlt(tag2, tag1))
    ensures((result == 0) == (tag1 == tag2))
    invariant(0, forall(range(0, i), lambda j: comp(tag1, j) == comp(tag2, j)), index="i")


@contract("streamflow/core/utils.py", "get_tag")
def _(tokens: List[Token]) -> Str:
    requires(forall(tokens, lambda t: wf_tag(t.tag)))
    # the tags form a prefix chain
    requires(forall(tokens, tokens, lambda a, b: tag_prefix(a.tag, b.tag) or tag_prefix(b.tag, a.tag)))
    ensures(result == "0" or exists(tokens, lambda t: t.tag == result))
    ensures(forall(tokens, lambda t: depth(t.tag) <= depth(result)))
    invariant(0, output_tag == "0" or exists(range(0, i), lambda j: tokens[j].tag == output_tag), index="i")
    invariant(0, forall(range(0, i), lambda j: len(tokens[j].tag) <= len(output_tag)))
    invariant(0, wf_tag(output_tag))
    invariant(0, forall(tokens, lambda t: tag_prefix(t.tag, output_tag) or tag_prefix(output_tag, t.tag)))


@contract("streamflow/core/utils.py", "get_job_step_name")
def _(job_name: Str) -> Str:
    ensures(forall(Str, Str, lambda s, t: implies(is_step_name(s) and wf_tag(t) and job_name == posix_join(s, t), result == s)))


@contract("streamflow/core/utils.py", "get_job_tag")
def _(job_name: Str) -> Str:
    ensures(forall(Str, Str, lambda s, t: implies(is_step_name(s) and wf_tag(t) and job_name == posix_join(s, t), result == t)))


# ---- order lemmas over the contract of compare_tags (ghost code, proved by the same engine) -------------
@lemma
def lexlt_irreflexive(a: Str):
    ensures(not lexlt(a, a))


@lemma
def lexlt_asymmetric(a: Str, b: Str):
    requires(lexlt(a, b))
    ensures(not lexlt(b, a))


@lemma
def lexlt_total(a: Str, b: Str):
    requires(wf_tag(a) and wf_tag(b) and a != b)
    ensures(lexlt(a, b) or lexlt(b, a))
    # least differing component, found by a ghost loop (the solver does no induction on its own)
    invariant(0, 0 <= i and forall(range(0, i), lambda j: comp(a, j) == comp(b, j)))
    i = 0
    while i < depth(a) and i < depth(b) and comp(a, i) == comp(b, i):
        i = i + 1


@lemma
def lexlt_transitive(a: Str, b: Str, c: Str):
    requires(lexlt(a, b) and lexlt(b, c))
    ensures(lexlt(a, c))


@lemma
def numeric_not_lexicographic(a: Str, b: Str):
    # "0.10 follows 0.9": two tags of depth 2 with first component equal are ordered by the numeric second component
    requires(wf_tag(a) and wf_tag(b) and depth(a) == 2 and depth(b) == 2 and comp(a, 0) == comp(b, 0))
    requires(comp(a, 1) == 9 and comp(b, 1) == 10)
    ensures(lexlt(a, b))
