# HW — lookups on Hardware that the scheduler's capacity accounting (C10) goes through.  Not a property of its own: the units are
# re-proved under the properties that name them in `depends` (pyvc/props.py).
STRINGS = "abstract"
excs_from("streamflow/core/exception.py")
const("os.sep", Str, "/")

cls("Storage", mount_point=Str, size=Real, paths=Set[Str], bind=Opt[Str])
cls("Hardware", cores=Real, memory=Real, storage=ODict[Str, Storage])


@pure
def vals(h: Hardware) -> List[Storage]:
    return list(h.storage.values())


@pure
def names(s: Storage, path: Str) -> Bool:
    # the storage is the one a path is booked on only when the path IS its mount point or was resolved to it before
    # (Storage.add_path); a path that merely lies beneath some mount point has to be resolved on the location first
    # (streamflow.data.utils.get_mount_point), because a deeper volume may be mounted in between
    return path == s.mount_point or path in s.paths


@contract("streamflow/core/scheduling.py", "Hardware.get_storage")
def _(self: Hardware, path: Str) -> Storage:
    assigns()
    raises(KeyError, when=forall(vals(self), lambda s: not names(s, path)))
    ensures(names(result, path))
    ensures(exists(range(0, len(vals(self))), lambda j: vals(self)[j] is result and forall(range(0, j), lambda m: not names(vals(self)[m], path))))
    invariant(0, forall(range(0, i), lambda m: not names(vals(self)[m], path)), index="i")


@contract("streamflow/core/scheduling.py", "Hardware.get_mount_point")
def _(self: Hardware, path: Str) -> Str:
    assigns()
    raises(KeyError, when=forall(vals(self), lambda s: not names(s, path)))
    ensures(exists(vals(self), lambda s: names(s, path) and result == s.mount_point))


# ---- the capacity check of the scheduler (C10): a location is valid for a job only if there is room on it ------------------------
cls("AvailableLocation", name=Str, hardware=Opt[Hardware], slots=Opt[Int], stacked=Bool, wraps=Opt["AvailableLocation"])
cls("Connector", deployment_name=Str)
cls("ConnectorWrapper", bases=["Connector"], connector=Connector)
cls("DefaultScheduler", hardware_locations=Dict[Str, Hardware])


@spec
def difference(capacity: Hardware, used: Hardware) -> Hardware:
    """capacity - used (Hardware.__sub__, proved in C14)"""


@spec
def enough(free: Hardware, requirement: Hardware) -> Bool:
    """free.satisfies(requirement) (Hardware.satisfies, proved in C14)"""


@spec
def nothing() -> Hardware:
    """Hardware(): no cores, no memory, an empty root storage"""


@spec
def occupying(s: DefaultScheduler, job_name: Str, location: AvailableLocation) -> Int:
    """len(self._get_running_jobs(job_name, location)): the jobs that hold a slot of the location"""


@spec
def key_of(deployment: Str, location: Str) -> Str:
    """posixpath.join(deployment, location)"""


@extern("posixpath.join", pure=True)
def _(a: Str, b: Str) -> Str:
    ensures(result == key_of(a, b))


@extern("Hardware.__init__")
def _(self: Hardware):
    ensures(self is nothing())


@extern("Hardware.__sub__", pure=True)
def _(self: Hardware, other: Hardware) -> Hardware:
    ensures(result is difference(self, other))


@extern("Hardware.satisfies", pure=True)
def _(self: Hardware, other: Hardware) -> Bool:
    ensures(result == enough(self, other))


@extern("DefaultScheduler._get_running_jobs", pure=True)
def _(self: DefaultScheduler, job_name: Str, location: AvailableLocation) -> List[Str]:
    ensures(len(result) == occupying(self, job_name, location))


@pure
def reserved_on(s: DefaultScheduler, name: Str) -> Hardware:
    return s.hardware_locations[name] if name in s.hardware_locations else nothing()


@pure
def has_room(s: DefaultScheduler, location: AvailableLocation, requirement: Hardware, job_name: Str) -> Bool:
    # hardware-aware location: what is left after the reservations satisfies the requirement — ALSO when nothing is reserved yet;
    # otherwise: fewer occupying jobs than slots (one slot when the location does not say)
    return (enough(difference(location.hardware, reserved_on(s, location.name)), requirement) if location.hardware is not None
            else occupying(s, job_name, location) < (location.slots if location.slots is not None else 1))


@pure
def inner_of(c: Connector) -> Connector:
    return cast(ConnectorWrapper, c).connector


@contract("streamflow/scheduling/scheduler.py", "DefaultScheduler._is_valid")
def _(self: DefaultScheduler, connector: Connector, location: AvailableLocation, hardware_requirements: Dict[Str, Hardware], job_name: Str) -> Bool:
    requires(key_of(connector.deployment_name, location.name) in hardware_requirements)
    requires(implies(location.stacked and location.wraps is not None, isinstance(connector, ConnectorWrapper)))
    assigns()
    raises(KeyError, strict=False)
    # a location is valid for the job only if the location itself has room for the job's requirement there
    ensures(implies(result, has_room(self, location, hardware_requirements[key_of(connector.deployment_name, location.name)], job_name)))
    # ... and, when it is stacked on another one, only if that one has room for the requirement computed for it
    ensures(implies(result and location.stacked and location.wraps is not None,
                    has_room(self, location.wraps, hardware_requirements[key_of(inner_of(connector).deployment_name, location.wraps.name)], job_name)))
    # and it IS valid when it has room and is not stacked on anything
    ensures(implies(not (location.stacked and location.wraps is not None)
                    and has_room(self, location, hardware_requirements[key_of(connector.deployment_name, location.name)], job_name), result))
    ghost("loc0", location)
    ghost("conn0", connector)
    ghost("R0", hardware_requirements[key_of(connector.deployment_name, location.name)])
    # the walk down the stack: nothing checked yet / the location itself checked, standing on what it is stacked on (or at the end) /
    # that one checked too (deeper levels are checked the same way; the contract speaks of the first two)
    invariant(0, (location is loc0 and connector is conn0 and hardware_requirement is R0)
              or (has_room(self, loc0, R0, job_name) and (location == loc0.wraps if (loc0.stacked and loc0.wraps is not None) else location is None)
                  and implies(location is not None, connector is inner_of(conn0) and hardware_requirement is hardware_requirements[key_of(inner_of(conn0).deployment_name, loc0.wraps.name)]))
              or (has_room(self, loc0, R0, job_name) and loc0.stacked and loc0.wraps is not None
                  and has_room(self, loc0.wraps, hardware_requirements[key_of(inner_of(conn0).deployment_name, loc0.wraps.name)], job_name)))
