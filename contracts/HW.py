# HW — lookups on Hardware that the scheduler's capacity accounting (C10) goes through.  Not a property of its own: the units are
# re-proved under the properties that name them in `depends` (pyvc/props.py).
STRINGS = "abstract"
excs_from("streamflow/core/exception.py")
const("os.sep", Str, "/")

cls("Storage", mount_point=Str, size=Real, paths=Set[Str], bind=Opt[Str])
cls("Hardware", cores=Real, memory=Real, storage=ODict[Str, Storage])


@pure
def vals(h: Hardware) -> List[Storage]:
    return list(h.storage.values())


@pure
def names(s: Storage, path: Str) -> Bool:
    # the storage is the one a path is booked on only when the path IS its mount point or was resolved to it before
    # (Storage.add_path); a path that merely lies beneath some mount point has to be resolved on the location first
    # (streamflow.data.utils.get_mount_point), because a deeper volume may be mounted in between
    return path == s.mount_point or path in s.paths


@contract("streamflow/core/scheduling.py", "Hardware.get_storage")
def _(self: Hardware, path: Str) -> Storage:
    assigns()
    raises(KeyError, when=forall(vals(self), lambda s: not names(s, path)))
    ensures(names(result, path))
    ensures(exists(range(0, len(vals(self))), lambda j: vals(self)[j] is result and forall(range(0, j), lambda m: not names(vals(self)[m], path))))
    invariant(0, forall(range(0, i), lambda m: not names(vals(self)[m], path)), index="i")


@contract("streamflow/core/scheduling.py", "Hardware.get_mount_point")
def _(self: Hardware, path: Str) -> Str:
    assigns()
    raises(KeyError, when=forall(vals(self), lambda s: not names(s, path)))
    ensures(exists(vals(self), lambda s: names(s, path) and result == s.mount_point))
