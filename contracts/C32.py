# C32 — Remapping CWL file values between directories is lossless
# Paths are abstract strings; os.path / urllib are uninterpreted functions with trusted axioms (A-OSPATH, A-URLLIB), each
# validated against CPython by harness/C32.py.
STRINGS = "abstract"
cls("SplitResult", scheme=Str, path=Str)
cls("ModuleType")
const("os.path.sep", Str, "/")


@spec
def relpath(p: Str, d: Str) -> Str: ...


@spec
def rebase(d: Str, rel: Str) -> Str:
    """path_processor.join(d, *rel.split(sep))"""


@spec
def unq(s: Str) -> Str:
    """urllib.parse.unquote"""


@spec
def url_scheme(s: Str) -> Str: ...


@spec
def under(p: Str, d: Str) -> Bool:
    """p is a normalised absolute path strictly below the normalised absolute directory d"""


@spec
def no_pct(s: Str) -> Bool:
    """s contains no %XX escape"""


@spec
def plain(s: Str) -> Bool:
    """s does not contain ':/'"""


@extern("os.path.relpath")
def _(p: Str, d: Str) -> Str:
    ensures(result == relpath(p, d))


@extern("urllib.parse.unquote")
def _(s: Str) -> Str:
    ensures(result == unq(s))


@extern("urllib.parse.urlsplit")
def _(s: Str) -> SplitResult:
    ensures(result.scheme == url_scheme(s))


@extern("ModuleType.join", split_star=True)
def _(self: ModuleType, d: Str, rel: Str, sep: Str) -> Str:
    ensures(result == rebase(d, rel))


@axiom("A-OSPATH")
def rebase_inverts_relpath(p: Str, d: Str):
    return implies(under(p, d), rebase(d, relpath(p, d)) == p)


@axiom("A-OSPATH")
def rebase_lands_under(p: Str, old: Str, new: Str):
    return implies(under(p, old), under(rebase(new, relpath(p, old)), new) and relpath(rebase(new, relpath(p, old)), new) == relpath(p, old))


@axiom("A-URLLIB")
def unquote_identity(s: Str):
    return implies(no_pct(s), unq(s) == s)


@axiom("A-STR")
def contains_is_plain(s: Str):
    return plain(s) == (":/" not in s)


@axiom("A-STR")
def file_url_shape(p: Str):
    # "file://" + an absolute path: contains ":/", has scheme "file", and dropping 7 characters gives the path back
    return (":/" in ("file://" + p)) and url_scheme("file://" + p) == "file" and ("file://" + p)[7:] == p


# ---- the function ----------------------------------------------------------------------------------------------------------
@contract("streamflow/cwl/utils.py", "remap_path")
def _(path_processor: ModuleType, path: Str, old_dir: Str, new_dir: Str) -> Str:
    ensures(implies(":/" not in path, result == rebase(new_dir, relpath(unq(path), old_dir))))
    ensures(implies(":/" in path and url_scheme(path) == "file", result == "file://" + rebase(new_dir, relpath(unq(path[7:]), old_dir))))
    # other URL schemes are left alone
    ensures(implies(":/" in path and url_scheme(path) != "file", result == path))


# ---- the round trip, as lemmas over that contract -----------------------------------------------------------------------------
@lemma
def roundtrip_plain_path(pp: ModuleType, p: Str, old: Str, new: Str):
    requires(under(p, old) and plain(p) and plain(rebase(new, relpath(p, old))))
    # names without %XX escapes: the case in which the round trip is lossless
    requires(no_pct(p) and no_pct(rebase(new, relpath(p, old))))
    there = remap_path(pp, p, old, new)
    back = remap_path(pp, there, new, old)
    ensures(back == p)


@lemma
def roundtrip_file_url(pp: ModuleType, p: Str, old: Str, new: Str):
    requires(under(p, old) and no_pct(p) and no_pct(rebase(new, relpath(p, old))))
    there = remap_path(pp, "file://" + p, old, new)
    back = remap_path(pp, there, new, old)
    ensures(back == "file://" + p)


@lemma
def other_schemes_unchanged(pp: ModuleType, u: Str, old: Str, new: Str):
    requires(":/" in u and url_scheme(u) != "file")
    r = remap_path(pp, u, old, new)
    ensures(r == u)


@lemma
def roundtrip_any_name(pp: ModuleType, p: Str, old: Str, new: Str):
    """the statement as written: names with percent signs included.  remap_path applies urllib.parse.unquote to plain paths and
    to file:// locations on every pass and never re-quotes, so a name containing a %XX sequence is not restored."""
    requires(under(p, old) and plain(p) and plain(rebase(new, relpath(p, old))))
    there = remap_path(pp, p, old, new)
    back = remap_path(pp, there, new, old)
    ensures_known("KF-C32-percent-names", back == p)


# ---- where the old directory comes from: the path of a CWL document / inputs file id ----------------------------------------------
@contract("streamflow/cwl/translator.py", "_get_path")
def _(element_id: Str) -> Str:
    # the directory the translator hands to remap_token_value as `old_dir` is DECODED like the locations being remapped: the
    # fragment is cut off, a file:// id is percent-decoded, anything else is returned as it is
    ensures(implies("#" not in element_id and element_id.startswith("file://"), result == unq(element_id[7:])))
    ensures(implies("#" not in element_id and not element_id.startswith("file://"), result == element_id))
    ensures(implies("#" in element_id and element_id.split("#")[0].startswith("file://"), result == unq(element_id.split("#")[0][7:])))
