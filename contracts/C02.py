# C02 (fragment) — the tag relation and the per-port token lists the combinators are built on
STRINGS = "abstract"

cls("Token", tag=Str, value=Val)
cls("Combinator")
cls("CartesianProductCombinator", bases=["Combinator"])


@contract("streamflow/workflow/step.py", "_is_parent_tag")
def _(tag: Str, parent: Str) -> Bool:
    # `parent` is an ancestor-or-self of `tag` COMPONENT-wise (0.1 is not a parent of 0.10): it has no more components, and the
    # leading components of `tag` are exactly its components
    ensures(result == (len(parent.split(".")) <= len(tag.split(".")) and forall(range(0, len(parent.split("."))), lambda j: tag.split(".")[j] == parent.split(".")[j])))


@contract("streamflow/workflow/step.py", "Combinator._add_to_port")
def _(self: Combinator, token: Token, tag_values: ODict[Str, List[Token]], port_name: Str):
    # the token is appended to the list of its port (created when missing); every other port's list is untouched
    ensures(port_name in final("tag_values", tag_values) and final("tag_values", tag_values)[port_name] == (old(tag_values[port_name]) if old(port_name in tag_values) else []) + [token])
    ensures(forall(Str, lambda p: implies(p != port_name, (p in final("tag_values", tag_values)) == old(p in tag_values)
            and implies(old(p in tag_values), final("tag_values", tag_values)[p] == old(tag_values[p])))))


@contract("streamflow/workflow/combinator.py", "CartesianProductCombinator._add_to_port")
def _(self: CartesianProductCombinator, token: Token, tag_values: ODict[Str, List[Token]], port_name: Str):
    # de-duplicating: the token is appended unless a token with the same tag is already in the list, which then stays as it is
    ghost("L0", tag_values[port_name] if port_name in tag_values else [])
    ensures(port_name in final("tag_values", tag_values))
    ensures(final("tag_values", tag_values)[port_name] == (L0 if exists(L0, lambda t: t.tag == token.tag) else L0 + [token]))
    ensures(forall(Str, lambda p: implies(p != port_name, (p in final("tag_values", tag_values)) == old(p in tag_values)
            and implies(old(p in tag_values), final("tag_values", tag_values)[p] == old(tag_values[p])))))
    invariant(0, port_name in tag_values and tag_values[port_name] == L0 and forall(range(0, i), lambda j: L0[j].tag != token.tag), index="i")
