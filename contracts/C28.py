# C28 — Steps get the binding of their nearest bound ancestor
# The StreamFlow file is a tree of JSON-like dicts.  Dicts with a fixed vocabulary of keys are declared as RECORD classes:
# key k <-> field k, a field of sort Opt[T] is an optional key (outer None = key absent; A-JSON-RECORD).
STRINGS = "abstract"
OPTIONS = {"dict_literal_class": "Node"}
excs_from("streamflow/core/exception.py")

cls("Config", name=Str, type=Str, config=Val)
cls("TargetCfg", record=True, deployment=Opt[Str], model=Opt[Str], workdir=Opt[Str], locations=Opt[Int], resources=Opt[Int], service=Opt[Str])
cls("Binding", record=True, targets=List[TargetCfg], filters=List[Config])
cls("Node", record=True, children=Dict[Str, Node], step=Opt[Opt[Binding]], port=Opt[Opt[Binding]])
cls("Wraps", record=True, deployment=Str, service=Opt[Str])
cls("Deployment", record=True, name=Str, type=Str, config=Val, external=Opt[Bool], lazy=Opt[Bool], scheduling_policy=Config, workdir=Opt[Str],
    wraps=Opt[Wraps], rank=Int)  # rank: ghost, witnesses that the wraps chains are acyclic
cls("WorkflowConfig", filesystem=Node, deployments=Dict[Str, Deployment], binding_filters=Dict[Str, Config])
cls("PurePosixPath", parts=List[Str])


# ---- the binding trie: propagate / get -------------------------------------------------------------------------------------
@recursive
def nearest(node: Node, parts: List[Str], i: Int, value: Opt[Binding], name: Str) -> Opt[Binding]:
    # walking down the path from `node` (having consumed i parts, `value` being the binding of the deepest bound ancestor seen so
    # far): the value attached to the deepest node on the path that carries attribute `name`
    return value if (i >= len(parts) or parts[i] not in node.children) else nearest(
        node.children[parts[i]], parts, i + 1, (node.children[parts[i]][name] if name in node.children[parts[i]] else value), name)


@contract("streamflow/config/config.py", "WorkflowConfig.propagate")
def _(self: WorkflowConfig, path: PurePosixPath, name: Str, default: Opt[Binding] = None) -> Opt[Binding]:
    requires(name == "step" or name == "port")
    # the binding declared on the path itself or, failing that, on its nearest ancestor path; `default` if there is none
    ensures(result == nearest(self.filesystem, path.parts, 0, default, name))
    invariant(0, nearest(current_node, path.parts, i, value, name) == nearest(self.filesystem, path.parts, 0, default, name), index="i")
    hint("loop0:init", unfold(nearest(current_node, path.parts, i, value, name)))
    hint("loop0:step", unfold(nearest(current_node, path.parts, i, value, name)))
    hint("loop0:exit", unfold(nearest(current_node, path.parts, i, value, name)))


@contract("streamflow/config/config.py", "WorkflowConfig.get")
def _(self: WorkflowConfig, path: PurePosixPath, name: Str, default: Opt[Binding] = None) -> Opt[Binding]:
    requires(name == "step" or name == "port")
    # exact lookup: the attribute of the node AT the path (None if the node exists without it), `default` if the node is missing
    ensures(result == exact(self.filesystem, path.parts, 0, default, name))
    invariant(0, exact(current_node, path.parts, i, default, name) == exact(self.filesystem, path.parts, 0, default, name), index="i")
    hint("loop0:init", unfold(exact(current_node, path.parts, i, default, name)))
    hint("loop0:step", unfold(exact(current_node, path.parts, i, default, name)))
    hint("loop0:exit", unfold(exact(current_node, path.parts, i, default, name)))


@recursive
def exact(node: Node, parts: List[Str], i: Int, default: Opt[Binding], name: Str) -> Opt[Binding]:
    return (node[name] if name in node else None) if i >= len(parts) else (
        default if parts[i] not in node.children else exact(node.children[parts[i]], parts, i + 1, default, name))


# ---- working directories along the wraps chain ---------------------------------------------------------------------------
@pure
def wf_wraps(cfg: WorkflowConfig) -> Bool:
    # every wraps reference names a declared deployment and the chains are acyclic (ghost rank strictly decreases along them):
    # what WorkflowConfig._check_stacked_deployments establishes before any binding is resolved
    return forall(cfg.deployments, lambda n: cfg.deployments[n].rank >= 0 and implies(
        cfg.deployments[n].wraps is not None,
        cfg.deployments[n].wraps.deployment in cfg.deployments and cfg.deployments[cfg.deployments[n].wraps.deployment].rank < cfg.deployments[n].rank))


@recursive
def chain_workdir(cfg: WorkflowConfig, d: Deployment) -> Opt[Str]:
    # the deployment's own workdir, else the first one found along its wraps chain
    return d.workdir if (d.workdir is not None or d.wraps is None) else chain_workdir(cfg, cfg.deployments[d.wraps.deployment])


@contract("streamflow/deployment/utils.py", "_get_workdir")
def _(deployment: Deployment, workflow_config: WorkflowConfig) -> Opt[Str]:
    requires(wf_wraps(workflow_config) and exists(workflow_config.deployments, lambda n: workflow_config.deployments[n] is deployment))
    ensures(result == chain_workdir(workflow_config, old(deployment)))
    invariant(0, chain_workdir(workflow_config, deployment) == chain_workdir(workflow_config, old(deployment)))
    invariant(0, exists(workflow_config.deployments, lambda n: workflow_config.deployments[n] is deployment))
    decreases(0, deployment.rank)
    hint("loop0:init", unfold(chain_workdir(workflow_config, deployment)))
    hint("loop0:step", unfold(chain_workdir(workflow_config, deployment)))
    hint("loop0:exit", unfold(chain_workdir(workflow_config, deployment)))


# ---- building the targets of a binding ------------------------------------------------------------------------------------------
cls("WrapsConfig", deployment=Str, service=Opt[Str])
cls("DeploymentConfig", name=Str, type=Str, config=Val, external=Bool, lazy=Bool, scheduling_policy=Config, workdir=Opt[Str], wraps=Opt[WrapsConfig])
cls("PersistableEntity")
cls("Target", bases=["PersistableEntity"], deployment=DeploymentConfig, locations=Int, service=Opt[Str], workdir=Str)


@assumed("streamflow/core/persistence.py", "PersistableEntity.__init__")
def _(self: PersistableEntity): ...


@spec
def default_workdir(deployment_type: Str) -> Str:
    """<tmp>/streamflow for local deployments, /tmp/streamflow otherwise"""


@axiom("A-PATHS")
def default_workdir_not_empty(t: Str):
    return default_workdir(t) != ""


@extern("tempfile.gettempdir")
def _() -> Str: ...


@extern("os.path.realpath")
def _(p: Str) -> Str: ...


@extern("os.path.join")
def _(a: Str, b: Str) -> Str:
    ensures(result == default_workdir("local"))


@extern("posixpath.join")
def _(a: Str, b: Str) -> Str:
    ensures(result != "")


@assumed("streamflow/core/deployment.py", "WrapsConfig.__init__")
def _(self: WrapsConfig, deployment: Str, service: Opt[Str] = None):
    assigns(self.deployment, self.service)
    ensures(self.deployment == deployment and self.service == service)


@assumed("streamflow/core/deployment.py", "DeploymentConfig.__init__")
def _(self: DeploymentConfig, name: Str, type: Str, config: Val, external: Bool = False, lazy: Bool = True, scheduling_policy: Opt[Config] = None,
      workdir: Opt[Str] = None, wraps: Opt[WrapsConfig] = None):
    assigns(self.name, self.type, self.config, self.external, self.lazy, self.scheduling_policy, self.workdir, self.wraps)
    ensures(self.name == name and self.type == type and self.external == external and self.lazy == lazy and self.workdir == workdir and self.wraps == wraps)


@contract("streamflow/core/deployment.py", "Target.__init__")
def _(self: Target, deployment: DeploymentConfig, locations: Int = 1, service: Opt[Str] = None, workdir: Opt[Str] = None):
    assigns(self.deployment, self.locations, self.service, self.workdir)
    ensures(self.deployment is deployment and self.locations == locations and self.service == service)
    # a target's working directory is its own, or else the deployment's (which get_binding_config resolves along the wraps chain)
    ensures(implies(workdir is not None and workdir != "", self.workdir == workdir))
    ensures(implies((workdir is None or workdir == "") and deployment.workdir is not None and deployment.workdir != "", self.workdir == deployment.workdir))


@contract("streamflow/deployment/utils.py", "get_wraps_config")
def _(config: Opt[Wraps]) -> Opt[WrapsConfig]:
    note("the dict form of `wraps`; the plain-string form takes the isinstance(config, str) branch, which is not modelled")
    ensures((result is None) == (config is None))
    ensures(implies(config is not None, result.deployment == config.deployment and result.service == config.service))


@contract("streamflow/deployment/utils.py", "get_binding_config", stmt="For#0")
def _(workflow_config: WorkflowConfig, config: Binding, targets: List[Target]):
    requires(wf_wraps(workflow_config) and len(targets) == 0)
    requires(forall(config.targets, lambda t: (t.deployment is not None and t.deployment in workflow_config.deployments)
                    or (t.deployment is None and t.model is not None and t.model in workflow_config.deployments)))
    # one Target per declared target, IN THE DECLARED ORDER, on the declared deployment and service ...
    ensures(len(targets) == len(config.targets))
    ensures(forall(range(0, len(targets)), lambda k: targets[k].deployment.name == decl_deployment(workflow_config, config.targets[k]).name
                   and targets[k].service == config.targets[k].service
                   and targets[k].locations == (config.targets[k].locations if config.targets[k].locations is not None else (
                       config.targets[k].resources if config.targets[k].resources is not None else 1))))
    # ... whose working directory is the target's own, else the one inherited along the deployment's wraps chain
    ensures(forall(range(0, len(targets)), lambda k: targets[k].deployment.workdir == chain_workdir(workflow_config, decl_deployment(workflow_config, config.targets[k]))))
    ensures(forall(range(0, len(targets)), lambda k: implies(config.targets[k].workdir is not None and config.targets[k].workdir != "",
                                                             targets[k].workdir == config.targets[k].workdir)))
    ensures(forall(range(0, len(targets)), lambda k: implies(
        (config.targets[k].workdir is None or config.targets[k].workdir == "") and chain_workdir(workflow_config, decl_deployment(workflow_config, config.targets[k])) is not None
        and chain_workdir(workflow_config, decl_deployment(workflow_config, config.targets[k])) != "",
        targets[k].workdir == chain_workdir(workflow_config, decl_deployment(workflow_config, config.targets[k])))))
    invariant(0, len(targets) == i, index="i")
    invariant(0, forall(range(0, i), lambda k: allocated(targets[k]) and allocated(targets[k].deployment)
                        and targets[k].deployment.name == decl_deployment(workflow_config, config.targets[k]).name
                        and targets[k].service == config.targets[k].service
                        and targets[k].locations == (config.targets[k].locations if config.targets[k].locations is not None else (
                            config.targets[k].resources if config.targets[k].resources is not None else 1))
                        and targets[k].deployment.workdir == chain_workdir(workflow_config, decl_deployment(workflow_config, config.targets[k]))))
    invariant(0, forall(range(0, i), lambda k: implies(config.targets[k].workdir is not None and config.targets[k].workdir != "", targets[k].workdir == config.targets[k].workdir)
                        and implies((config.targets[k].workdir is None or config.targets[k].workdir == "") and targets[k].deployment.workdir is not None
                                    and targets[k].deployment.workdir != "", targets[k].workdir == targets[k].deployment.workdir)))


@pure
def decl_deployment(cfg: WorkflowConfig, t: TargetCfg) -> Deployment:
    return cfg.deployments[t.deployment] if t.deployment is not None else cfg.deployments[t.model]


# ---- set_targets: one level of the tree (the recursion is used through its own contract) --------------------------------------
cls("NodeGhost", bases=[])


@spec
def depth_of(n: Node) -> Int:
    """ghost: distance of a trie node from the root (children are one deeper: the structure is a tree)"""


@pure
def tree_shaped() -> Bool:
    return (forall(Node, lambda n: forall(n.children, lambda k: depth_of(n.children[k]) == depth_of(n) + 1))
            and forall(Node, lambda n: forall(n.children, n.children, lambda a, b: implies(a != b, n.children[a] is not n.children[b]))))


@contract("streamflow/config/config.py", "set_targets")
def _(current_node: Node, target: Opt[Binding]):
    requires(tree_shaped())
    assigns(all_of("Node.step"))
    # nothing at or above this level changes; port nodes are skipped entirely
    ensures(forall(Node, lambda n: implies(depth_of(n) <= depth_of(current_node), identical(n.step, old(n.step)))))
    ensures(forall(Node, lambda n: implies(depth_of(n) == depth_of(current_node) + 1 and not exists(current_node.children, lambda k: current_node.children[k] is n),
                                           identical(n.step, old(n.step)))))
    ensures(forall(current_node.children, lambda k: implies("port" in current_node.children[k], identical(current_node.children[k].step, old(current_node.children[k].step)))))
    # every other child carries a step target afterwards: its own if it had one, else the one inherited from above
    ensures(forall(current_node.children, lambda k: implies("port" not in current_node.children[k],
            "step" in current_node.children[k]
            and current_node.children[k]["step"] == (old(current_node.children[k]["step"]) if old("step" in current_node.children[k]) else target))))
    invariant(0, forall(Node, lambda n: implies(depth_of(n) <= depth_of(current_node), identical(n.step, old(n.step)))), index="d0")
    invariant(0, forall(Node, lambda n: implies(depth_of(n) == depth_of(current_node) + 1 and not exists(current_node.children, lambda k: current_node.children[k] is n),
                                                identical(n.step, old(n.step)))))
    invariant(0, forall(current_node.children, lambda k: implies(k not in d0 or "port" in current_node.children[k],
                                                                 identical(current_node.children[k].step, old(current_node.children[k].step)))))
    invariant(0, forall(current_node.children, lambda k: implies(k in d0 and "port" not in current_node.children[k],
              "step" in current_node.children[k]
              and current_node.children[k]["step"] == (old(current_node.children[k]["step"]) if old("step" in current_node.children[k]) else target))))
