# C13 — Jobs go to the first admissible declared target
STRINGS = "abstract"
excs_from("streamflow/core/exception.py")

cls("Token", tag=Str, value=Val)
cls("FileToken", bases=["Token"])
cls("ListToken", bases=["Token"])
cls("ObjectToken", bases=["Token"])
cls("Job", name=Str, inputs=Dict[Str, Token])
cls("MatchingRule", deployment=Str, filter=Str, predicates=ODict[Str, Str], service=Opt[Str])
cls("DeploymentConfig", name=Str)
cls("Target", deployment=DeploymentConfig, service=Opt[Str])
cls("BindingFilter", name=Str)
cls("MatchingBindingFilter", bases=["BindingFilter"], matching_rules=List[MatchingRule], _evaluated_steps=Set[Str])
cls("FilterConfig", name=Str)
cls("BindingConfig", targets=List[Target], filters=List[FilterConfig])
cls("DefaultScheduler")
const("logging.WARNING", Int)
const("logging.DEBUG", Int)


@extern("logger.isEnabledFor")
def _(level: Int) -> Bool:
    """any answer: results must not depend on the configured log level"""


@extern("get_job_step_name")
def _(job_name: Str) -> Str: ...


# ---- what the statement says a matching filter keeps ------------------------------------------------------
@pure
def welltyped(r: MatchingRule, job: Job) -> Bool:
    # every predicate port is an input of the job and carries a plain (not file / list / object) token
    return forall(r.predicates, lambda k: k in job.inputs and not isinstance(job.inputs[k], (FileToken, ListToken, ObjectToken)))


@pure
def admits(r: MatchingRule, job: Job, deployment: Str, service: Opt[Str]) -> Bool:
    # "a rule for that deployment and service has all port predicates equal to the job's input values"
    return (deployment == r.deployment and (r.service is None or r.service == service)
            and forall(r.predicates, lambda k: r.predicates[k] == str(job.inputs[k].value)))


@pure
def kept(f: MatchingBindingFilter, job: Job, t: Target) -> Bool:
    return exists(f.matching_rules, lambda r: admits(r, job, t.deployment.name, t.service))


@contract("streamflow/deployment/filter/matching.py", "MatchingRule.eval", pure=True)
def _(self: MatchingRule, job: Job, deployment: Str, service: Opt[Str] = None) -> Bool:
    requires(implies(deployment == self.deployment and (self.service is None or self.service == service), welltyped(self, job)))
    ensures(result == admits(self, job, deployment, service))
    invariant(0, forall(range(0, i), lambda j: _src0[j][1] == str(job.inputs[_src0[j][0]].value)), index="i")


@recursive
def survivors(ts: List[Target], keep: List[Bool], n: Int) -> List[Target]:
    # the order-preserving filter of the first n targets
    return [] if n <= 0 else ((survivors(ts, keep, n - 1) + [ts[n - 1]]) if keep[n - 1] else survivors(ts, keep, n - 1))


@contract("streamflow/deployment/filter/matching.py", "MatchingBindingFilter.get_targets")
def _(self: MatchingBindingFilter, job: Job, targets: List[Target]) -> List[Target]:
    requires(forall(self.matching_rules, lambda r: welltyped(r, job)))
    local("filtered_targets", List[Target])
    assigns(self._evaluated_steps)
    ghost("K", [kept(self, job, t) for t in targets])
    raises(WorkflowExecutionException, when=not exists(targets, lambda t: kept(self, job, t)))
    # the survivors, IN THE DECLARED ORDER ("survive its binding filters in order ... first one in the declared order")
    ensures(result == survivors(targets, K, len(targets)))
    ensures(forall(result, lambda t: kept(self, job, t)) and forall(targets, lambda t: implies(kept(self, job, t), t in result)))
    invariant(0, filtered_targets == survivors(targets, K, i), index="i")
    invariant(0, forall(filtered_targets, lambda t: kept(self, job, t) and t in targets) and forall(range(0, i), lambda j: implies(K[j], targets[j] in filtered_targets)))
    hint("loop0:init", unfold(survivors(targets, K, i)))
    hint("loop0:step", unfold(survivors(targets, K, i)))


# ---- the filter chain in DefaultScheduler.schedule ------------------------------------------------------------
@spec
def the_filter(name: Str) -> BindingFilter:
    """the BindingFilter instance the scheduler keeps for a filter configuration name"""


@spec
def flt(f: BindingFilter, job: Job, ts: List[Target]) -> List[Target]:
    """what filter f keeps of ts for this job (each implementation's own contract; for MatchingBindingFilter see above)"""


@assumed("streamflow/scheduling/scheduler.py", "DefaultScheduler._get_binding_filter", pure=True)
def _(self: DefaultScheduler, config: FilterConfig) -> BindingFilter:
    ensures(result == the_filter(config.name))


@extern("BindingFilter.get_targets", final=True)  # abstract summary of every filter implementation
def _(self: BindingFilter, job: Job, targets: List[Target]) -> List[Target]:
    ensures(identical(result, flt(self, job, targets)))
    raises(WorkflowExecutionException)


@recursive
def chain(fs: List[FilterConfig], i: Int, job: Job, t0: List[Target]) -> List[Target]:
    return t0 if i <= 0 else flt(the_filter(fs[i - 1].name), job, chain(fs, i - 1, job, t0))


@contract("streamflow/scheduling/scheduler.py", "DefaultScheduler.schedule", stmt="For#0")
def _(self: DefaultScheduler, job: Job, binding_config: BindingConfig, targets: List[Target]):
    ghost("t0", targets)
    raises(WorkflowExecutionException, strict=False)
    # every configured filter is applied, in order, to what the previous ones kept
    ensures(identical(targets, chain(binding_config.filters, len(binding_config.filters), job, t0)))
    invariant(0, identical(targets, chain(binding_config.filters, i, job, t0)), index="i")
    hint("loop0:init", unfold(chain(binding_config.filters, i, job, t0)))
    hint("loop0:step", unfold(chain(binding_config.filters, i, job, t0)))
