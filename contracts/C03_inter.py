# C03 (inter-workflow ports) — rules fire exactly when their boundary tag set is complete, deliveries happen once and in order
# In this module every delivery `p.put(x)` made by an InterWorkflowPort — to a foreign port p, or to itself through
# super().put — is recorded in a ghost LOG by the ASSUMED contract of Port.put (whose real effect on p is proved in
# contracts/C03.py).  The contracts of the InterWorkflowPort methods are then statements about the LOG.
STRINGS = "abstract"
excs_from("streamflow/core/exception.py")

cls("Token", tag=Str, value=Val)
cls("TerminationToken", bases=["Token"])
cls("Port", name=Str, token_list=List[Token])
cls("BoundaryRule", action=Set[Int], port=Port, tags=List[Str])
cls("InterWorkflowPort", bases=["Port"], boundaries=List[BoundaryRule])
cls("Log", ports=List[Port], toks=List[Token])
const("LOG", Log)
const("BoundaryAction.PROPAGATE", Int, 1)
const("BoundaryAction.TERMINATE", Int, 2)
const("Status.RECOVERED", Int, 9)


@assumed("streamflow/core/workflow.py", "Port.put", final=True)
def _(self: Port, token: Token):
    """any put implementation, seen from the sending InterWorkflowPort: one more delivery in the ghost log.  Trusted frame
    (A-NOREENTRANCY): delivering to a port does not call back into the sender or touch its rules."""
    assigns(LOG.ports, LOG.toks)
    ensures(LOG.ports == old(LOG.ports) + [self] and LOG.toks == old(LOG.toks) + [token])


@assumed("streamflow/workflow/token.py", "TerminationToken.__init__")
def _(self: TerminationToken, value: Int):
    assigns(self.value, self.tag)


@assumed("streamflow/workflow/port.py", "BoundaryRule.is_satisfied", pure=True)
def _(self: BoundaryRule) -> Bool:
    """proved in contracts/C03.py"""
    ensures(result == (len(self.tags) == 0))


@assumed("streamflow/workflow/port.py", "BoundaryRule.remove_tag")
def _(self: BoundaryRule, tag: Str):
    """proved in contracts/C03.py"""
    assigns(self.tags)
    ensures(implies(tag not in old(self.tags), self.tags == old(self.tags)))
    ensures(implies(tag in old(self.tags), len(self.tags) == old(len(self.tags)) - 1))
    ensures(forall(self.tags, lambda x: x in old(self.tags)))
    # the rule becomes (or stays) satisfied exactly when nothing but this tag was missing
    ensures((len(self.tags) == 0) == (old(len(self.tags)) == 0 or (old(len(self.tags)) == 1 and old(self.tags[0]) == tag)))
    # on a duplicate-free tag list, removal really removes: the tag is gone and the list stays duplicate-free
    ensures(implies(old(forall(range(0, len(self.tags)), range(0, len(self.tags)), lambda a, b: implies(a != b, self.tags[a] != self.tags[b]))),
                    tag not in self.tags and forall(range(0, len(self.tags)), range(0, len(self.tags)), lambda a, b: implies(a != b, self.tags[a] != self.tags[b]))))
    ensures(forall(Str, lambda x: implies(x != tag, (x in self.tags) == old(x in self.tags))))


# ---- what one rule delivers when it fires ---------------------------------------------------------------------------------
@contract("streamflow/workflow/port.py", "InterWorkflowPort._execute_boundary_action")
def _(self: InterWorkflowPort, boundary: BoundaryRule, token: Token):
    requires(len(LOG.ports) == len(LOG.toks))
    assigns(LOG.ports, LOG.toks)
    ensures(len(LOG.ports) == len(LOG.toks))
    # PROPAGATE delivers the token itself, TERMINATE then delivers a (new) termination token — both to the rule's port
    ensures(len(LOG.ports) == old(len(LOG.ports)) + (1 if BoundaryAction.PROPAGATE in boundary.action else 0) + (1 if BoundaryAction.TERMINATE in boundary.action else 0))
    ensures(forall(range(0, old(len(LOG.ports))), lambda j: LOG.ports[j] is old(LOG.ports[j]) and LOG.toks[j] is old(LOG.toks[j])))
    ensures(forall(range(old(len(LOG.ports)), len(LOG.ports)), lambda j: LOG.ports[j] is boundary.port))
    ensures(implies(BoundaryAction.PROPAGATE in boundary.action, LOG.toks[old(len(LOG.toks))] is token))
    ensures(implies(BoundaryAction.TERMINATE in boundary.action, isinstance(LOG.toks[len(LOG.toks) - 1], TerminationToken) and fresh(LOG.toks[len(LOG.toks) - 1])))


# ---- put: every rule sees the token's tag; a rule fires iff its boundary tag set is complete; one own delivery ---------------
@pure
def fires(b: BoundaryRule, tag: Str) -> Bool:
    # after removing (the first occurrence of) tag, no boundary tag is left
    return len(b.tags) == 0 or (len(b.tags) == 1 and b.tags[0] == tag)


@recursive
def ndeliv(FIRE: List[Bool], PROP: List[Bool], TERM: List[Bool], n: Int) -> Int:
    # number of deliveries made by the first n rules
    return 0 if n <= 0 else ndeliv(FIRE, PROP, TERM, n - 1) + ((1 if PROP[n - 1] else 0) + (1 if TERM[n - 1] else 0) if FIRE[n - 1] else 0)


@contract("streamflow/workflow/port.py", "InterWorkflowPort.put")
def _(self: InterWorkflowPort, token: Token):
    requires(len(LOG.ports) == len(LOG.toks))
    requires(forall(range(0, len(self.boundaries)), range(0, len(self.boundaries)), lambda a, b: implies(a != b, self.boundaries[a] is not self.boundaries[b])))
    ghost("FIRE", [fires(b, token.tag) for b in self.boundaries])
    ghost("PROP", [BoundaryAction.PROPAGATE in b.action for b in self.boundaries])
    ghost("TERM", [BoundaryAction.TERMINATE in b.action for b in self.boundaries])
    ghost("PORTS", [b.port for b in self.boundaries])
    ghost("L0", len(LOG.ports))
    assigns(LOG.ports, LOG.toks, all_of("BoundaryRule.tags"))
    ensures(len(LOG.ports) == len(LOG.toks))
    ensures(forall(range(0, L0), lambda j: LOG.ports[j] is old(LOG.ports[j]) and LOG.toks[j] is old(LOG.toks[j])))
    # a termination token is delivered to the port itself and touches no rule
    ensures(implies(isinstance(token, TerminationToken), len(LOG.ports) == L0 + 1 and LOG.ports[L0] is self and LOG.toks[L0] is token))
    # otherwise: each rule, in order, fires iff its tag set is complete, delivering to ITS port the token (PROPAGATE) and then a
    # termination token (TERMINATE) ...
    ensures(implies(not isinstance(token, TerminationToken), forall(range(0, len(FIRE)), lambda k: implies(FIRE[k],
            forall(range(L0 + ndeliv(FIRE, PROP, TERM, k), L0 + ndeliv(FIRE, PROP, TERM, k + 1)), lambda j: LOG.ports[j] is PORTS[k])
            and implies(PROP[k], LOG.toks[L0 + ndeliv(FIRE, PROP, TERM, k)] is token)
            and implies(TERM[k], isinstance(LOG.toks[L0 + ndeliv(FIRE, PROP, TERM, k + 1) - 1], TerminationToken))))))
    # ... and the port itself receives the token exactly once: through a fired rule that targets the port itself (whatever that
    # rule's action), or else through the default delivery at the end — never both, never neither
    ensures(implies(not isinstance(token, TerminationToken),
                    len(LOG.ports) == L0 + ndeliv(FIRE, PROP, TERM, len(FIRE)) + (0 if exists(range(0, len(FIRE)), lambda k: FIRE[k] and PORTS[k] is self) else 1)))
    ensures(implies(not isinstance(token, TerminationToken) and not exists(range(0, len(FIRE)), lambda k: FIRE[k] and PORTS[k] is self),
                    LOG.ports[len(LOG.ports) - 1] is self and LOG.toks[len(LOG.toks) - 1] is token))
    invariant(0, len(LOG.ports) == len(LOG.toks) and len(LOG.ports) == L0 + ndeliv(FIRE, PROP, TERM, i), index="i")
    invariant(0, forall(range(0, L0), lambda j: LOG.ports[j] is old(LOG.ports[j]) and LOG.toks[j] is old(LOG.toks[j])))
    invariant(0, matched_self == exists(range(0, i), lambda k: FIRE[k] and PORTS[k] is self))
    invariant(0, forall(range(i, len(self.boundaries)), lambda k: self.boundaries[k].tags == old(self.boundaries[k].tags)))
    invariant(0, forall(range(0, i), lambda k: implies(FIRE[k],
              forall(range(L0 + ndeliv(FIRE, PROP, TERM, k), L0 + ndeliv(FIRE, PROP, TERM, k + 1)), lambda j: LOG.ports[j] is PORTS[k]))))
    invariant(0, forall(range(0, i), lambda k: implies(FIRE[k] and PROP[k], LOG.toks[L0 + ndeliv(FIRE, PROP, TERM, k)] is token)))
    invariant(0, forall(range(0, i), lambda k: implies(FIRE[k] and TERM[k], isinstance(LOG.toks[L0 + ndeliv(FIRE, PROP, TERM, k + 1) - 1], TerminationToken))))
    invariant(0, forall(range(0, i), lambda k: ndeliv(FIRE, PROP, TERM, k + 1) <= ndeliv(FIRE, PROP, TERM, i)
                        and ndeliv(FIRE, PROP, TERM, k + 1) == ndeliv(FIRE, PROP, TERM, k) + ((1 if PROP[k] else 0) + (1 if TERM[k] else 0) if FIRE[k] else 0)))
    invariant(0, forall(range(0, i + 1), lambda k: 0 <= ndeliv(FIRE, PROP, TERM, k) and ndeliv(FIRE, PROP, TERM, k) <= ndeliv(FIRE, PROP, TERM, i)))
    hint("loop0:init", unfold(ndeliv(FIRE, PROP, TERM, i)) and unfold(ndeliv(FIRE, PROP, TERM, i + 1)))
    hint("loop0:step", unfold(ndeliv(FIRE, PROP, TERM, i)) and unfold(ndeliv(FIRE, PROP, TERM, i + 1)))
    hint("loop0:step", boundary is self.boundaries[i - 1] and FIRE[i - 1] == (len(boundary.tags) == 0))
    hint("loop0:step", PROP[i - 1] == (BoundaryAction.PROPAGATE in boundary.action) and TERM[i - 1] == (BoundaryAction.TERMINATE in boundary.action) and PORTS[i - 1] is boundary.port)
