# C21 (fragment) — the data-location registry: what is reported, what an invalidation touches, which source is chosen
STRINGS = "abstract"
excs_from("streamflow/core/exception.py")
enum("DataType", PRIMARY=0, SYMBOLIC_LINK=1, INVALID=2)

cls("ExecutionLocation", name=Str, deployment=Str, local=Bool)
cls("Event")
cls("DataLocation", data_type=Int, location=ExecutionLocation, path=Str, relpath=Str, available=Event)
cls("_RemotePathNode", children=Dict[Str, "_RemotePathNode"], locations=ODict[Str, ODict[Str, List[DataLocation]]], valid_paths=Dict[Str, Dict[Str, Set[Str]]])
cls("Path", parts=List[Str])
cls("_RemotePathMapper", _filesystem=_RemotePathNode)
cls("DefaultDataManager", path_mapper=_RemotePathMapper)

OPTIONS = {"properties": ["DataLocation.deployment", "DataLocation.name"]}
inline("streamflow/core/data.py", "DataLocation.deployment")
inline("streamflow/core/data.py", "DataLocation.name")


@spec
def parts_of(path: Str) -> List[Str]: ...


@extern("Path")
def _(path: Str) -> Path:
    """pathlib.Path(path).parts: some sequence of components, a function of the path text only"""
    ensures(fresh(result) and result.parts == parts_of(path))


@extern("Event.wait")
def _(self: Event):
    """await event.wait(): any other coroutine may run meanwhile — in particular a transfer that ends as a symbolic link, or an
    invalidation — so every data_type may have changed when the wait returns"""
    assigns(all_of("DataLocation.data_type"))


# ---- where a path lives in the tree ------------------------------------------------------------------------------------
@recursive
def node_at(root: _RemotePathNode, parts: List[Str], n: Int) -> Opt[_RemotePathNode]:
    return root if n <= 0 else (None if node_at(root, parts, n - 1) is None or parts[n - 1] not in node_at(root, parts, n - 1).children
                                else node_at(root, parts, n - 1).children[parts[n - 1]])


@lemma
def missing_component_ends_the_walk(root: _RemotePathNode, parts: List[Str], k: Int):
    """once a component is missing, no longer prefix of the path has a node"""
    ensures(implies(0 <= k and k <= len(parts) and node_at(root, parts, k) is None, node_at(root, parts, len(parts)) is None))
    invariant(0, k <= m and m <= len(parts) and node_at(root, parts, m) is None)
    hint("loop0:body", unfold(node_at(root, parts, m + 1)))
    if 0 <= k and k <= len(parts) and node_at(root, parts, k) is None:
        m = k
        while m < len(parts):
            m = m + 1


@lemma
def walk_defined_on_prefixes(root: _RemotePathNode, parts: List[Str]):
    """if the whole path has a node, so has every prefix of it"""
    ensures(implies(node_at(root, parts, len(parts)) is not None, forall(range(0, len(parts) + 1), lambda k: node_at(root, parts, k) is not None)))
    invariant(0, 0 <= m and m <= len(parts) and forall(range(m, len(parts) + 1), lambda k: node_at(root, parts, k) is not None))
    hint("loop0:body", unfold(node_at(root, parts, m)))
    if node_at(root, parts, len(parts)) is not None:
        m = len(parts)
        while m > 0:
            m = m - 1


@pure
def listed(node: _RemotePathNode, dep: Str, name: Str, l: DataLocation) -> Bool:
    return dep in node.locations and name in node.locations[dep] and l in node.locations[dep][name]


@contract("streamflow/data/manager.py", "_RemotePathMapper.get")
def _(self: _RemotePathMapper, path: Str, data_type: Opt[Int] = None, deployment: Opt[Str] = None, name: Opt[Str] = None) -> List[DataLocation]:
    assigns()
    local("result", List[DataLocation])
    ghost("P", parts_of(path))
    ghost("N", node_at(self._filesystem, P, len(P)))
    # an unknown path has no locations
    ensures(implies(N is None, len(result) == 0))
    # everything returned is stored at the node of that path, under the requested deployment / location name, and passes the type filter
    ensures(forall(result, lambda l: N is not None and exists(N.locations, lambda d: (deployment is None or d == deployment)
            and exists(N.locations[d], lambda m: (name is None or m == name) and l in N.locations[d][m]))))
    ensures(forall(result, lambda l: data_type is None or l.data_type == data_type))
    # ... and, when both the deployment and the location name are given (the availability question), nothing that is stored under
    # them and passes the filter is left out  (with a key left open the loops run over the dict keys: membership only)
    ensures(implies(N is not None and deployment is not None and name is not None and deployment in N.locations and name in N.locations[deployment],
            forall(N.locations[deployment][name], lambda l: implies(data_type is None or l.data_type == data_type, l in result))))
    invariant(0, node == node_at(self._filesystem, P, i) and node is not None, index="i")
    hint("loop0:step", unfold(node_at(self._filesystem, P, i + 1)))
    hint("loop0:exit", unfold(node_at(self._filesystem, P, i + 1)))
    hint("exit", unfold(node_at(self._filesystem, P, final("i", 0) + 1)))
    hint("exit", missing_component_ends_the_walk(self._filesystem, P, final("i", 0) + 1))
    invariant(1, forall(result, lambda l: (data_type is None or l.data_type == data_type) and exists(node.locations, lambda d: (deployment is None or d == deployment)
              and exists(node.locations[d], lambda m: (name is None or m == name) and l in node.locations[d][m]))))
    invariant(2, forall(result, lambda l: (data_type is None or l.data_type == data_type) and exists(node.locations, lambda d: (deployment is None or d == deployment)
              and exists(node.locations[d], lambda m: (name is None or m == name) and l in node.locations[d][m]))))
    invariant(1, implies(i1 > 0 and deployment is not None and name is not None and deployment in node.locations and name in node.locations[deployment],
              forall(node.locations[deployment][name], lambda l: implies(data_type is None or l.data_type == data_type, l in result))), index="i1")
    invariant(2, implies(i2 > 0 and deployment is not None and name is not None and deployment in node.locations and name in node.locations[deployment],
              forall(node.locations[deployment][name], lambda l: implies(data_type is None or l.data_type == data_type, l in result))), index="i2")


@contract("streamflow/data/manager.py", "DefaultDataManager.get_data_locations")
def _(self: DefaultDataManager, path: Str, deployment: Opt[Str] = None, location_name: Opt[Str] = None, data_type: Opt[Int] = None) -> List[DataLocation]:
    assigns()
    # what is reported: exactly the stored locations that are not INVALID, in the stored order
    ensures(forall(result, lambda l: l.data_type != DataType.INVALID and l in result_of("_RemotePathMapper.get", 0)))
    ensures(forall(result_of("_RemotePathMapper.get", 0), lambda l: implies(l.data_type != DataType.INVALID, l in result)))
    ensures(forall(result, lambda l: data_type is None or l.data_type == data_type))


@contract("streamflow/data/manager.py", "DefaultDataManager.get_source_location")
def _(self: DefaultDataManager, path: Str, dst_deployment: Str) -> Opt[DataLocation]:
    # other coroutines run while this one waits for a copy to become available
    assigns(all_of("DataLocation.data_type"))
    # "the source location chosen for a transfer is always a valid primary copy": PRIMARY at the moment it is returned
    # (not merely when the candidates were collected), and one of the locations reported for the path
    ensures(implies(result is not None, result.data_type == DataType.PRIMARY))
    ensures(implies(result is not None, result in result_of("DefaultDataManager.get_data_locations", 0)))


# ---- invalidation -----------------------------------------------------------------------------------------------------
@pure
def filed(root: _RemotePathNode, n: _RemotePathNode) -> Bool:
    # representation invariant of one node: a location is filed under its own deployment and location name, and its own path is a
    # path of the tree
    return forall(n.locations, lambda d: forall(n.locations[d], lambda m: forall(n.locations[d][m], lambda l:
                  l.location.deployment == d and l.location.name == m
                  and node_at(root, parts_of(l.path), len(parts_of(l.path))) is not None)))


@pure
def mirrored(n: _RemotePathNode) -> Bool:
    # the valid-path sets exist for every (deployment, name) that has locations
    return forall(n.locations, lambda d: d in n.valid_paths and forall(n.locations[d], lambda m: m in n.valid_paths[d]))


@contract("streamflow/data/manager.py", "_RemotePathMapper.invalidate_location")
def _(self: _RemotePathMapper, location: ExecutionLocation, path: Str):
    ghost("P", parts_of(path))
    ghost("N", node_at(self._filesystem, P, len(P)))
    requires(forall(_RemotePathNode, lambda n: implies(isinstance(n, _RemotePathNode), filed(self._filesystem, n))))
    requires(forall(_RemotePathNode, lambda n: implies(isinstance(n, _RemotePathNode), mirrored(n))))
    # the path is known (the walk indexes children[...] directly)
    requires(N is not None)
    assigns(all_of("DataLocation.data_type"), all_of("_RemotePathNode.valid_paths"))
    # nothing on other locations, and nothing is ever made valid again by an invalidation
    ensures(forall(DataLocation, lambda x: x.data_type == old(x.data_type) or (x.data_type == DataType.INVALID
            and x.location.deployment == location.deployment and x.location.name == location.name)))
    ensures(forall(_RemotePathNode, lambda n: implies(isinstance(n, _RemotePathNode), mirrored(n))))
    # everything stored at the path's node for this location is invalid ...
    ensures(implies(location.deployment in N.locations and location.name in N.locations[location.deployment],
                    forall(N.locations[location.deployment][location.name], lambda l: l.data_type == DataType.INVALID)))
    hint("loop0:init", walk_defined_on_prefixes(self._filesystem, P))
    invariant(0, node == node_at(self._filesystem, P, i) and node is not None and allocated_before(node), index="i")
    invariant(0, forall(range(0, len(P) + 1), lambda k: node_at(self._filesystem, P, k) is not None))
    hint("loop0:body", unfold(node_at(self._filesystem, P, i + 1)))
    hint("loop0:step", unfold(node_at(self._filesystem, P, i + 1)))
    hint("loop0:exit", unfold(node_at(self._filesystem, P, i + 1)))
    hint("loop1:init", let(DEP=location.deployment, NAME=location.name))
    # loop 1: the locations stored at the node itself
    invariant(1, forall(DataLocation, lambda x: x.data_type == old(x.data_type) or (x.data_type == DataType.INVALID and x.location.deployment == DEP and x.location.name == NAME)))
    invariant(1, forall(_RemotePathNode, lambda n: implies(isinstance(n, _RemotePathNode), mirrored(n))))
    invariant(1, forall(range(0, i1), lambda j: _src1[j].data_type == DataType.INVALID), index="i1")
    # loop 2: the children; loop 3: the locations of one child (a recursive call each time one is still valid)
    invariant(2, forall(DataLocation, lambda x: x.data_type == old(x.data_type) or (x.data_type == DataType.INVALID and x.location.deployment == DEP and x.location.name == NAME)))
    invariant(2, forall(_RemotePathNode, lambda n: implies(isinstance(n, _RemotePathNode), mirrored(n))))
    invariant(2, implies(DEP in node.locations and NAME in node.locations[DEP], forall(node.locations[DEP][NAME], lambda l: l.data_type == DataType.INVALID)))
    invariant(3, forall(DataLocation, lambda x: x.data_type == old(x.data_type) or (x.data_type == DataType.INVALID and x.location.deployment == DEP and x.location.name == NAME)))
    invariant(3, forall(_RemotePathNode, lambda n: implies(isinstance(n, _RemotePathNode), mirrored(n))))
    invariant(3, implies(DEP in node.locations and NAME in node.locations[DEP], forall(node.locations[DEP][NAME], lambda l: l.data_type == DataType.INVALID)))
    # instances of the representation invariant for the two nodes at hand
    hint("loop1:body", implies(DEP in node.locations and NAME in node.locations[DEP], forall(node.locations[DEP][NAME], lambda l:
         l.location.deployment == DEP and l.location.name == NAME)))
    hint("loop3:body", implies(DEP in node_child.locations and NAME in node_child.locations[DEP], forall(node_child.locations[DEP][NAME], lambda l:
         l.location.deployment == DEP and l.location.name == NAME and node_at(self._filesystem, parts_of(l.path), len(parts_of(l.path))) is not None)))
