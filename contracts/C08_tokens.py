# C08 (fragment, fourth module) — container tokens: a ListToken is stored as the list of the ids of its elements, IN ORDER and with
# repetitions, every element saved first; it is loaded as the list of the tokens those ids resolve to, in the same order.
# asyncio.gather(*(create_task(f(x)) for x in xs)) is handled as documented in pyvc/engine.py (_gather_idiom): a gather of pure
# lookups is a list comprehension; a gather of save() tasks is the PROVED lemma gather_save (tasks sequentialised, A-GATHER-SEQ).
STRINGS = "abstract"
excs_from("streamflow/core/exception.py")

cls("Event", is_set=Bool)
cls("Database")
cls("LoadingContext")
cls("PersistableEntity", persistent_id=Opt[Int], _saving=Opt[Event])
cls("Token", bases=["PersistableEntity"], tag=Str, _recoverable=Bool)
cls("ListToken", bases=["Token"], value=List[Token])
cls("ListRow", record=True, tag=Str, value=List[Opt[Int]], recoverable=Bool)  # (ids; Opt only because persistent_id is)

inline("streamflow/core/persistence.py", "PersistableEntity.__init__")


@spec
def loaded_token(ctx: LoadingContext, tid: Opt[Int]) -> Token:
    """the token the loading context resolves a persistent id to"""


@extern("LoadingContext.load_token", pure=True)
def _(self: LoadingContext, persistent_id: Opt[Int]) -> Token:
    ensures(result == loaded_token(self, persistent_id))


@extern("Token.save")
def _(self: Token, database: Database):
    """What a container relies on.  Proved in contracts/C08.py: ids are stable, and a caller that is the FIRST saver returns normally
    only with an id.  Assumed here on top of that: a caller that found a save in flight also resumes with an id — true unless that
    other save FAILED (its `finally` sets the event without an id; the workflow then fails through the first saver's exception)."""
    assigns(all_of("PersistableEntity.persistent_id"), all_of("PersistableEntity._saving"), all_of("Event.is_set"))
    raises(WorkflowExecutionException)
    ensures(self.persistent_id is not None)
    ensures(forall(PersistableEntity, lambda e: implies(old(e.persistent_id) is not None, e.persistent_id == old(e.persistent_id))))


@lemma
def gather_save(xs: List[Token], database: Database):
    """running save() on every element (one after the other): all of them end up saved, ids are stable"""
    assigns(all_of("PersistableEntity.persistent_id"), all_of("PersistableEntity._saving"), all_of("Event.is_set"))
    raises(WorkflowExecutionException)
    ensures(forall(range(0, len(xs)), lambda j: xs[j].persistent_id is not None))
    ensures(forall(PersistableEntity, lambda e: implies(old(e.persistent_id) is not None, e.persistent_id == old(e.persistent_id))))
    invariant(0, 0 <= k and k <= len(xs) and forall(range(0, k), lambda j: xs[j].persistent_id is not None))
    invariant(0, forall(PersistableEntity, lambda e: implies(old(e.persistent_id) is not None, e.persistent_id == old(e.persistent_id))))
    k = 0
    while k < len(xs):
        Token.save(xs[k], database)
        k = k + 1


@assumed("streamflow/workflow/token.py", "ListToken.__init__")
def _(self: ListToken, value: List[Token], tag: Str = "0", recoverable: Bool = False):
    assigns(self.persistent_id, self._saving, self.value, self.tag, self._recoverable)
    raises(WorkflowExecutionException, when=recoverable)
    ensures(self.value == value and self.tag == tag and self.persistent_id is None)


@contract("streamflow/workflow/token.py", "ListToken._save_value")
def _(self: ListToken, database: Database) -> List[Opt[Int]]:
    assigns(all_of("PersistableEntity.persistent_id"), all_of("PersistableEntity._saving"), all_of("Event.is_set"))
    raises(WorkflowExecutionException)
    # one id per element, in the order of the list (an element that occurs twice is listed twice), every one of them assigned
    ensures(len(result) == len(self.value))
    ensures(forall(range(0, len(result)), lambda j: result[j] is not None and result[j] == self.value[j].persistent_id))


@contract("streamflow/workflow/token.py", "ListToken._load", cls="ListToken")
def _(row: ListRow, loading_context: LoadingContext) -> ListToken:
    ensures(fresh(result) and result.tag == row.tag and result.persistent_id is None)
    ensures(len(result.value) == len(row.value))
    ensures(forall(range(0, len(row.value)), lambda j: result.value[j] is loaded_token(loading_context, row.value[j])))


@lemma
def list_token_round_trip(t: ListToken, db: Database, ctx: LoadingContext):
    """position j of the loaded list is the token loaded from the id that position j of the saved list was stored under"""
    raises(WorkflowExecutionException)  # (a value the database cannot encode: Token.save)
    ids = ListToken._save_value(t, db)
    saved = [x.persistent_id for x in t.value]
    row = ListRow(tag=t.tag, value=ids, recoverable=False)
    u = ListToken._load(row, ctx)
    ensures(u.tag == t.tag and len(u.value) == len(t.value))
    ensures(forall(range(0, len(t.value)), lambda j: saved[j] is not None and u.value[j] is loaded_token(ctx, saved[j])))
