# C08 (fragment, third module) — configuration objects: what save() hands to the database is what load() rebuilds the object from.
# The database tables are ghost maps id -> row (record classes); add_<x> stores exactly its keyword arguments under a new id,
# get_<x> returns the stored row (assumed: SQL and the JSON column encoding are not modelled).  Each round trip is a lemma.
STRINGS = "abstract"
OPTIONS = {"dict_literal_class": ["ConfigRow", "WrapsRow"]}
excs_from("streamflow/core/exception.py")

cls("Event", is_set=Bool)
cls("PersistableEntity", persistent_id=Opt[Int], _saving=Opt[Event])
cls("ConfigRow", record=True, name=Str, type=Str, config=Dict[Str, Val])
cls("WrapsRow", record=True, deployment=Str, service=Opt[Str])
cls("FilterRow", record=True, name=Str, type=Str, config=Dict[Str, Val])
cls("DeploymentRow", record=True, name=Str, type=Str, config=Dict[Str, Val], external=Bool, lazy=Bool, scheduling_policy=ConfigRow,
    workdir=Opt[Opt[Str]], wraps=Opt[Opt[WrapsRow]])  # nullable columns: the key is always there (outer Opt), the value may be None
cls("TargetRow", record=True, deployment=Int, locations=Int, service=Opt[Opt[Str]], workdir=Str)
cls("Tables", filters=Dict[Int, FilterRow], deployments=Dict[Int, DeploymentRow], targets=Dict[Int, TargetRow])
const("DB", Tables)
cls("Database")
cls("LoadingContext", database=Database)
cls("Config", name=Str, type=Str, config=Dict[Str, Val])
cls("WrapsConfig", deployment=Str, service=Opt[Str])
cls("FilterConfig", bases=["PersistableEntity"], name=Str, type=Str, config=Dict[Str, Val])
cls("DeploymentConfig", bases=["PersistableEntity"], name=Str, type=Str, config=Dict[Str, Val], external=Bool, lazy=Bool,
    scheduling_policy=Config, workdir=Opt[Str], wraps=Opt[WrapsConfig])

inline("streamflow/core/persistence.py", "PersistableEntity.__init__")
inline("streamflow/core/config.py", "Config.__init__")
inline("streamflow/core/deployment.py", "WrapsConfig.__init__")
inline("streamflow/core/deployment.py", "FilterConfig.__init__")
inline("streamflow/core/deployment.py", "DeploymentConfig.__init__")


@extern("asyncio.Event")
def _() -> Event:
    ensures(fresh(result) and not result.is_set)


@extern("Event.wait")
def _(self: Event):
    """a yield point: returns once the FIRST saver has set the event — which it does after the id has been assigned (proved on the
    first-saver path of every save() below); an id once assigned never changes.  This is the rely condition on the other coroutines."""
    assigns(self.is_set, all_of("PersistableEntity.persistent_id"))
    ensures(self.is_set)
    ensures(forall(PersistableEntity, lambda e: implies(e._saving is self, e.persistent_id is not None)
                   and implies(old(e.persistent_id) is not None, e.persistent_id == old(e.persistent_id))))


@extern("Event.set")
def _(self: Event):
    assigns(self.is_set)
    ensures(self.is_set)


# ---- Config / WrapsConfig: plain dicts ---------------------------------------------------------------------------------------
@contract("streamflow/core/config.py", "Config.save")
def _(self: Config, database: Database) -> ConfigRow:
    ensures(result.name == self.name and result.type == self.type and result.config == self.config)


@contract("streamflow/core/config.py", "Config.load", cls="Config")
def _(row: ConfigRow, loading_context: LoadingContext) -> Config:
    ensures(fresh(result) and result.name == row.name and result.type == row.type and result.config == row.config)


@lemma
def config_round_trip(c: Config, db: Database, ctx: LoadingContext):
    r = Config.save(c, db)
    d = Config.load(r, ctx)
    ensures(d.name == c.name and d.type == c.type and d.config == c.config)


@contract("streamflow/core/deployment.py", "WrapsConfig.save")
def _(self: WrapsConfig, database: Database) -> WrapsRow:
    ensures(result.deployment == self.deployment)
    # the service key is written exactly when there is a service
    ensures(("service" in result) == (self.service is not None) and implies(self.service is not None, result["service"] == self.service))


@contract("streamflow/core/deployment.py", "WrapsConfig.load", cls="WrapsConfig")
def _(row: WrapsRow, loading_context: LoadingContext) -> WrapsConfig:
    ensures(fresh(result) and result.deployment == row.deployment)
    ensures(implies("service" in row, result.service == row["service"]) and implies("service" not in row, result.service is None))


@lemma
def wraps_round_trip(w: WrapsConfig, db: Database, ctx: LoadingContext):
    r = WrapsConfig.save(w, db)
    v = WrapsConfig.load(r, ctx)
    ensures(v.deployment == w.deployment and v.service == w.service)


# ---- FilterConfig --------------------------------------------------------------------------------------------------------------
@extern("Database.add_filter", ignore_args=False)
def _(self: Database, name: Str, type: Str, config: Dict[Str, Val]) -> Int:
    assigns(DB.filters)
    ensures(result not in old(DB.filters) and result in DB.filters and fresh(DB.filters[result]))
    ensures(DB.filters[result].name == name and DB.filters[result].type == type and DB.filters[result].config == config)
    ensures(forall(old(DB.filters), lambda k: k in DB.filters and DB.filters[k] is old(DB.filters)[k]))


@extern("Database.get_filter")
def _(self: Database, persistent_id: Int) -> FilterRow:
    requires(persistent_id in DB.filters)
    ensures(result is DB.filters[persistent_id])


@extern("LoadingContext.add_filter")
def _(self: LoadingContext, persistent_id: Int, obj: FilterConfig): ...


@contract("streamflow/core/deployment.py", "FilterConfig.save")
def _(self: FilterConfig, database: Database):
    assigns(all_of("PersistableEntity.persistent_id"), self._saving, DB.filters, all_of("Event.is_set"))
    # whoever returns from save() holds a saved object (the second saver waited for the first one's event)
    ensures(self.persistent_id is not None)
    ensures(forall(PersistableEntity, lambda e: implies(old(e.persistent_id) is not None, e.persistent_id == old(e.persistent_id))))  # ids are stable
    # saved at most once
    ensures(implies(old(self.persistent_id) is not None or old(self._saving) is not None, DB.filters == old(DB.filters)))
    ensures(implies(old(self.persistent_id) is not None, self.persistent_id == old(self.persistent_id)))
    # the first saver stores the object's own fields under the id it keeps
    ensures(implies(old(self.persistent_id) is None and old(self._saving) is None,
                    self.persistent_id is not None and self.persistent_id not in old(DB.filters) and self.persistent_id in DB.filters
                    and DB.filters[self.persistent_id].name == self.name and DB.filters[self.persistent_id].type == self.type
                    and DB.filters[self.persistent_id].config == self.config
                    and self._saving is not None and self._saving.is_set))
    ensures(forall(old(DB.filters), lambda k: k in DB.filters and DB.filters[k] is old(DB.filters)[k]))


@contract("streamflow/core/deployment.py", "FilterConfig.load", cls="FilterConfig")
def _(persistent_id: Int, loading_context: LoadingContext) -> FilterConfig:
    requires(persistent_id in DB.filters)
    ensures(fresh(result) and result.name == DB.filters[persistent_id].name and result.type == DB.filters[persistent_id].type
            and result.config == DB.filters[persistent_id].config)


@lemma
def filter_round_trip(f: FilterConfig, db: Database, ctx: LoadingContext):
    requires(f.persistent_id is None and f._saving is None)
    FilterConfig.save(f, db)
    assert f.persistent_id is not None
    g = FilterConfig.load(f.persistent_id, ctx)
    ensures(g.name == f.name and g.type == f.type and g.config == f.config)


# ---- DeploymentConfig ----------------------------------------------------------------------------------------------------------
@extern("Database.add_deployment", ignore_args=False)
def _(self: Database, name: Str, type: Str, config: Dict[Str, Val], external: Bool, lazy: Bool, scheduling_policy: ConfigRow, workdir: Opt[Str],
      wraps: Opt[WrapsRow]) -> Int:
    assigns(DB.deployments)
    ensures(result not in old(DB.deployments) and result in DB.deployments and fresh(DB.deployments[result]))
    ensures(DB.deployments[result].name == name and DB.deployments[result].type == type and DB.deployments[result].config == config
            and DB.deployments[result].external == external and DB.deployments[result].lazy == lazy
            and DB.deployments[result].scheduling_policy is scheduling_policy and DB.deployments[result]["workdir"] == workdir
            and DB.deployments[result]["wraps"] is wraps and "workdir" in DB.deployments[result] and "wraps" in DB.deployments[result])
    ensures(forall(old(DB.deployments), lambda k: k in DB.deployments and DB.deployments[k] is old(DB.deployments)[k]))


@extern("Database.get_deployment")
def _(self: Database, persistent_id: Int) -> DeploymentRow:
    requires(persistent_id in DB.deployments)
    ensures(result is DB.deployments[persistent_id])


@extern("LoadingContext.add_deployment")
def _(self: LoadingContext, persistent_id: Int, obj: DeploymentConfig): ...


@pure
def same_config(a: Config, r: ConfigRow) -> Bool:
    return r.name == a.name and r.type == a.type and r.config == a.config


@pure
def same_wraps(w: Opt[WrapsConfig], r: Opt[WrapsRow]) -> Bool:
    return (w is None) == (r is None) and implies(w is not None, r.deployment == w.deployment and ("service" in r) == (w.service is not None)
                                                     and implies(w.service is not None, r["service"] == w.service))


@pure
def deployment_stored(d: DeploymentConfig) -> Bool:
    # the row kept under the object's id carries every field of the object, the two nested configurations as the rows THEIR save() produces
    return (d.persistent_id is not None and d.persistent_id in DB.deployments
            and DB.deployments[d.persistent_id].name == d.name and DB.deployments[d.persistent_id].type == d.type
            and DB.deployments[d.persistent_id].config == d.config and DB.deployments[d.persistent_id].external == d.external
            and DB.deployments[d.persistent_id].lazy == d.lazy
            and "workdir" in DB.deployments[d.persistent_id] and DB.deployments[d.persistent_id]["workdir"] == d.workdir
            and same_config(d.scheduling_policy, DB.deployments[d.persistent_id].scheduling_policy)
            and "wraps" in DB.deployments[d.persistent_id] and same_wraps(d.wraps, DB.deployments[d.persistent_id]["wraps"]))


@contract("streamflow/core/deployment.py", "DeploymentConfig.save")
def _(self: DeploymentConfig, database: Database):
    assigns(all_of("PersistableEntity.persistent_id"), self._saving, DB.deployments, all_of("Event.is_set"))
    # whoever returns from save() holds a saved object (the second saver waited for the first one's event)
    ensures(self.persistent_id is not None)
    ensures(forall(PersistableEntity, lambda e: implies(old(e.persistent_id) is not None, e.persistent_id == old(e.persistent_id))))  # ids are stable
    ensures(implies(old(self.persistent_id) is not None or old(self._saving) is not None, DB.deployments == old(DB.deployments)))
    ensures(implies(old(self.persistent_id) is not None, self.persistent_id == old(self.persistent_id)))
    ensures(implies(old(self.persistent_id) is None and old(self._saving) is None,
                    self.persistent_id not in old(DB.deployments) and deployment_stored(self) and self._saving is not None and self._saving.is_set))
    ensures(forall(old(DB.deployments), lambda k: k in DB.deployments and DB.deployments[k] is old(DB.deployments)[k]))


@contract("streamflow/core/deployment.py", "DeploymentConfig.load", cls="DeploymentConfig")
def _(persistent_id: Int, loading_context: LoadingContext) -> DeploymentConfig:
    requires(persistent_id in DB.deployments and "workdir" in DB.deployments[persistent_id] and "wraps" in DB.deployments[persistent_id])
    ensures(fresh(result) and result.name == DB.deployments[persistent_id].name and result.type == DB.deployments[persistent_id].type
            and result.config == DB.deployments[persistent_id].config and result.external == DB.deployments[persistent_id].external
            and result.lazy == DB.deployments[persistent_id].lazy and result.workdir == DB.deployments[persistent_id]["workdir"])
    ensures(same_config(result.scheduling_policy, DB.deployments[persistent_id].scheduling_policy))
    ensures(same_wraps(result.wraps, DB.deployments[persistent_id]["wraps"]))


@lemma
def deployment_round_trip(d: DeploymentConfig, db: Database, ctx: LoadingContext):
    requires(d.persistent_id is None and d._saving is None)
    DeploymentConfig.save(d, db)
    assert d.persistent_id is not None
    e = DeploymentConfig.load(d.persistent_id, ctx)
    ensures(e.name == d.name and e.type == d.type and e.config == d.config and e.external == d.external and e.lazy == d.lazy
            and e.workdir == d.workdir)
    ensures(e.scheduling_policy.name == d.scheduling_policy.name and e.scheduling_policy.type == d.scheduling_policy.type
            and e.scheduling_policy.config == d.scheduling_policy.config)
    ensures((e.wraps is None) == (d.wraps is None)
            and implies(d.wraps is not None, e.wraps.deployment == d.wraps.deployment and e.wraps.service == d.wraps.service))


# ---- Target --------------------------------------------------------------------------------------------------------------------
cls("Target", bases=["PersistableEntity"], deployment=DeploymentConfig, locations=Int, service=Opt[Str], workdir=Str)
cls("LocalTarget", bases=["Target"])
inline("streamflow/core/deployment.py", "Target._save_additional_params")


@spec
def loaded_deployment(ctx: LoadingContext, did: Int) -> DeploymentConfig:
    """the deployment configuration DeploymentConfig.load builds for a persistent id (its contract is proved above)"""


@extern("Database.add_target", ignore_args=False)
def _(self: Database, deployment: Opt[Int], type: Val, params: Dict[Str, Val], locations: Int, service: Opt[Str], workdir: Str) -> Int:
    assigns(DB.targets)
    requires(deployment is not None)
    ensures(result not in old(DB.targets) and result in DB.targets and fresh(DB.targets[result]))
    ensures(DB.targets[result].deployment == deployment and DB.targets[result].locations == locations
            and "service" in DB.targets[result] and DB.targets[result]["service"] == service and DB.targets[result].workdir == workdir)
    ensures(forall(old(DB.targets), lambda k: k in DB.targets and DB.targets[k] is old(DB.targets)[k]))


@contract("streamflow/core/deployment.py", "Target.save")
def _(self: Target, database: Database):
    assigns(all_of("PersistableEntity.persistent_id"), self._saving, DB.targets, DB.deployments, self.deployment._saving, all_of("Event.is_set"))
    ensures(self.persistent_id is not None)
    ensures(forall(PersistableEntity, lambda e: implies(old(e.persistent_id) is not None, e.persistent_id == old(e.persistent_id))))  # ids are stable
    ensures(implies(old(self.persistent_id) is not None or old(self._saving) is not None, DB.targets == old(DB.targets)))
    # the first saver saves the deployment first and stores ITS id, with the target's own locations, service and working directory
    ensures(implies(old(self.persistent_id) is None and old(self._saving) is None,
                    self.persistent_id is not None and self.persistent_id not in old(DB.targets) and self.persistent_id in DB.targets
                    and self.deployment.persistent_id is not None
                    and DB.targets[self.persistent_id].deployment == self.deployment.persistent_id
                    and DB.targets[self.persistent_id].locations == self.locations
                    and "service" in DB.targets[self.persistent_id] and DB.targets[self.persistent_id]["service"] == self.service
                    and DB.targets[self.persistent_id].workdir == self.workdir
                    and self._saving is not None and self._saving.is_set
                    and implies(old(self.deployment.persistent_id) is None and old(self.deployment._saving) is None, deployment_stored(self.deployment))))
    ensures(forall(old(DB.targets), lambda k: k in DB.targets and DB.targets[k] is old(DB.targets)[k]))


inline("streamflow/core/deployment.py", "Target.__init__")
inline("streamflow/core/deployment.py", "LocalTarget.__init__")


@extern("tempfile.gettempdir")
def _() -> Str: ...


@extern("os.path.realpath")
def _(p: Str) -> Str: ...


@extern("os.path.join")
def _(a: Str, b: Str) -> Str:
    ensures(result != "")


@extern("posixpath.join")
def _(a: Str, b: Str) -> Str:
    ensures(result != "")


@contract("streamflow/core/deployment.py", "Target._load", cls="Target")
def _(row: TargetRow, loading_context: LoadingContext) -> Target:
    requires("service" in row and row.deployment in DB.deployments and "workdir" in DB.deployments[row.deployment] and "wraps" in DB.deployments[row.deployment])
    # the row's own columns go to the constructor arguments they came from; the deployment is the one loaded from the stored id
    ensures(fresh(result) and result.locations == row.locations and result.service == row["service"])
    ensures(implies(row.workdir != "", result.workdir == row.workdir))
    ensures(result.deployment.name == DB.deployments[row.deployment].name and result.deployment.type == DB.deployments[row.deployment].type
            and result.deployment.config == DB.deployments[row.deployment].config
            and result.deployment.external == DB.deployments[row.deployment].external and result.deployment.lazy == DB.deployments[row.deployment].lazy
            and result.deployment.workdir == DB.deployments[row.deployment]["workdir"]
            and same_config(result.deployment.scheduling_policy, DB.deployments[row.deployment].scheduling_policy)
            and same_wraps(result.deployment.wraps, DB.deployments[row.deployment]["wraps"]))


@contract("streamflow/core/deployment.py", "LocalTarget._load", cls="LocalTarget")
def _(row: TargetRow, loading_context: LoadingContext) -> LocalTarget:
    # a local target is rebuilt from its working directory alone: one location, no service, the built-in local deployment
    ensures(fresh(result) and result.locations == 1 and result.service is None and implies(row.workdir != "", result.workdir == row.workdir))
    ensures(result.deployment.type == "local" and result.deployment.name == "__LOCAL__" and result.deployment.external and not result.deployment.lazy
            and result.deployment.workdir is None and result.deployment.wraps is None)


@lemma
def target_round_trip(t: Target, db: Database, ctx: LoadingContext):
    """a target (and the deployment it is bound to, saved along with it) comes back with the same fields"""
    requires(t.persistent_id is None and t._saving is None and t.deployment.persistent_id is None and t.deployment._saving is None)
    requires(t.workdir != "")  # established by Target.__init__ (own, deployment's or default working directory: never empty)
    Target.save(t, db)
    assert t.persistent_id is not None
    u = Target._load(DB.targets[t.persistent_id], ctx)
    ensures(u.locations == t.locations and u.service == t.service and u.workdir == t.workdir)
    ensures(u.deployment.name == t.deployment.name and u.deployment.type == t.deployment.type and u.deployment.config == t.deployment.config
            and u.deployment.external == t.deployment.external and u.deployment.lazy == t.deployment.lazy and u.deployment.workdir == t.deployment.workdir)
