# C14 — Hardware arithmetic is consistent
# floats are reals (A-REAL): IEEE rounding is not modelled.
STRINGS = "abstract"
excs_from("streamflow/core/exception.py")
const("os.sep", Str, "/")

cls("Storage", mount_point=Str, size=Real, paths=Set[Str], bind=Opt[Str])
cls("Hardware", cores=Real, memory=Real, storage=ODict[Str, Storage])

inline("streamflow/core/scheduling.py", "Storage.__init__")
inline("streamflow/core/scheduling.py", "Hardware.__init__")


# ---- spec: per-mount totals as a fold over the (mount point, size) sequences ---------------------------
@pure
def mounts(ss: List[Storage]) -> List[Str]:
    return [s.mount_point for s in ss]


@pure
def sizes(ss: List[Storage]) -> List[Real]:
    return [s.size for s in ss]


@recursive
def seen(ms: List[Str], n: Int, mp: Str) -> Bool:
    return False if n <= 0 else (seen(ms, n - 1, mp) or ms[n - 1] == mp)


@recursive
def tot(ms: List[Str], zs: List[Real], n: Int, mp: Str) -> Real:
    return 0.0 if n <= 0 else tot(ms, zs, n - 1, mp) + (zs[n - 1] if ms[n - 1] == mp else 0.0)


@recursive
def firstsz(ms: List[Str], zs: List[Real], n: Int, mp: Str) -> Real:
    return 0.0 if n <= 0 else (firstsz(ms, zs, n - 1, mp) if seen(ms, n - 1, mp) else (zs[n - 1] if ms[n - 1] == mp else 0.0))


# ---- Storage -------------------------------------------------------------------------------------------
@contract("streamflow/core/scheduling.py", "Storage.__init__")
def _(self: Storage, mount_point: Str, size: Real, paths: Opt[Set[Str]] = None, bind: Opt[Str] = None):
    assigns(self.mount_point, self.size, self.paths, self.bind)
    raises(WorkflowExecutionException, when=size < 0)
    ensures(self.mount_point == mount_point and self.size == size and self.bind == bind)
    ensures(implies(paths is not None, self.paths == paths))


@contract("streamflow/core/scheduling.py", "Storage.__add__")
def _(self: Storage, other: Storage) -> Storage:
    raises(ArithmeticError, when=self.mount_point != other.mount_point)
    raises(WorkflowExecutionException, when=self.mount_point == other.mount_point and self.size + other.size < 0)
    ensures(fresh(result) and result.mount_point == self.mount_point and result.size == self.size + other.size)
    ensures(result.paths == self.paths | other.paths and result.bind == self.bind)


@contract("streamflow/core/scheduling.py", "Storage.__sub__")
def _(self: Storage, other: Storage) -> Storage:
    raises(ArithmeticError, when=self.mount_point != other.mount_point)
    raises(WorkflowExecutionException, when=self.mount_point == other.mount_point and self.size - other.size < 0)
    ensures(fresh(result) and result.mount_point == self.mount_point and result.size == self.size - other.size)
    ensures(result.paths == self.paths | other.paths and result.bind == self.bind)


@contract("streamflow/core/scheduling.py", "Storage.__or__")
def _(self: Storage, other: Storage) -> Storage:
    raises(ArithmeticError, when=self.mount_point != other.mount_point)
    raises(WorkflowExecutionException, when=self.mount_point == other.mount_point and max(self.size, other.size) < 0)
    ensures(fresh(result) and result.mount_point == self.mount_point and result.size == max(self.size, other.size))
    ensures(result.paths == self.paths | other.paths and result.bind == self.bind)


@contract("streamflow/core/scheduling.py", "Storage.__ior__")
def _(self: Storage, other: Storage) -> Storage:
    assigns(self.size, self.paths)
    raises(ArithmeticError, when=self.mount_point != other.mount_point, ensures=self.size == old(self.size) and self.paths == old(self.paths))
    ensures(result is self and self.size == max(old(self.size), old(other.size)) and self.paths == old(self.paths | other.paths))


# ---- _reduce_storages ------------------------------------------------------------------------------------
@contract("streamflow/core/scheduling.py", "_reduce_storages")
def _(storages: List[Storage], operator: Fn["Storage.__add__", "Storage.__sub__"]) -> ODict[Str, Storage]:
    requires(forall(storages, lambda s: s.size >= 0))
    ghost("ms", mounts(storages))
    ghost("zs", sizes(storages))
    # only subtraction can go negative (Storage.__init__ rejects negative sizes)
    raises(WorkflowExecutionException, when=operator == Storage.__sub__, strict=False)
    # result is normalised: key == mount point, one fresh Storage per mount point of the input
    ensures(forall(result, lambda k: result[k].mount_point == k and fresh(result[k]) and result[k].size >= 0))
    ensures(forall(Str, lambda mp: (mp in result) == seen(ms, len(storages), mp)))
    ensures(implies(operator == Storage.__add__,
                    forall(result, lambda k: result[k].size == tot(ms, zs, len(storages), k))))
    ensures(implies(operator == Storage.__sub__,
                    forall(result, lambda k: result[k].size == 2 * firstsz(ms, zs, len(storages), k)
                           - tot(ms, zs, len(storages), k))))
    invariant(0, forall(storage, lambda k: storage[k].mount_point == k and fresh(storage[k])), index="i")
    invariant(0, forall(storage, lambda k: storage[k].size >= 0))
    invariant(0, forall(Str, lambda k: implies(not seen(ms, i, k), tot(ms, zs, i, k) == 0 and firstsz(ms, zs, i, k) == 0)))
    hint("loop0:step", forall(Str, lambda k: unfold(seen(ms, i, k)) and unfold(tot(ms, zs, i, k))
                              and unfold(firstsz(ms, zs, i, k))))
    hint("loop0:init", forall(Str, lambda k: unfold(seen(ms, i, k)) and unfold(tot(ms, zs, i, k))
                              and unfold(firstsz(ms, zs, i, k))))
    invariant(0, forall(Str, lambda mp: (mp in storage) == seen(ms, i, mp)))
    invariant(0, implies(operator == Storage.__add__,
                         forall(storage, lambda k: storage[k].size == tot(ms, zs, i, k))))
    invariant(0, implies(operator == Storage.__sub__,
                         forall(storage, lambda k: storage[k].size == 2 * firstsz(ms, zs, i, k)
                                - tot(ms, zs, i, k))))


# ---- Hardware --------------------------------------------------------------------------------------------
@pure
def vals(h: Hardware) -> List[Storage]:
    return list(h.storage.values())


@pure
def wf_hw(h: Hardware) -> Bool:
    # type invariant of Hardware: every Storage has a non-negative size (Storage.__init__ rejects anything else)
    return forall(vals(h), lambda s: s.size >= 0)


@contract("streamflow/core/scheduling.py", "Hardware._normalize_storage")
def _(self: Hardware) -> ODict[Str, Storage]:
    requires(wf_hw(self))
    ghost("sm", mounts(vals(self)))
    ghost("sz", sizes(vals(self)))
    ensures(forall(result, lambda k: result[k].mount_point == k and fresh(result[k]) and result[k].size >= 0))
    ensures(forall(Str, lambda mp: (mp in result) == seen(sm, len(sm), mp)))
    # normalisation preserves the per-mount totals
    ensures(forall(result, lambda k: result[k].size == tot(sm, sz, len(sm), k)))


# ---- ghost lemmas about the folds (proved by ghost loops; the solver does no induction on its own) ---------------
@lemma
def fold_concat(am: List[Str], az: List[Real], bm: List[Str], bz: List[Real], cm: List[Str], cz: List[Real]):
    """the folds over a concatenation c = a ++ b"""
    requires(len(am) == len(az) and len(bm) == len(bz) and len(cm) == len(am) + len(bm) and len(cz) == len(cm))
    requires(forall(range(0, len(am)), lambda j: cm[j] == am[j] and cz[j] == az[j]))
    requires(forall(range(0, len(bm)), lambda j: cm[len(am) + j] == bm[j] and cz[len(am) + j] == bz[j]))
    ensures(forall(Str, lambda mp: tot(cm, cz, len(cm), mp) == tot(am, az, len(am), mp) + tot(bm, bz, len(bm), mp)))
    ensures(forall(Str, lambda mp: seen(cm, len(cm), mp) == (seen(am, len(am), mp) or seen(bm, len(bm), mp))))
    ensures(forall(Str, lambda mp: firstsz(cm, cz, len(cm), mp)
                   == (firstsz(am, az, len(am), mp) if seen(am, len(am), mp) else firstsz(bm, bz, len(bm), mp))))
    invariant(0, 0 <= k and k <= len(am))
    invariant(0, forall(Str, lambda mp: tot(cm, cz, k, mp) == tot(am, az, k, mp) and seen(cm, k, mp) == seen(am, k, mp)
                        and firstsz(cm, cz, k, mp) == firstsz(am, az, k, mp)
                        and implies(not seen(am, k, mp), firstsz(am, az, k, mp) == 0)))
    hint("loop0:init", forall(Str, lambda mp: unfold(tot(cm, cz, 0, mp)) and unfold(tot(am, az, 0, mp)) and unfold(seen(cm, 0, mp))
                              and unfold(seen(am, 0, mp)) and unfold(firstsz(cm, cz, 0, mp)) and unfold(firstsz(am, az, 0, mp))))
    hint("loop0:step", forall(Str, lambda mp: unfold(tot(cm, cz, k, mp)) and unfold(tot(am, az, k, mp)) and unfold(seen(cm, k, mp))
                              and unfold(seen(am, k, mp)) and unfold(firstsz(cm, cz, k, mp)) and unfold(firstsz(am, az, k, mp))))
    invariant(1, 0 <= m and m <= len(bm))
    invariant(1, forall(Str, lambda mp: tot(cm, cz, len(am) + m, mp) == tot(am, az, len(am), mp) + tot(bm, bz, m, mp)
                        and seen(cm, len(am) + m, mp) == (seen(am, len(am), mp) or seen(bm, m, mp))
                        and firstsz(cm, cz, len(am) + m, mp) == (firstsz(am, az, len(am), mp) if seen(am, len(am), mp) else firstsz(bm, bz, m, mp))))
    hint("loop1:init", forall(Str, lambda mp: unfold(tot(bm, bz, 0, mp)) and unfold(seen(bm, 0, mp)) and unfold(firstsz(bm, bz, 0, mp))))
    hint("loop1:step", forall(Str, lambda mp: unfold(tot(cm, cz, len(am) + m, mp)) and unfold(tot(bm, bz, m, mp)) and unfold(seen(cm, len(am) + m, mp))
                              and unfold(seen(bm, m, mp)) and unfold(firstsz(cm, cz, len(am) + m, mp)) and unfold(firstsz(bm, bz, m, mp))))
    k = 0
    while k < len(am):
        k = k + 1
    m = 0
    while m < len(bm):
        m = m + 1


@lemma
def fold_distinct(ms: List[Str], zs: List[Real]):
    """on a duplicate-free mount sequence every fold is a single element (this is what 'normalised' buys)"""
    requires(len(ms) == len(zs))
    requires(forall(range(0, len(ms)), range(0, len(ms)), lambda a, b: implies(a != b, ms[a] != ms[b])))
    ensures(forall(range(0, len(ms)), lambda j: tot(ms, zs, len(ms), ms[j]) == zs[j] and firstsz(ms, zs, len(ms), ms[j]) == zs[j] and seen(ms, len(ms), ms[j])))
    ensures(forall(Str, lambda mp: implies(forall(range(0, len(ms)), lambda j: ms[j] != mp),
                                           tot(ms, zs, len(ms), mp) == 0 and firstsz(ms, zs, len(ms), mp) == 0 and not seen(ms, len(ms), mp))))
    invariant(0, 0 <= k and k <= len(ms))
    invariant(0, forall(range(0, k), lambda j: tot(ms, zs, k, ms[j]) == zs[j] and firstsz(ms, zs, k, ms[j]) == zs[j] and seen(ms, k, ms[j])))
    invariant(0, forall(Str, lambda mp: implies(forall(range(0, k), lambda j: ms[j] != mp),
                                                tot(ms, zs, k, mp) == 0 and firstsz(ms, zs, k, mp) == 0 and not seen(ms, k, mp))))
    hint("loop0:init", forall(Str, lambda mp: unfold(tot(ms, zs, 0, mp)) and unfold(seen(ms, 0, mp)) and unfold(firstsz(ms, zs, 0, mp))))
    hint("loop0:step", forall(Str, lambda mp: unfold(tot(ms, zs, k, mp)) and unfold(seen(ms, k, mp)) and unfold(firstsz(ms, zs, k, mp))))
    k = 0
    while k < len(ms):
        k = k + 1


@lemma
def fold_unseen(ms: List[Str], zs: List[Real]):
    ensures(forall(Str, lambda mp: implies(not seen(ms, len(ms), mp), tot(ms, zs, len(ms), mp) == 0 and firstsz(ms, zs, len(ms), mp) == 0)))
    ensures(implies(len(ms) > 0, seen(ms, len(ms), ms[len(ms) - 1])))
    invariant(0, 0 <= k and k <= len(ms))
    invariant(0, forall(Str, lambda mp: implies(not seen(ms, k, mp), tot(ms, zs, k, mp) == 0 and firstsz(ms, zs, k, mp) == 0)))
    invariant(0, implies(k > 0, seen(ms, k, ms[k - 1])))
    hint("loop0:init", forall(Str, lambda mp: unfold(tot(ms, zs, 0, mp)) and unfold(seen(ms, 0, mp)) and unfold(firstsz(ms, zs, 0, mp))))
    hint("loop0:step", forall(Str, lambda mp: unfold(tot(ms, zs, k, mp)) and unfold(seen(ms, k, mp)) and unfold(firstsz(ms, zs, k, mp))))
    k = 0
    while k < len(ms):
        k = k + 1


@pure
def dvals(d: ODict[Str, Storage]) -> List[Storage]:
    return list(d.values())


@pure
def wf_hardware(h: Hardware) -> Bool:
    # type invariant: at least one Storage (Hardware.__init__ substitutes the default root storage for an empty map)
    # and non-negative sizes (Storage.__init__ rejects anything else)
    return len(h.storage) >= 1 and forall(vals(h), lambda s: s.size >= 0)


@contract("streamflow/core/scheduling.py", "Hardware.__add__")
def _(self: Hardware, other: Hardware) -> Hardware:
    requires(wf_hardware(self) and wf_hardware(other))
    ghost("sm", mounts(vals(self)))
    ghost("sz", sizes(vals(self)))
    ghost("om", mounts(vals(other)))
    ghost("oz", sizes(vals(other)))
    ensures(fresh(result) and result.cores == self.cores + other.cores and result.memory == self.memory + other.memory)
    # the result is normalised and its per-mount amounts are the sums of the operands' per-mount totals
    ensures(forall(result.storage, lambda k: result.storage[k].mount_point == k and result.storage[k].size >= 0))
    ensures(forall(Str, lambda mp: (mp in result.storage) == (seen(sm, len(sm), mp) or seen(om, len(om), mp))))
    ensures(forall(result.storage, lambda k: result.storage[k].size == tot(sm, sz, len(sm), k) + tot(om, oz, len(om), k)))
    ensures(len(result.storage) >= 1)
    hint("exit", let(A=result_of("Hardware._normalize_storage", 0), B=result_of("Hardware._normalize_storage", 1), R=result_of("_reduce_storages", 0),
                     gm=ghost_of("_reduce_storages", 0, "ms"), gz=ghost_of("_reduce_storages", 0, "zs")))
    # the reduced map is not empty (so Hardware.__init__ does not substitute its default storage)
    hint("exit", fold_unseen(sm, sz))
    hint("exit", fold_unseen(om, oz))
    hint("exit", len(A) >= 1)
    hint("exit", fold_unseen(gm, gz))
    hint("exit", len(R) >= 1)
    hint("exit", let(Am=mounts(dvals(A)), Az=sizes(dvals(A)), Bm=mounts(dvals(B)), Bz=sizes(dvals(B)),
                     Cm=mounts(dvals(A) + dvals(B)), Cz=sizes(dvals(A) + dvals(B))))
    hint("exit", identical(Cm, gm) and identical(Cz, gz))
    hint("exit", fold_distinct(Am, Az))
    hint("exit", fold_distinct(Bm, Bz))
    hint("exit", fold_concat(Am, Az, Bm, Bz, Cm, Cz))
    hint("exit", forall(A, lambda k: tot(Am, Az, len(Am), k) == A[k].size and seen(Am, len(Am), k)))
    hint("exit", forall(Str, lambda k: implies(k not in A, tot(Am, Az, len(Am), k) == 0 and not seen(Am, len(Am), k))))
    hint("exit", forall(B, lambda k: tot(Bm, Bz, len(Bm), k) == B[k].size and seen(Bm, len(Bm), k)))
    hint("exit", forall(Str, lambda k: implies(k not in B, tot(Bm, Bz, len(Bm), k) == 0 and not seen(Bm, len(Bm), k))))


@contract("streamflow/core/scheduling.py", "Hardware.__sub__")
def _(self: Hardware, other: Hardware) -> Hardware:
    requires(wf_hardware(self) and wf_hardware(other))
    ghost("sm", mounts(vals(self)))
    ghost("sz", sizes(vals(self)))
    ghost("om", mounts(vals(other)))
    ghost("oz", sizes(vals(other)))
    # a per-mount difference below zero is rejected by Storage.__init__
    raises(WorkflowExecutionException, strict=False)
    ensures(fresh(result) and result.cores == self.cores - other.cores and result.memory == self.memory - other.memory)
    ensures(forall(result.storage, lambda k: result.storage[k].mount_point == k and result.storage[k].size >= 0))
    ensures(forall(Str, lambda mp: (mp in result.storage) == (seen(sm, len(sm), mp) or seen(om, len(om), mp))))
    # per mount point of self: self's total minus other's total.  (For a mount point that only `other` has, the code yields
    # +other's total; recorded as derived from the code — the law below instantiates self = h + r, where it cannot occur.)
    ensures(forall(result.storage, lambda k: result.storage[k].size
                   == (tot(sm, sz, len(sm), k) - tot(om, oz, len(om), k) if seen(sm, len(sm), k) else tot(om, oz, len(om), k))))
    ensures(len(result.storage) >= 1)
    hint("exit", let(A=result_of("Hardware._normalize_storage", 0), B=result_of("Hardware._normalize_storage", 1), R=result_of("_reduce_storages", 0),
                     gm=ghost_of("_reduce_storages", 0, "ms"), gz=ghost_of("_reduce_storages", 0, "zs")))
    # the reduced map is not empty (so Hardware.__init__ does not substitute its default storage)
    hint("exit", fold_unseen(sm, sz))
    hint("exit", fold_unseen(om, oz))
    hint("exit", len(A) >= 1)
    hint("exit", fold_unseen(gm, gz))
    hint("exit", len(R) >= 1)
    hint("exit", let(Am=mounts(dvals(A)), Az=sizes(dvals(A)), Bm=mounts(dvals(B)), Bz=sizes(dvals(B)),
                     Cm=mounts(dvals(A) + dvals(B)), Cz=sizes(dvals(A) + dvals(B))))
    hint("exit", identical(Cm, gm) and identical(Cz, gz))
    hint("exit", fold_distinct(Am, Az))
    hint("exit", fold_distinct(Bm, Bz))
    hint("exit", fold_concat(Am, Az, Bm, Bz, Cm, Cz))
    hint("exit", forall(A, lambda k: tot(Am, Az, len(Am), k) == A[k].size and firstsz(Am, Az, len(Am), k) == A[k].size and seen(Am, len(Am), k)))
    hint("exit", forall(Str, lambda k: implies(k not in A, tot(Am, Az, len(Am), k) == 0 and firstsz(Am, Az, len(Am), k) == 0 and not seen(Am, len(Am), k))))
    hint("exit", forall(B, lambda k: tot(Bm, Bz, len(Bm), k) == B[k].size and firstsz(Bm, Bz, len(Bm), k) == B[k].size and seen(Bm, len(Bm), k)))
    hint("exit", forall(Str, lambda k: implies(k not in B, tot(Bm, Bz, len(Bm), k) == 0 and firstsz(Bm, Bz, len(Bm), k) == 0 and not seen(Bm, len(Bm), k))))


@contract("streamflow/core/scheduling.py", "Hardware.normalized")
def _(self: Hardware) -> Hardware:
    requires(wf_hardware(self))
    ghost("sm", mounts(vals(self)))
    ghost("sz", sizes(vals(self)))
    ensures(fresh(result) and result.cores == self.cores and result.memory == self.memory)
    ensures(forall(result.storage, lambda k: result.storage[k].mount_point == k and result.storage[k].size >= 0))
    ensures(forall(Str, lambda mp: (mp in result.storage) == seen(sm, len(sm), mp)))
    # normalisation preserves per-mount totals
    ensures(forall(result.storage, lambda k: result.storage[k].size == tot(sm, sz, len(sm), k)))
    ensures(len(result.storage) >= 1)
    hint("exit", fold_unseen(sm, sz))
    hint("exit", len(result_of("Hardware._normalize_storage", 0)) >= 1)


@contract("streamflow/core/scheduling.py", "Hardware.is_normalized")
def _(self: Hardware) -> Bool:
    ensures(result == forall(self.storage, lambda k: self.storage[k].mount_point == k))


@contract("streamflow/core/scheduling.py", "Hardware.satisfies")
def _(self: Hardware, other: Hardware) -> Bool:
    requires(wf_hardware(self) and wf_hardware(other))
    ghost("sm", mounts(vals(self)))
    ghost("sz", sizes(vals(self)))
    ghost("om", mounts(vals(other)))
    ghost("oz", sizes(vals(other)))
    # a requirement that names a mount point the capacity does not have is an error, not "False"
    raises(WorkflowExecutionException, when=self.cores >= other.cores and self.memory >= other.memory
           and exists(Str, lambda mp: seen(om, len(om), mp) and not seen(sm, len(sm), mp)))
    # satisfies exactly when at least as large in cores, memory and every mount point of the requirement
    ensures(result == (self.cores >= other.cores and self.memory >= other.memory
                       and forall(Str, lambda mp: implies(seen(om, len(om), mp), tot(sm, sz, len(sm), mp) >= tot(om, oz, len(om), mp)))))


# ---- the laws of the statement, as lemmas over the contracts (the bodies call the contracts, never the code) ----------
@lemma
def law_add_then_sub_restores(h: Hardware, r: Hardware):
    requires(wf_hardware(h) and wf_hardware(r))
    # stated for the case that the subtraction returns; that it cannot be rejected here (no per-mount difference of
    # (h + r) - r is negative) is not derived: Hardware.__sub__'s contract does not say exactly when it raises
    raises(WorkflowExecutionException, strict=False)
    ghost("hm", mounts(vals(h)))
    ghost("hz", sizes(vals(h)))
    s = h + r
    d = s - r
    sm2 = ghost_of("Hardware.__sub__", 0, "sm")
    sz2 = ghost_of("Hardware.__sub__", 0, "sz")
    fold_unseen(hm, hz)
    fold_distinct(sm2, sz2)
    assert forall(s.storage, lambda k: tot(sm2, sz2, len(sm2), k) == s.storage[k].size and seen(sm2, len(sm2), k))
    assert forall(Str, lambda k: implies(k not in s.storage, not seen(sm2, len(sm2), k)))
    ensures(d.cores == h.cores and d.memory == h.memory)
    ensures(forall(Str, lambda mp: implies(seen(hm, len(hm), mp), mp in d.storage and d.storage[mp].size == tot(hm, hz, len(hm), mp))))
    ensures(forall(d.storage, lambda mp: d.storage[mp].size == tot(hm, hz, len(hm), mp)))


@lemma
def law_normalisation_idempotent(h: Hardware):
    requires(wf_hardware(h))
    n1 = h.normalized()
    n2 = n1.normalized()
    m2 = ghost_of("Hardware.normalized", 1, "sm")
    z2 = ghost_of("Hardware.normalized", 1, "sz")
    fold_distinct(m2, z2)
    assert forall(n1.storage, lambda k: tot(m2, z2, len(m2), k) == n1.storage[k].size and seen(m2, len(m2), k))
    assert forall(Str, lambda k: implies(k not in n1.storage, not seen(m2, len(m2), k)))
    ensures(n2.cores == n1.cores and n2.memory == n1.memory)
    ensures(forall(Str, lambda mp: (mp in n2.storage) == (mp in n1.storage)))
    ensures(forall(n2.storage, lambda mp: n2.storage[mp].size == n1.storage[mp].size and n2.storage[mp].mount_point == n1.storage[mp].mount_point))
