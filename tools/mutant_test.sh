#!/bin/bash
# tools/mutant_test.sh <patch.diff> <Cxx> [<Cxx>...]  — apply a patch to a scratch worktree of /repo (outside /repo
# and /verif), run the named checks against it with VERIF_REPO, then remove the worktree.  Evidence/replay written by
# such a run are about the scratch tree; re-run the check on /repo before committing evidence.
set -u
PATCH=$(realpath "$1"); shift
W=$(mktemp -d /tmp/vmut.XXXXXX)
rmdir "$W"
git -C /repo worktree add -q --detach "$W" HEAD || exit 9
if ! git -C "$W" apply "$PATCH"; then echo "patch does not apply"; git -C /repo worktree remove --force "$W"; exit 9; fi
rc=0
for id in "$@"; do
  VERIF_REPO="$W" /verif/vcheck "$id" ${TIER:+--tier $TIER}; r=$?
  echo "== $id exit $r"
  [ $r -ne 0 ] && rc=$r
done
git -C /repo worktree remove --force "$W"
exit $rc
