#!/usr/bin/env python3
"""print the markdown rows of the seeded-change table for the seeds matching a glob (default: all), from their meta.json"""
import glob, json, re, sys
pat = sys.argv[1] if len(sys.argv) > 1 else "*"
for f in sorted(glob.glob(f"/verif/seeded/{pat}/meta.json")):
    m = json.load(open(f)); sid = f.split("/")[-2]
    cr = m.get("check_result") or {}
    lines = cr.get("lines") if isinstance(cr, dict) else []
    how = []
    for l in lines or []:
        mm = re.search(r"obligation (\S+)", l)
        if mm: how.append("`" + mm.group(1) + "`")
        if "outside the verifier's subset" in l: how.append("unit leaves the subset → native replay")
        if "runtime_contract_check" in l: how.append("run-time check")
    how = list(dict.fromkeys(how))
    summ = m.get("summary", ""); summ = summ[:170] + ("…" if len(summ) > 170 else "")
    det = "" if (cr.get("detected") if isinstance(cr, dict) else True) else "**missed** "
    print(f"| {sid} | {summ.replace('|', '/')} | {det}{('proof: ' if any(h.startswith('`') for h in how) else '') + ', '.join(how) if how else 'see meta.json'} |")
