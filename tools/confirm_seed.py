#!/usr/bin/env python3
"""tools/confirm_seed.py <Cxx> <k> [<src_dir>] — confirm an independently written seeded change in a scratch worktree
(demo passes on the clean tree, fails with the patch; the pinned stable tests still pass with the patch), run the
property's check against the patched tree, and file everything under /verif/seeded/<Cxx>_m<k>/."""
import json, os, shutil, subprocess, sys, tempfile

pid, k = sys.argv[1], sys.argv[2]
src = sys.argv[3] if len(sys.argv) > 3 else f"/tmp/sfmut/out_{pid}/m{k}"
PY = "/venv/bin/python" if os.path.exists(os.path.realpath("/venv/bin/python")) else "/opt/devshim/py312"
STABLE = "/tmp/sfmut/run_stable.sh" if PY == "/venv/bin/python" else "/tmp/sfmut/run_stable_dev.sh"
w = tempfile.mkdtemp(prefix="vseed.", dir="/tmp"); os.rmdir(w)
def sh(cmd, **kw):
    return subprocess.run(cmd, shell=True, capture_output=True, text=True, **kw)
assert sh(f"git -C /repo worktree add -q --detach {w} HEAD").returncode == 0
out = {"property": pid, "mutant": k, "interpreter": PY}
try:
    env = dict(os.environ, HOME=tempfile.mkdtemp(prefix="vseedhome.", dir="/tmp"))
    r0 = sh(f"cd {w} && {PY} {src}/demo.py", env=env, timeout=600)
    out["demo_clean_rc"] = r0.returncode
    a = sh(f"git -C {w} apply {src}/patch.diff")
    out["patch_applies"] = a.returncode == 0
    r1 = sh(f"cd {w} && {PY} {src}/demo.py", env=env, timeout=600)
    out["demo_patched_rc"] = r1.returncode
    out["demo_patched_tail"] = (r1.stdout + r1.stderr)[-400:]
    st = sh(f"timeout 900 {STABLE} {w}")
    out["stable"] = st.stdout.strip().splitlines()[:3]
    out["stable_ok"] = st.returncode == 0
    ck = sh(f"VERIF_REPO={w} /verif/vcheck {pid}", timeout=3600)
    out["check_exit"] = ck.returncode
    out["check_lines"] = [l for l in ck.stdout.splitlines() if l.startswith(("VIOLATION", "UNDECIDED", "KNOWN", "CHECKER", pid)) or l.startswith("  ")][:12]
    shutil.rmtree(env["HOME"], ignore_errors=True)
finally:
    sh(f"git -C /repo worktree remove --force {w}")
out["confirmed"] = bool(out.get("demo_clean_rc") == 0 and out.get("patch_applies") and out.get("demo_patched_rc") == 1 and out.get("stable_ok"))
out["detected"] = out.get("check_exit") == 1
dst = f"/verif/seeded/{pid}_m{k}"
if out["confirmed"]:
    os.makedirs(dst, exist_ok=True)
    shutil.copy(f"{src}/patch.diff", dst); shutil.copy(f"{src}/demo.py", dst)
    meta = json.load(open(f"{src}/meta.json")) if os.path.exists(f"{src}/meta.json") else {}
    meta.update({"breaks_property": pid, "confirmed_by_me": {kk: out[kk] for kk in ("interpreter", "demo_clean_rc", "demo_patched_rc", "stable", "stable_ok")},
                 "what_i_ran": [f"cd <scratch worktree> && {PY} demo.py  (clean: rc 0; patched: rc 1)", f"{STABLE} <scratch worktree>  (171/171 with the patch)", f"VERIF_REPO=<scratch worktree> ./vcheck {pid}"],
                 "check_result": {"exit": out["check_exit"], "detected": out["detected"], "lines": out["check_lines"]}})
    json.dump(meta, open(f"{dst}/meta.json", "w"), indent=1)
print(json.dumps(out, indent=1))
