#!/usr/bin/env python3
"""regenerate MANIFEST.json from pyvc/props.py (claimed checks) and tools/not_applicable.json"""
import json, os, sys
HERE = os.path.dirname(os.path.dirname(os.path.abspath(__file__)))
sys.path.insert(0, HERE)
from pyvc.props import PROPS
props = [json.loads(l) for l in open(os.path.join(HERE, "properties.jsonl"))]
na = json.load(open(os.path.join(HERE, "tools", "not_applicable.json")))
checks = []
for p in props:
    pid = p["id"]
    if pid not in PROPS:
        continue
    m = PROPS[pid]
    checks.append({
        "property_id": pid,
        "quick_cmd": f"./vcheck {pid} --tier quick",
        "thorough_cmd": f"./vcheck {pid} --tier thorough",
        "evidence_file": f"/verif/evidence/{pid}.json",
        "replay_cmd_template": f"./vcheck {pid} --replay {{path}}",
        "engine": "pyvc",
        "level_claimed": {"category": m["category"], "text": m["explanation"], "design_ref": f"DESIGN.md section 5, {pid}"},
        "level_note": "; ".join(m.get("assumptions", [])) or "see evidence.trusted_base",
        "technique": m.get("technique", "contract-based deductive verification: VCs generated from the real function ASTs against sidecar contracts, discharged by z3/cvc5"
                           if m["category"] == "proof" else
                           "contract-based deductive verification of the units named in level_claimed (pyvc: VCs from the real ASTs, z3/cvc5) decides those clauses; the rest of the "
                           "property is decided only by a BOUNDED run-time check against the statement's oracle (harness/" + pid + ".py), never counted as proved"),
    })
not_app = [{"property_id": p["id"], "reason": na.get(p["id"], "not built yet (see DESIGN.md section 1 for the planned verdict)")} for p in props if p["id"] not in PROPS]
man = {
    "version": 1,
    "setup_cmd": "true",
    "hooks": {"guard": "STREAMFLOW_VERIF", "enable": "no hooks: contracts are sidecar files under /verif/contracts; /repo is only read (parsed) by the prover and imported by the replay drivers",
              "baseline_off_cmd": "cd /repo && /venv/bin/python -m pytest -ra -q -p no:cacheprovider --timeout=900 --continue-on-collection-errors",
              "source_commits": [], "add_only": True},
    "engines": [{"name": "pyvc", "path": "/verif/pyvc", "serves_properties": [c["property_id"] for c in checks],
                 "kind_free_text": "home-made verification-condition generator for Python (ast -> z3/cvc5): modular calls by contract, loop invariants, explicit heap, ghost lemmas; contracts in /verif/contracts; native replay drivers in /verif/harness"}],
    "checks": checks,
    "notes": "exit codes of ./vcheck: 0 held, 1 violation (VIOLATION line), 2 undecided, 3 checker error. See DESIGN.md.",
    "not_applicable": not_app,
}
json.dump(man, open(os.path.join(HERE, "MANIFEST.json"), "w"), indent=1)
print(len(checks), "claimed;", len(not_app), "not applicable")
