#!/bin/sh
# run the interpreter that has streamflow's dependencies: /venv/bin/python when it works, otherwise the 3.11 fallback (see devshim/README.md)
if /venv/bin/python -c 'import sys' >/dev/null 2>&1; then exec /venv/bin/python "$@"; fi
D="$(cd "$(dirname "$0")/.." && pwd)"
export PYTHONPATH="$D/devshim${PYTHONPATH:+:$PYTHONPATH}:/opt/veriftools/pyvenv/lib/python3.11/site-packages:/venv/lib/python3.12/site-packages"
exec /usr/bin/python3.11 "$@"
