"""Path state, decisions, obligations for the pyvc symbolic executor."""
from __future__ import annotations

import z3

from . import sorts as S


class OutOfSubset(Exception):
    """construct not understood -> the function is undecided, never a violation"""


class PathEnd(Exception):
    """this path stops here (after a loop-step check, or infeasible)"""


class PyRaise(Exception):
    def __init__(self, exc):
        self.exc = exc  # ExcObj


class ReturnSig(Exception):
    def __init__(self, value):
        self.value = value


class BreakSig(Exception):
    pass


class ContinueSig(Exception):
    pass


class ExcObj:
    def __init__(self, cls, args=(), origin=None):
        self.cls = cls
        self.args = args
        self.origin = origin

    def __repr__(self):
        return f"Exc<{self.cls}>"


class ClassObj:
    def __init__(self, name):
        self.name = name

    def __repr__(self):
        return f"Class<{self.name}>"


class ExcClassObj:
    def __init__(self, name):
        self.name = name


class FuncObj:
    """a callable known by name: contract / extern / inline / spec / builtin"""

    def __init__(self, name, recv=None):
        self.name = name
        self.recv = recv

    def __repr__(self):
        return f"Func<{self.name}>"


class SuperObj:
    """the value of super() inside a method: `recv` seen as an instance of the bases of `cls`"""

    def __init__(self, recv, cls):
        self.recv = recv
        self.cls = cls


class ModuleObj:
    def __init__(self, dotted):
        self.dotted = dotted


class Obligation:
    __slots__ = ("oid", "pc", "goal", "kind", "path", "info", "expect")

    def __init__(self, oid, pc, goal, kind, path, info=None, expect="unsat"):
        self.oid = oid
        self.pc = list(pc)
        self.goal = goal
        self.kind = kind
        self.path = path
        self.info = info or {}
        self.expect = expect


class Decider:
    def __init__(self, prefix):
        self.prefix = list(prefix)
        self.trace = []  # [(choice, n)]

    def choose(self, n):
        i = len(self.trace)
        c = self.prefix[i] if i < len(self.prefix) else 0
        self.trace.append((c, n))
        return c


class State:
    def __init__(self):
        self.locals = {}
        self.heap = {}  # (cls, field) -> tuple of arrays
        self.alloc = z3.Const(S.fresh_name("alloc"), z3.ArraySort(S.RefS, z3.BoolSort()))
        self.pc = []
        self.ghost = {}
        self.inputs = {}  # name -> V  (for model projection)

    def copy(self):
        st = State.__new__(State)
        st.locals = dict(self.locals)
        st.heap = dict(self.heap)
        st.alloc = self.alloc
        st.pc = list(self.pc)
        st.ghost = dict(self.ghost)
        st.inputs = self.inputs
        return st

    def assume(self, f):
        if z3.is_true(f):
            return
        if z3.is_and(f):
            for c in f.children():
                self.assume(c)
            return
        self.pc.append(f)
