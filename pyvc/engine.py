"""pyvc symbolic executor: real function ASTs + sidecar contracts -> proof obligations."""
from __future__ import annotations

import ast
import hashlib

import z3

from . import sorts as S
from .contracts import FnSpec, Module, locate
from .core import (
    BreakSig,
    ClassObj,
    ContinueSig,
    Decider,
    ExcClassObj,
    ExcObj,
    FuncObj,
    ModuleObj,
    SuperObj,
    Obligation,
    OutOfSubset,
    PathEnd,
    PyRaise,
    ReturnSig,
    State,
)
from .sorts import NONE, TBool, TInt, TNone, TReal, TStr, TVal, V, mk_bool, mk_int, mk_real, mk_str

FEAS_TIMEOUT_MS = 1500
MAX_PATHS = 4000


def _is_logger_stmt(st):
    """logger.*(...) expression statements and `if logger.isEnabledFor(..): <only logger calls>`"""
    if isinstance(st, ast.Expr) and isinstance(st.value, ast.Call):
        f = st.value.func
        if isinstance(f, ast.Attribute) and isinstance(f.value, ast.Name) and f.value.id == "logger":
            return True
    if isinstance(st, ast.If) and not st.orelse:
        t = st.test
        if (
            isinstance(t, ast.Call)
            and isinstance(t.func, ast.Attribute)
            and isinstance(t.func.value, ast.Name)
            and t.func.value.id == "logger"
            and t.func.attr == "isEnabledFor"
        ):
            return all(_is_logger_stmt(s) for s in st.body)
    return False


def number_loops(fnode):
    """pre-order numbering of For/While/AsyncFor statements of a function body (nested defs excluded)"""
    out = {}

    def walk(stmts):
        for s in stmts:
            if isinstance(s, (ast.For, ast.While, ast.AsyncFor)):
                out[id(s)] = len(out)
            for fld in ("body", "orelse", "finalbody"):
                sub = getattr(s, fld, None)
                if isinstance(sub, list) and not isinstance(s, (ast.FunctionDef, ast.AsyncFunctionDef, ast.ClassDef)):
                    walk(sub)
            if isinstance(s, ast.Try):
                for h in s.handlers:
                    walk(h.body)
            if isinstance(s, ast.Match):
                for c in s.cases:
                    walk(c.body)
            if isinstance(s, (ast.With, ast.AsyncWith)):
                pass

    walk(fnode.body)
    return out


def assigned_names(stmts):
    names = set()

    class Vis(ast.NodeVisitor):
        def visit_Name(self, n):
            if isinstance(n.ctx, (ast.Store, ast.Del)):
                names.add(n.id)

        def visit_FunctionDef(self, n):
            pass

        def visit_Lambda(self, n):
            pass

        def visit_ListComp(self, n):
            # comprehension variables are local to the comprehension
            for g in n.generators:
                self.visit(g.iter)

        visit_SetComp = visit_DictComp = visit_GeneratorExp = visit_ListComp

    for s in stmts:
        Vis().visit(s)
    return names


_READONLY_METHODS = frozenset({"get", "keys", "values", "items", "copy", "index", "count", "startswith", "endswith", "split", "rsplit", "join",
                              "format", "encode", "decode", "strip", "lstrip", "rstrip", "lower", "upper", "isdigit", "is_set", "issubset", "issuperset"})


def mutated_roots(stmts):
    """names whose value may be mutated in place: x.m(...), x[...] = , x.f = , x op= (roots of the place)"""
    roots = set()

    def root(n):
        # a place that goes through an attribute lives on the heap (handled by body_heap_writes), not in a local
        while isinstance(n, ast.Subscript):
            n = n.value
        return n.id if isinstance(n, ast.Name) else None

    for s in stmts:
        for n in ast.walk(s):
            if isinstance(n, ast.Call) and isinstance(n.func, ast.Attribute):
                r = root(n.func.value)
                if r:
                    roots.add(r)
            if isinstance(n, (ast.Assign, ast.AugAssign, ast.AnnAssign)):
                tgts = n.targets if isinstance(n, ast.Assign) else [n.target]
                for t in tgts:
                    if isinstance(t, (ast.Attribute, ast.Subscript)):
                        r = root(t)
                        if r:
                            roots.add(r)
            if isinstance(n, ast.Delete):
                for t in n.targets:
                    r = root(t)
                    if r:
                        roots.add(r)
    return roots


class Engine:
    def __init__(self, module: Module, repo: str):
        self.m = module
        self.repo = repo
        module.load_exception_classes(repo)
        S.TStrC.mode = module.strings
        self.class_ids = {c: i + 1 for i, c in enumerate(module.classes)}
        self.dyntype = z3.Function("dyntype", S.RefS, z3.IntSort())
        self.ufuncs = {}
        self.static_helpers = set()
        self.loops_seen = {}
        self.axioms_cache = None
        self.proved_lemmas = []  # z3 formulas usable as axioms
        self.extra_axioms = {}  # axioms of builtin summaries, added on first use
        self.idioms = {}  # unit -> idiom rewrites applied
        self.dead_calls = []  # call sites whose assumed postcondition is contradictory (vacuity guard)
        self.stats = {"paths": 0, "dead_paths": 0, "feas_checks": 0}
        self.functions_info = {}
        self.dropped = {}

    # -------------------------------------------------------------------------------- z3 helpers
    def ufunc(self, name, *sorts):
        if name not in self.ufuncs:
            self.ufuncs[name] = z3.Function(name, *sorts)
        return self.ufuncs[name]

    def spec_ufuncs(self, fs: FnSpec):
        """uninterpreted spec function: one z3 function per result leaf"""
        key = "spec:" + fs.name
        if key not in self.ufuncs:
            dom = []
            for n, so, _ in fs.params:
                dom += [zs for _, zs in so.leaves()]
            self.ufuncs[key] = [z3.Function(fs.name + sfx, *dom, zs) for sfx, zs in fs.ret.leaves()]
        return self.ufuncs[key]

    def base_axioms(self):
        if self.axioms_cache is None:
            ax = []
            for a in self.m.axioms:
                it = Interp(self, None, Decider([]), spec_only=True)
                ax.append(it.quantify_fn(a))
            for f in self.m.fns.values():
                if f.kind == "recursive" and f.options.get("axiom"):
                    it = Interp(self, None, Decider([]), spec_only=True)
                    ax.append(it.quantify_fn(f))
            self.axioms_cache = ax
        return self.axioms_cache + S.str_lit_axioms() + self.proved_lemmas + list(self.extra_axioms.values())

    def isinstance_formula(self, ref_t, clsname):
        ids = [i for c, i in self.class_ids.items() if self.m.is_subclass(c, clsname)]
        if not ids:
            return z3.BoolVal(False)
        return z3.Or(*[self.dyntype(ref_t) == i for i in ids])

    # -------------------------------------------------------------------------------- exploring
    def explore(self, runner):
        """runner(decider) -> list[Obligation]; enumerates all decision prefixes"""
        all_obls = []
        stack = [[]]
        n = 0
        while stack:
            prefix = stack.pop()
            dec = Decider(prefix)
            S.reset_names()
            obls = runner(dec)
            n += 1
            if n > MAX_PATHS:
                raise OutOfSubset("path explosion")
            all_obls += obls
            for i in range(len(prefix), len(dec.trace)):
                c, k = dec.trace[i]
                for alt in range(c + 1, k):
                    stack.append([t[0] for t in dec.trace[:i]] + [alt])
        self.stats["paths"] += n
        return all_obls

    def verify(self, fs: FnSpec):
        """all obligations of one contract (repository function) or lemma"""
        if fs.kind == "lemma":
            fnode, seg = fs.node, None
        else:
            fnode, seg, _ = locate(self.repo, fs.file, fs.name)
            if fnode is None:
                raise OutOfSubset(f"function {fs.name} not found in {fs.file}")
            self.functions_info[fs.unit] = {
                "file": fs.file,
                "qualname": fs.name,
                "sha256": hashlib.sha256(seg.encode()).hexdigest(),
                "lines": seg.count("\n") + 1,
                "async": isinstance(fnode, ast.AsyncFunctionDef),
            }

        stmt = None
        if fs.kind != "lemma" and str(fs.options.get("stmt", "")).startswith("decorator:"):
            # a unit about the DECORATOR of the function (e.g. cachebox.cached): the decorator call is read from the real source and
            # its arguments become locals of a synthesized statement, over which the contract's postconditions speak:
            #   decorated: Bool; for every keyword argument k: a lambda is applied to the function's first parameter (`k` is its value),
            #   any other expression is its source text (`k` is a Str)
            want = fs.options["stmt"].split(":", 1)[1]
            deco = None
            for d in fnode.decorator_list:
                if isinstance(d, ast.Call) and ast.unparse(d.func).split(".")[-1] == want:
                    deco = d
            first = fnode.args.args[0].arg if fnode.args.args else "self"
            lines = [f"decorated = {deco is not None}"]
            given = {kw.arg for kw in deco.keywords} if deco is not None else set()
            pnames = {a.arg for a in fnode.args.args}
            for e in fs.ensures:
                for x in ast.walk(e):
                    # a keyword the contract speaks about and the decorator call does not pass: the text "<absent>"
                    if (isinstance(x, ast.Name) and x.id not in given and x.id not in pnames and x.id != "decorated" and x.id not in self.m.fns
                            and x.id not in self.m.classes and x.id not in ("implies", "identical", "forall", "exists", "old", "True", "False", "None")
                            and f'{x.id} = "<absent>"' not in lines):
                        lines.append(f'{x.id} = "<absent>"')
            if deco is not None:
                for kw in deco.keywords:
                    if kw.arg is None:
                        continue
                    if isinstance(kw.value, ast.Lambda):
                        lines.append(f"{kw.arg} = ({ast.unparse(kw.value)})({first})")
                    else:
                        lines.append(f"{kw.arg} = {ast.unparse(kw.value)!r}")
            stmt = ast.parse("if True:\n" + "\n".join("    " + ln for ln in lines)).body[0]
            self.functions_info[fs.unit]["extracted_statement"] = fs.options["stmt"]
            self.functions_info[fs.unit]["extraction_drops"] = ("the function body; only the arguments of its @" + want + "(...) decorator are read: " + "; ".join(lines))
            if deco is None:
                fs = _vacuous_copy(fs)
        elif fs.kind != "lemma" and fs.options.get("stmt"):
            from .contracts import locate_stmt

            stmt = locate_stmt(fnode, fs.options["stmt"])
            if stmt is None:
                raise OutOfSubset(f"statement {fs.options['stmt']} not found in {fs.name}")
            self.functions_info[fs.unit]["extracted_statement"] = fs.options["stmt"]
            self.functions_info[fs.unit]["extraction_drops"] = "all statements of the function outside the selected statement; its free variables are the contract parameters"

        def runner(dec):
            it = Interp(self, fs, dec)
            return it.run_top(fnode, stmt)

        return self.explore(runner)


class Interp:
    def __init__(self, eng: Engine, fs: FnSpec | None, dec: Decider, spec_only=False):
        self.eng = eng
        self.m = eng.m
        self.fs = fs
        self.dec = dec
        self.st = State()
        self.old_st = None
        self.init_heap = {}
        self.obls = []
        self.spec = spec_only  # spec mode: pure evaluation, no branching, no obligations
        self.loopnum = {}
        self.fname = fs.unit if fs else "?"
        self.callsite_counter = {}
        self.frames = []  # inline call stack (names) to stop recursion
        self.ctx_stack = []  # entered context managers (other than locks)
        self.result = None
        self.solver = None
        self.path_id = ""
        self.cur_fs = fs  # contract whose loops/invariants are in scope (changes when inlining)
        self.bound = {}  # spec-level bound names (lambda params)
        self.unfolded = set()
        self.call_results = {}
        self.odict_wf_done = set()
        self.call_ghosts = {}
        self.spec_pre = None  # preconditions of pure contract calls met while evaluating a pure body
        self.in_axiom = False
        self.defn_facts = []  # ground one-step unfoldings of recursive spec functions (definitional truths)
        self.qdepth = 0  # > 0 while evaluating under a quantifier binder
        self.unfolding = False

    # ------------------------------------------------------------------------------ obligations
    def oblige(self, kind, goal, info=None):
        if self.spec:
            return
        oid = f"{self.fname}/{kind}"
        self.obls.append(Obligation(oid, self.st.pc + self.defn_facts, goal, kind, tuple(c for c, _ in self.dec.trace), info))

    def feasible(self):
        s = z3.Solver()
        s.set("timeout", FEAS_TIMEOUT_MS)
        # quantifier-free part only: a weaker check keeps more paths (sound) and stays in milliseconds
        for f in self.st.pc:
            if not _has_quant(f):
                s.add(f)
        for f in S.str_lit_axioms():
            s.add(f)
        self.eng.stats["feas_checks"] += 1
        from .discharge import safe_check

        return safe_check(s, FEAS_TIMEOUT_MS) != z3.unsat

    def must_hold(self, c):
        s = z3.Solver()
        s.set("timeout", FEAS_TIMEOUT_MS)
        for f in self.st.pc:
            if not _has_quant(f):
                s.add(f)
        for f in S.str_lit_axioms():
            s.add(f)
        s.add(z3.Not(c))
        from .discharge import safe_check

        return safe_check(s, FEAS_TIMEOUT_MS) == z3.unsat

    def branch(self, c):
        c = z3.simplify(c)
        if z3.is_true(c):
            return True
        if z3.is_false(c):
            return False
        if self.spec:
            raise OutOfSubset("branching in spec mode")
        taken = self.dec.choose(2) == 0
        self.st.assume(c if taken else z3.Not(c))
        if not self.feasible():
            self.eng.stats["dead_paths"] += 1
            raise PathEnd()
        return taken

    def choose(self, n):
        if self.spec:
            raise OutOfSubset("choice in spec mode")
        return self.dec.choose(n)

    # ------------------------------------------------------------------------------ heap
    def heap_key(self, clsname, field):
        decl, so = self.m.field_sort(clsname, field)
        if decl is None:
            return None, None
        return (decl, field), so

    def heap_arrays(self, st, key, so):
        if key not in st.heap:
            if key not in self.init_heap:
                self.init_heap[key] = tuple(
                    z3.Const(f"H0.{key[0]}.{key[1]}{sfx}", zs) for sfx, zs in so.lifted(S.RefS)
                )
            return self.init_heap[key]
        return st.heap[key]

    def get_field(self, ref: V, field, st=None):
        st = st or self.st
        key, so = self.heap_key(ref.sort.cls, field)
        if key is None:
            return None
        v = so.select(self.heap_arrays(st, key, so), ref.t)
        self.note_read(v)
        return v

    def set_field(self, ref: V, field, val):
        key, so = self.heap_key(ref.sort.cls, field)
        if key is None:
            raise OutOfSubset(f"undeclared field {ref.sort.cls}.{field}")
        val = self.coerce(val, so)
        self.st.heap[key] = so.store(self.heap_arrays(self.st, key, so), ref.t, val)

    def note_read(self, v):
        """well-formed heap: any reference obtained by a read is allocated; an insertion-ordered dict read from the heap
        satisfies its representation invariant (key list = duplicate-free enumeration of the keys)"""
        if isinstance(v.sort, S.TDict) and v.sort.ordered:
            key = tuple(t.get_id() for t in v.terms)
            if key not in self.odict_wf_done and self.qdepth == 0:
                self.odict_wf_done.add(key)
                saved = self.spec
                self.spec = False
                try:
                    self.assume_odict_wf_fact(v)
                finally:
                    self.spec = saved
            return
        if self.spec:
            return
        if isinstance(v.sort, S.TRef):
            self.st.assume(z3.Select(self.st.alloc, v.t))
            if v.sort.cls:
                self.st.assume(self.eng.isinstance_formula(v.t, v.sort.cls))
        elif isinstance(v.sort, S.TOpt) and isinstance(v.sort.inner, S.TRef):
            p = v.sort.payload(v)
            self.st.assume(z3.Implies(z3.Not(v.terms[0]), z3.Select(self.st.alloc, p.t)))
            if p.sort.cls:
                self.st.assume(z3.Implies(z3.Not(v.terms[0]), self.eng.isinstance_formula(p.t, p.sort.cls)))

    def assume_heap_closure(self):
        """well-formed entry heap: whatever an allocated object references (directly, through a list or through dict values /
        lists in dict values) is allocated too.  One quantified fact per declared reference-carrying field."""
        alloc = self.st.alloc
        r = z3.Const("hc_r", S.RefS)
        for cname, d in self.m.classes.items():
            for fname, so in d.fields.items():
                key = (cname, fname)
                arrs = self.heap_arrays(self.st, key, so)
                val = so.select(arrs, r)
                facts = self._closure_facts(val, alloc)
                for bv, f in facts:
                    self.st.assume(z3.ForAll([r] + bv, z3.Implies(z3.Select(alloc, r), f)))
                for bv, f in self._length_facts(val):
                    self.st.assume(z3.ForAll([r] + bv, f))

    def _length_facts(self, val):
        """list lengths stored in the heap are non-negative"""
        so = val.sort
        if isinstance(so, S.TList):
            return [([], val.terms[0] >= 0)]
        if isinstance(so, S.TDict):
            k = so.key.fresh("hlk")
            out = [(list(k.terms) + bv, f) for bv, f in self._length_facts(so.get(val, k))]
            if so.ordered:
                out.append(([], so.keys_list(val).terms[0] >= 0))
            return out
        if isinstance(so, S.TOpt):
            return self._length_facts(so.payload(val))
        return []

    def _closure_facts(self, val, alloc):
        so = val.sort
        if isinstance(so, S.TRef):
            # (A-TYPES: what a declared field holds is an object of the declared class)
            return [([], z3.Select(alloc, val.t))]
        if isinstance(so, S.TOpt) and isinstance(so.inner, S.TRef):
            p = so.payload(val)
            ok = z3.Select(alloc, p.t)
            return [([], z3.Implies(z3.Not(val.terms[0]), ok))]
        if isinstance(so, S.TList):
            i = z3.Int(S.fresh_name("hci"))
            inner = self._closure_facts(so.at(val, i), alloc)
            return [([i] + bv, z3.Implies(z3.And(i >= 0, i < val.terms[0]), f)) for bv, f in inner]
        if isinstance(so, S.TDict):
            k = so.key.fresh("hck")
            inner = self._closure_facts(so.get(val, k), alloc)
            out = [(list(k.terms) + bv, z3.Implies(so.has(val, k), f)) for bv, f in inner]
            if isinstance(so.key, S.TRef):
                out.append((list(k.terms), z3.Implies(so.has(val, k), z3.Select(alloc, k.t))))
            return out
        if isinstance(so, S.TSet) and isinstance(so.elem, S.TRef):
            x = so.elem.fresh("hcx")
            return [(list(x.terms), z3.Implies(so.mem(val, x), z3.Select(alloc, x.t)))]
        if isinstance(so, S.TTuple):
            out = []
            for n in range(len(so.elems)):
                out += self._closure_facts(so.item(val, n), alloc)
            return out
        return []

    def havoc_alloc(self, tag):
        """callees and loop iterations may allocate: the allocated set only grows"""
        na = z3.Const(S.fresh_name(f"alloc.{tag}"), z3.ArraySort(S.RefS, z3.BoolSort()))
        r = z3.Const(S.fresh_name("ar"), S.RefS)
        self.st.assume(z3.ForAll([r], z3.Implies(z3.Select(self.st.alloc, r), z3.Select(na, r))))
        self.st.alloc = na

    def new_ref(self, clsname):
        r = z3.Const(S.fresh_name("new_" + clsname), S.RefS)
        self.st.assume(z3.Not(z3.Select(self.st.alloc, r)))
        self.st.alloc = z3.Store(self.st.alloc, r, z3.BoolVal(True))
        self.st.assume(self.eng.dyntype(r) == self.eng.class_ids[clsname])
        return V(S.TRef(clsname), (r,))

    # ------------------------------------------------------------------------------ coercion
    def coerce(self, v, so):
        if isinstance(so, S.TFn) and isinstance(v, FuncObj):
            if v.name not in so.names:
                raise OutOfSubset(f"{v.name} is not one of {so.names}")
            return V(so, (z3.IntVal(so.names.index(v.name)),))
        if not isinstance(v, V):
            raise OutOfSubset(f"cannot coerce {v!r} to {so}")
        if v.sort == so:
            return v
        if isinstance(so, S.TOpt):
            if v.sort is TNone or isinstance(v.sort, S.TNoneC):
                return so.none()
            if isinstance(v.sort, S.TOpt):
                inner = self.coerce(v.sort.payload(v), so.inner)
                return V(so, (v.terms[0],) + inner.terms)
            return so.some(self.coerce(v, so.inner))
        if isinstance(v.sort, S.TOpt) and not isinstance(so, S.TOpt):
            # narrowing: allowed when the path condition already excludes None (after `is not None`, `x or ...`)
            if self.spec or self.must_hold(z3.Not(v.terms[0])):
                return self.coerce(v.sort.payload(v), so)
            raise OutOfSubset(f"possibly-None value used as {so}")
        if so is TReal and v.sort is TInt:
            return V(TReal, (z3.ToReal(v.t),))
        if so is TInt and v.sort is TBool:
            return V(TInt, (z3.If(v.t, 1, 0),))
        if so is TReal and v.sort is TBool:
            return V(TReal, (z3.If(v.t, z3.RealVal(1), z3.RealVal(0)),))
        if isinstance(so, S.TRef) and isinstance(v.sort, S.TRef):
            return V(so, v.terms)
        if isinstance(so, S.TList) and isinstance(v.sort, S.TList):
            if getattr(v, "meta", None) == "emptylit":
                return so.empty()
            if len(so.leaves()) == len(v.sort.leaves()) and all(
                a[1] == b[1] for a, b in zip(so.leaves(), v.sort.leaves())
            ):
                return V(so, v.terms)
        if isinstance(so, S.TSet) and isinstance(v.sort, (S.TSet, S.TDict)) and getattr(v, "meta", None) == "emptylit":
            return so.empty()
        if isinstance(so, S.TDict) and isinstance(v.sort, (S.TDict, S.TSet)) and getattr(v, "meta", None) == "emptylit":
            return so.empty()
        if isinstance(so, S.TDict) and isinstance(v.sort, S.TDict):
            if [l[1] for l in so.leaves()] == [l[1] for l in v.sort.leaves()]:
                return V(so, v.terms)
            if v.sort.ordered and not so.ordered and v.sort.key == so.key and v.sort.val == so.val:
                return V(so, v.terms[: 1 + so._nv()])  # forgetting the insertion order of an ordered dict
        if isinstance(so, S.TSet) and isinstance(v.sort, S.TSet):
            if [l[1] for l in so.leaves()] == [l[1] for l in v.sort.leaves()]:
                return V(so, v.terms)
        if isinstance(so, S.TTuple) and isinstance(v.sort, S.TTuple) and len(so.elems) == len(v.sort.elems):
            return so.make([self.coerce(v.sort.item(v, i), e) for i, e in enumerate(so.elems)])
        if so is TVal:
            return self.to_val(v)
        raise OutOfSubset(f"cannot coerce {v.sort} to {so}")

    def coerce_any(self, v, so):
        """coerce, accepting iterable views (dict.values() ...) where a list is expected"""
        if isinstance(v, tuple) and isinstance(so, S.TList):
            from .builtins import as_list

            return self.coerce(as_list(self, v), so)
        return self.coerce(v, so)

    def to_val(self, v):
        if v.sort is TVal:
            return v
        if v.sort is TNone:
            return V(TVal, (self.eng.ufunc("val_none", S.ValS)(),)) if False else V(TVal, (z3.Const("val_None", S.ValS),))
        if len(v.terms) == 1:
            f = self.eng.ufunc(f"val_of_{v.sort.name}", v.terms[0].sort(), S.ValS)
            return V(TVal, (f(v.t),))
        raise OutOfSubset(f"cannot inject {v.sort} into Val")

    def unify(self, a, b):
        """bring two values to a common sort for ==, ite, arithmetic"""
        if a.sort == b.sort:
            return a, b
        # T | Optional[T]  ->  Optional[T]  (never unwrap the optional side: that would assume it is not None)
        if isinstance(a.sort, S.TOpt) != isinstance(b.sort, S.TOpt) and TNone not in (a.sort, b.sort):
            o, x = (a, b) if isinstance(a.sort, S.TOpt) else (b, a)
            try:
                x2 = self.coerce(x, o.sort)
                return (o, x2) if o is a else (x2, o)
            except OutOfSubset:
                pass
        for x, y, flip in ((a, b, False), (b, a, True)):
            try:
                y2 = self.coerce(y, x.sort)
                return (x, y2) if not flip else (y2, x)
            except OutOfSubset:
                pass
        # None | T  ->  Optional[T]
        for x, y in ((a, b), (b, a)):
            if x.sort is TNone and not isinstance(y.sort, S.TOpt):
                so = S.TOpt(y.sort)
                return self.coerce(a, so), self.coerce(b, so)
        raise OutOfSubset(f"cannot unify {a.sort} and {b.sort}")

    def truthy(self, v):
        if isinstance(v, V):
            return v.sort.truthy(v)
        if isinstance(v, (ClassObj, FuncObj, ExcObj)):
            return z3.BoolVal(True)
        raise OutOfSubset(f"truthiness of {v!r}")

    def eq(self, a, b):
        if not isinstance(a, V) or not isinstance(b, V):
            for x, y in ((a, b), (b, a)):
                if isinstance(x, V) and isinstance(x.sort, S.TFn) and isinstance(y, FuncObj):
                    return x.t == (x.sort.names.index(y.name) if y.name in x.sort.names else -1)
            if isinstance(a, ClassObj) and isinstance(b, ClassObj):
                return z3.BoolVal(a.name == b.name)
            if isinstance(a, ExcObj) and isinstance(b, ExcObj):
                return z3.BoolVal(a is b)
            raise OutOfSubset(f"== on {a!r}, {b!r}")
        if a.sort is TNone or b.sort is TNone:
            x, y = (a, b) if b.sort is TNone else (b, a)
            return self.is_none(x)
        try:
            a2, b2 = self.unify(a, b)
        except OutOfSubset:
            if {type(a.sort), type(b.sort)} <= {S.TIntC, S.TStrC, S.TBoolC, S.TRealC, S.TList, S.TDict, S.TSet}:
                return z3.BoolVal(False)  # different Python types never compare equal
            raise
        return a2.sort.eq(a2, b2)

    def is_none(self, v):
        if v.sort is TNone:
            return z3.BoolVal(True)
        if isinstance(v.sort, S.TOpt):
            return v.terms[0]
        if v.sort is TVal:
            return v.t == z3.Const("val_None", S.ValS)
        return z3.BoolVal(False)

    # ------------------------------------------------------------------------------ top level
    def bind_params(self, fs, fnode=None):
        env = {}
        if fs.options.get("cls"):
            # a classmethod verified for one receiver class: `cls` is that class
            env["cls"] = ClassObj(fs.options["cls"])
        for name, so, dflt in fs.params:
            if so is None:
                raise OutOfSubset(f"{fs.name}: parameter {name} has no sort")
            if so is S.TExc:
                env[name] = ExcObj("BaseException", (), origin="param:" + name)
                continue
            v = so.const("in." + name)
            env[name] = v
            self.st.inputs[name] = v
            self.assume_wf_input(v)
        return env

    def assume_wf_input(self, v):
        if isinstance(v.sort, S.TRef):
            self.st.assume(z3.Select(self.st.alloc, v.t))
            if v.sort.cls:
                self.st.assume(self.eng.isinstance_formula(v.t, v.sort.cls))
        elif isinstance(v.sort, S.TOpt) and isinstance(v.sort.inner, S.TRef):
            p = v.sort.payload(v)
            self.st.assume(z3.Implies(z3.Not(v.terms[0]), z3.Select(self.st.alloc, p.t)))
            if p.sort.cls:
                self.st.assume(z3.Implies(z3.Not(v.terms[0]), self.eng.isinstance_formula(p.t, p.sort.cls)))
        elif isinstance(v.sort, S.TList):
            self.st.assume(v.terms[0] >= 0)
            if isinstance(v.sort.elem, S.TRef):
                i = z3.Int(S.fresh_name("wi"))
                e = v.sort.at(v, i)
                body = z3.Select(self.st.alloc, e.t)
                if e.sort.cls:
                    body = z3.And(body, self.eng.isinstance_formula(e.t, e.sort.cls))
                self.st.assume(z3.ForAll([i], z3.Implies(z3.And(i >= 0, i < v.terms[0]), body)))
        elif isinstance(v.sort, S.TDict):
            if v.sort.ordered:
                self.assume_odict_wf(v)
        elif isinstance(v.sort, S.TTuple):
            for n in range(len(v.sort.elems)):
                self.assume_wf_input(v.sort.item(v, n))
        elif isinstance(v.sort, S.TOpt) and isinstance(v.sort.inner, (S.TList, S.TDict)):
            # the payload of a None is unobservable, so its well-formedness can be assumed unconditionally
            self.assume_wf_input(v.sort.payload(v))

    def assume_odict_wf_fact(self, d):
        """like assume_odict_wf but recorded as a path-global fact (the value is immutable: it holds in every state)"""
        st = self.st
        tmp = State.__new__(State)
        tmp.pc = []
        self.st = tmp
        try:
            self.assume_odict_wf(d)
        finally:
            self.st = st
        self.defn_facts.extend(tmp.pc)

    def assume_odict_wf(self, d):
        """ordered dict: key list is duplicate-free and lists exactly the keys"""
        so = d.sort
        kl = so.keys_list(d)
        n = kl.terms[0]
        i, j = z3.Int(S.fresh_name("oi")), z3.Int(S.fresh_name("oj"))
        k = z3.Const(S.fresh_name("ok"), so.kz)
        at = lambda x: so.keylist.at(kl, x).t
        self.st.assume(n >= 0)
        self.st.assume(z3.ForAll([i], z3.Implies(z3.And(i >= 0, i < n), z3.Select(d.terms[0], at(i)))))
        self.st.assume(
            z3.ForAll([i, j], z3.Implies(z3.And(i >= 0, i < j, j < n), at(i) != at(j)))
        )
        idx = self.eng.ufunc(f"okidx_{S.fresh_name('d')}", so.kz, z3.IntSort())
        self.st.assume(
            z3.ForAll(
                [k],
                z3.Implies(z3.Select(d.terms[0], k), z3.And(idx(k) >= 0, idx(k) < n, at(idx(k)) == k)),
            )
        )

    def run_top(self, fnode, stmt=None):
        fs = self.fs
        try:
            self.loopnum = number_loops(fnode)
            env = self.bind_params(fs, fnode)
            self.st.locals = env
            self.old_st = self.st.copy()
            # preconditions
            self.assume_heap_closure()
            gnames = {g for g, _ in fs.ghosts}
            late = [r for r in fs.requires if any(isinstance(x, ast.Name) and x.id in gnames for x in ast.walk(r))]
            for r in fs.requires:
                if r not in late:
                    self.st.assume(self.ev_spec(r))
            self.bind_ghosts(fs, self.st.locals)
            for r in late:  # preconditions phrased over ghost names
                self.st.assume(self.ev_spec(r))
            self.old_st = self.st.copy()
            self.entry_alloc = self.st.alloc
            if not self.feasible():
                self.oblige("vacuity", z3.BoolVal(False), {"why": "preconditions unsatisfiable"})
                return self.obls
            outcome = ("normal", NONE)
            try:
                body = fs.ghost_body if fs.kind == "lemma" else ([stmt] if stmt is not None else fnode.body)
                self.exec_block(body)
            except ReturnSig as r:
                outcome = ("normal", r.value)
            except PyRaise as e:
                outcome = ("raise", e.exc)
            self.check_exit(fs, outcome)
        except PathEnd:
            pass
        return self.obls

    def check_exit(self, fs, outcome):
        kind, val = outcome
        saved_locals = self.st.locals
        self.final_locals = saved_locals
        # evaluate clauses over parameters at entry values (Python rebinding of params is local);
        # a lemma's conclusion may also speak about the ghost locals its body introduced
        env = dict(self.st.locals) if (fs.kind == "lemma" or fs.options.get("stmt")) else {}
        if not fs.options.get("stmt"):
            env.update(self.old_st.locals)
        # (a statement unit's postcondition speaks about the locals after the statement; old(x) gives entry values)
        if kind == "normal":
            if fs.ret is not None and fs.ret is not TNone:
                val = self.coerce(val, fs.ret)
            env["result"] = val
            self.st.locals = env
            for k, (en, when, strict) in enumerate(fs.raises):
                if when is not None and strict:
                    self.oblige(f"raises#{k}:not-raised", z3.Not(self.ev_when(when)), {"exc": en, "clause": "normal return although: " + ast.unparse(when)})
            self.run_hints("exit")
            for k, e in enumerate(fs.ensures):
                info = {"clause": ast.unparse(e)}
                if k in fs.known:
                    info["known"] = fs.known[k]
                if k in fs.for_prop:
                    info["for_property"] = fs.for_prop[k]
                self.oblige(f"post#{k}", self.ev_spec(e), info)
            self.check_frame(fs)
            # reachability canary: this exit must not be provable dead
            self.oblige("canary", z3.BoolVal(False), {"exit": "normal"})
            self.obls[-1].expect = "sat"
        else:
            env["raised"] = val
            self.st.locals = env
            conds = []
            for k, (en, when, strict) in enumerate(fs.raises):
                if self.m.exc_is(val.cls, en):
                    conds.append(self.ev_when(when) if when is not None else z3.BoolVal(True))
                    if fs.raise_ensures[k] is not None:
                        self.oblige(f"raises#{k}:ensures", self.ev_spec(fs.raise_ensures[k]), {"clause": ast.unparse(fs.raise_ensures[k]), "exc": en})
            goal = z3.Or(*conds) if conds else z3.BoolVal(False)
            self.oblige(f"exc:{val.cls}", goal, {"raised": val.cls, "origin": str(val.origin), "clause": f"{val.cls} may only be raised as the contract declares"})
            if conds:
                self.check_frame(fs, exceptional=True)
        self.st.locals = saved_locals

    def frame_targets(self, fs, key):
        """references whose field `key` the contract allows to change -> list of z3 Ref terms or 'all'"""
        out = []
        for a in fs.assigns:
            if isinstance(a, ast.Call) and isinstance(a.func, ast.Name) and a.func.id == "all_of":
                c, f = ast.literal_eval(a.args[0]).split(".")
                k2, _ = self.heap_key(c, f)
                if k2 == key:
                    return "all"
                continue
            if isinstance(a, ast.Attribute):
                base = self.ev_spec_val(a.value, in_old=True)
                if isinstance(base.sort, S.TOpt):
                    base = base.sort.payload(base)
                k2, _ = self.heap_key(base.sort.cls, a.attr)
                if k2 == key:
                    out.append(base.t)
        return out

    def check_frame(self, fs, exceptional=False):
        if fs.kind == "lemma":
            return
        for key, arrs in self.st.heap.items():
            init = self.init_heap.get(key)
            old = self.old_st.heap.get(key, init)
            if old is None or all(a.eq(b) for a, b in zip(arrs, old)):
                continue
            tg = self.frame_targets(fs, key)
            if tg == "all":
                continue
            r = z3.Const(S.fresh_name("fr"), S.RefS)
            so = self.m.field_sort(*key)[1]
            # leaf-wise identity (stronger than Python equality, and what "untouched" means)
            same = z3.And(*[x == y for x, y in zip(so.select(arrs, r).terms, so.select(old, r).terms)])
            cond = z3.And(z3.Select(self.entry_alloc, r), *[r != t for t in tg])
            self.oblige(f"frame:{key[0]}.{key[1]}", z3.ForAll([r], z3.Implies(cond, same)))

    # ------------------------------------------------------------------------------ spec evaluation
    def ev_spec(self, node, old_ok=True):
        """evaluate a contract expression to a z3 Bool in the current env"""
        v = self.ev_spec_val(node)
        return self.truthy(v) if not (isinstance(v, V) and v.sort is TBool) else v.t

    def ev_when(self, node):
        """`when=` conditions of raises clauses speak about the state at entry"""
        v = self.ev_spec_val(node, in_old=True)
        return self.truthy(v) if not (isinstance(v, V) and v.sort is TBool) else v.t

    def ev_spec_val(self, node, in_old=False):
        saved = self.spec
        self.spec = True
        saved_st = self.st
        try:
            if in_old:
                st = self.old_st.copy()
                st.locals = dict(self.st.locals)
                for k, v in self.old_st.locals.items():
                    st.locals[k] = v
                self.st = st
            return self.ev(node)
        finally:
            self.spec = saved
            self.st = saved_st

    def quantify_fn(self, fs: FnSpec):
        """ForAll params. requires => body/ensures   (axioms and proved lemmas)"""
        env = {}
        bound = []
        for name, so, _ in fs.params:
            v = so.const(f"q.{fs.name}.{name}")
            env[name] = v
            bound += list(v.terms)
        self.st.locals = env
        self.old_st = self.st
        self.spec = True
        self.in_axiom = True
        if fs.kind == "recursive":
            fns = self.eng.spec_ufuncs(fs)
            app = V(fs.ret, tuple(f(*bound) for f in fns))
            body = self.eval_pure_body(fs, env, unfolding=True)
            return z3.ForAll(bound, fs.ret.eq(app, self.coerce(body, fs.ret)))
        if fs.kind == "axiom":
            rets = [s.value for s in fs.ghost_body if isinstance(s, ast.Return)]
            if len(rets) != 1:
                raise OutOfSubset(f"axiom {fs.name}: need exactly one return")
            body = self.ev_spec(rets[0])
        else:
            pre = [self.ev_spec(r) for r in fs.requires]
            post = [self.ev_spec(e) for e in fs.ensures]
            body = z3.Implies(z3.And(*pre), z3.And(*post))
        return z3.ForAll(bound, body) if bound else body

    # ------------------------------------------------------------------------------ statements
    def exec_block(self, stmts):
        for s in stmts:
            self.exec_stmt(s)

    def exec_stmt(self, s):
        if _is_logger_stmt(s):
            self.eng.dropped.setdefault(self.fname, set()).add(s.lineno)
            return
        m = getattr(self, "st_" + type(s).__name__, None)
        if m is None:
            raise OutOfSubset(f"statement {type(s).__name__} at line {s.lineno}")
        m(s)

    def st_Expr(self, s):
        if isinstance(s.value, ast.Constant):
            return  # docstring / ellipsis
        self.ev(s.value)

    def st_Pass(self, s):
        pass

    def st_Assert(self, s):
        # ghost code (lemmas): assert is a proof obligation, then assumed
        c = self.ev_spec(s.test)
        self.callsite_counter["assert"] = self.callsite_counter.get("assert", 0) + 1
        self.oblige(f"assert#{self.callsite_counter['assert']}", c, {"line": s.lineno})
        self.st.assume(c)

    def st_Return(self, s):
        raise ReturnSig(self.ev(s.value) if s.value is not None else NONE)

    def st_Raise(self, s):
        if s.exc is None:
            exc = self.st.ghost.get("current_exc")
            if exc is None:
                raise OutOfSubset("bare raise outside handler")
            raise PyRaise(exc)
        e = self.ev(s.exc)
        if isinstance(e, ExcClassObj):
            e = ExcObj(e.name, (), origin=s.lineno)
        if not isinstance(e, ExcObj):
            raise OutOfSubset(f"raise of non-exception {e!r}")
        if e.origin is None:
            e.origin = s.lineno
        raise PyRaise(e)

    def st_Break(self, s):
        raise BreakSig()

    def st_Continue(self, s):
        raise ContinueSig()

    def st_Assign(self, s):
        v = self.ev(s.value)
        for t in s.targets:
            self.assign(t, v)

    def st_AnnAssign(self, s):
        if s.value is not None:
            v = self.ev(s.value)
            # the annotation of a fresh local gives the sort of an empty literal
            if isinstance(v, V) and getattr(v, "meta", None) == "emptylit":
                so = self.sort_from_annotation(s.annotation)
                if so is not None:
                    try:
                        v = self.coerce(v, so)
                    except OutOfSubset:
                        pass
            self.assign(s.target, v, ann=s.annotation)

    def sort_from_annotation(self, a):
        try:
            return self._sfa(a)
        except Exception:
            return None

    def _sfa(self, a):
        if isinstance(a, ast.Constant) and isinstance(a.value, str):
            return self._sfa(ast.parse(a.value, mode="eval").body)
        if isinstance(a, ast.Constant) and a.value is None:
            return TNone
        if isinstance(a, ast.Name):
            base = {"str": TStr, "int": TInt, "float": TReal, "bool": TBool, "Any": TVal}
            if a.id in base:
                return base[a.id]
            if a.id in self.m.classes:
                return S.TRef(a.id)
            raise ValueError(a.id)
        if isinstance(a, ast.BinOp) and isinstance(a.op, ast.BitOr):
            l, r = self._sfa(a.left), self._sfa(a.right)
            if r is TNone:
                return S.TOpt(l)
            if l is TNone:
                return S.TOpt(r)
            raise ValueError("union")
        if isinstance(a, ast.Subscript) and isinstance(a.value, ast.Name):
            h = a.value.id
            args = a.slice.elts if isinstance(a.slice, ast.Tuple) else [a.slice]
            if h in ("MutableMapping", "dict", "Mapping"):
                return S.TDict(self._sfa(args[0]), self._sfa(args[1]), ordered=True)
            if h in ("MutableSequence", "list", "Sequence", "Iterable"):
                return S.TList(self._sfa(args[0]))
            if h in ("MutableSet", "set", "AbstractSet"):
                return S.TSet(self._sfa(args[0]))
        raise ValueError("annotation")

    def st_AugAssign(self, s):
        cur = self.ev(_load(s.target))
        rhs = self.ev(s.value)
        if isinstance(cur, V) and isinstance(cur.sort, (S.TSet, S.TDict)) and isinstance(s.op, ast.BitOr):
            v = self.binop(s.op, cur, rhs)
        elif isinstance(cur, V) and isinstance(cur.sort, S.TRef):
            # user-defined in-place operator
            opname = {ast.BitOr: "__ior__", ast.Add: "__iadd__", ast.Sub: "__isub__"}.get(type(s.op))
            q, kind = self.m.find_method(cur.sort.cls, opname) if opname else (None, None)
            if q is None:
                raise OutOfSubset(f"augmented assignment on {cur.sort}")
            v = self.call_named(q, kind, [cur, rhs], {}, s)
        else:
            v = self.binop(s.op, cur, rhs)
        self.assign(s.target, v)

    def st_If(self, s):
        c = self.ev_cond(s.test)
        if self.branch(c):
            self.exec_block(s.body)
        else:
            self.exec_block(s.orelse)

    def st_Match(self, s):
        """match <subject>: with value patterns (case CONST: / case A | B:), the wildcard and guards; the first matching case runs"""
        subj = self.ev(s.subject)

        def pat(p):
            if isinstance(p, ast.MatchValue):
                return self.eq(subj, self.ev(p.value))
            if isinstance(p, ast.MatchSingleton):
                return self.eq(subj, self.ev(ast.Constant(value=p.value)))
            if isinstance(p, ast.MatchOr):
                return z3.Or(*[pat(q) for q in p.patterns])
            if isinstance(p, ast.MatchAs) and p.pattern is None and p.name is None:
                return z3.BoolVal(True)
            raise OutOfSubset(f"match pattern {type(p).__name__}")

        for case in s.cases:
            c = pat(case.pattern)
            if case.guard is not None:
                c = z3.And(c, self.ev_cond(case.guard))
            if self.branch(c):
                self.exec_block(case.body)
                return

    def ev_cond(self, node):
        v = self.ev(node)
        return self.truthy(v)

    def st_Delete(self, s):
        for t in s.targets:
            if isinstance(t, ast.Subscript):
                c = self.ev(t.value)
                k = self.ev(t.slice)
                if isinstance(c.sort, S.TDict):
                    k = self.coerce(k, c.sort.key)
                    if not self.spec and self.branch(z3.Not(c.sort.has(c, k))):
                        raise PyRaise(ExcObj("KeyError", (), origin=s.lineno))
                    self.assign(t.value, self.dict_del(c, k))
                    continue
            raise OutOfSubset("del target")

    def dict_del(self, c, k):
        so = c.sort
        if so.ordered:
            raise OutOfSubset("del on ordered dict")
        return V(so, (z3.Store(c.terms[0], k.t, z3.BoolVal(False)),) + c.terms[1:])

    def st_Try(self, s):
        if s.finalbody:
            # try ... finally: the final block runs on every way out of the protected part (normal end, return, break, continue,
            # exception), then that way out is resumed; an exit of the final block itself (return / raise) replaces it
            inner = ast.Try(body=s.body, handlers=s.handlers, orelse=s.orelse, finalbody=[])
            ast.copy_location(inner, s)
            try:
                if s.handlers or s.orelse:
                    self.st_Try(inner)
                else:
                    self.exec_block(s.body)
            except (ReturnSig, PyRaise, BreakSig, ContinueSig):
                self.exec_block(s.finalbody)
                raise
            self.exec_block(s.finalbody)
            return
        if True:
            try:
                self.exec_block(s.body)
            except PyRaise as e:
                handled = False
                for h in s.handlers:
                    if self.handler_matches(h, e.exc):
                        handled = True
                        saved = self.st.ghost.get("current_exc")
                        self.st.ghost["current_exc"] = e.exc
                        if h.name:
                            self.st.locals[h.name] = e.exc
                        self.exec_block(h.body)
                        self.st.ghost["current_exc"] = saved
                        break
                if not handled:
                    raise
            else:
                self.exec_block(s.orelse)

    def handler_matches(self, h, exc):
        if h.type is None:
            return True
        types = h.type.elts if isinstance(h.type, ast.Tuple) else [h.type]
        for t in types:
            name = ast.unparse(t)
            short = name.split(".")[-1]
            if self.m.exc_is(exc.cls, name) or self.m.exc_is(exc.cls, short):
                return True
        return False

    def st_With(self, s):
        if len(s.items) == 1 and ast.unparse(s.items[0].context_expr).startswith("contextlib.suppress("):
            # with contextlib.suppress(E1, ...): an exception of one of these classes ends the block silently
            names = [ast.unparse(a) for a in s.items[0].context_expr.args]
            try:
                self.exec_block(s.body)
            except PyRaise as e:
                if not any(self.m.exc_is(e.exc.cls, n) or self.m.exc_is(e.exc.cls, n.split(".")[-1]) for n in names):
                    raise
            return
        for item in s.items:
            ctx = ast.unparse(item.context_expr)
            if ctx.startswith("contextlib.suppress"):
                raise OutOfSubset("contextlib.suppress")
            v = self.ev(item.context_expr)
            self.enter_ctx(item, v)
        try:
            self.exec_block(s.body)
        except (ReturnSig, PyRaise, BreakSig, ContinueSig):
            for item in reversed(s.items):
                self.exit_ctx(item)
            raise
        for item in reversed(s.items):
            self.exit_ctx(item)

    st_AsyncWith = st_With

    def enter_ctx(self, item, v):
        # locks/conditions: ghost held flag
        if isinstance(v, V) and isinstance(v.sort, S.TRef) and v.sort.cls in ("Lock", "Condition"):
            # asyncio.Lock / asyncio.Condition: a ghost field `held` on the lock object.  Acquiring is a yield point; under
            # cooperative scheduling the lock is free when the coroutine resumes holding it.
            self.yield_point("acquire")
            if self.heap_key(v.sort.cls, "held")[0] is not None:
                self.set_field(v, "held", mk_bool(True))
            if item.optional_vars is not None:
                self.assign(item.optional_vars, v)
            return
        if isinstance(v, V) and isinstance(v.sort, S.TRef):
            # any other context manager: its __aenter__/__enter__ contract gives the bound value, __aexit__/__exit__ (if declared)
            # runs at the end; an undeclared exit does nothing and lets exceptions through
            for meth in ("__aenter__", "__enter__"):
                q, kind = self.m.find_method(v.sort.cls, meth)
                if q:
                    r = self.call_named(q, kind, [v], {}, item.context_expr)
                    if item.optional_vars is not None:
                        self.assign(item.optional_vars, r)
                    self.ctx_stack.append(v)
                    return
        raise OutOfSubset(f"with-context {ast.unparse(item.context_expr)}")

    def exit_ctx(self, item):
        try:
            v = self.ev_spec_val(item.context_expr)
        except OutOfSubset:
            v = None
        if isinstance(v, V) and isinstance(v.sort, S.TRef) and self.heap_key(v.sort.cls, "held")[0] is not None:
            self.set_field(v, "held", mk_bool(False))
            return
        if self.ctx_stack:
            v = self.ctx_stack.pop()
            for meth in ("__aexit__", "__exit__"):
                q, kind = self.m.find_method(v.sort.cls, meth)
                if q:
                    self.call_named(q, kind, [v], {}, item.context_expr)
                    return

    def yield_point(self, why):
        hook = getattr(self, "on_yield", None)
        if hook:
            hook(why)

    # ---- loops ---------------------------------------------------------------------------------
    def st_While(self, s):
        self.loop(s, kind="while")

    def st_For(self, s):
        self.loop(s, kind="for")

    st_AsyncFor = st_For

    def _alias_loop(self, s):
        """`for x in D.values(): ... x.mutate() ...` (or `for k, x in D.items()`) where the values of D are containers: x ALIASES D[k],
        so the in-place mutation is a mutation of D.  Containers are values in the encoding, hence the loop is read as
        `for k in D: x = D[k]; <body>; D[k] = x` (same iteration order; only when the body neither rebinds x nor touches D otherwise)."""
        it_ = s.iter
        if not (isinstance(it_, ast.Call) and isinstance(it_.func, ast.Attribute) and it_.func.attr in ("values", "items") and not it_.args and not it_.keywords):
            return None
        if it_.func.attr == "values" and isinstance(s.target, ast.Name):
            xname, kname = s.target.id, None
        elif (it_.func.attr == "items" and isinstance(s.target, ast.Tuple) and len(s.target.elts) == 2
              and all(isinstance(e, ast.Name) for e in s.target.elts)):
            kname, xname = s.target.elts[0].id, s.target.elts[1].id
        else:
            return None
        if xname not in mutated_roots(s.body) or xname in assigned_names(s.body) or (kname and kname in assigned_names(s.body)):
            return None
        dexpr = it_.func.value
        if _dotted(dexpr) is None:
            return None
        try:
            d = self.ev(dexpr)
        except OutOfSubset:
            return None
        if not (isinstance(d, V) and isinstance(d.sort, S.TDict) and isinstance(d.sort.val, (S.TList, S.TSet, S.TDict))):
            return None
        dsrc = ast.unparse(dexpr)
        if any(isinstance(n, (ast.Attribute, ast.Name)) and isinstance(getattr(n, "ctx", None), (ast.Store, ast.Del)) and ast.unparse(n) == dsrc
               for st in s.body for n in ast.walk(st)):
            return None
        kname = kname or f"_alias_key_{xname}"
        src = f"for {kname} in {dsrc}:\n    {xname} = {dsrc}[{kname}]\n    pass\n    {dsrc}[{kname}] = {xname}\n"
        new = ast.parse(src).body[0]
        new.body = [new.body[0]] + list(s.body) + [new.body[2]]
        ast.copy_location(new, s)
        for n in (new.body[0], new.body[-1]):
            for x in ast.walk(n):
                ast.copy_location(x, s)
        ast.fix_missing_locations(new)
        self.eng.idioms.setdefault(self.fname, set()).add(
            f"line {getattr(s, 'lineno', '?')}: for {xname} in {dsrc}.{it_.func.attr}() with in-place mutation of {xname} -> keyed loop with write-back (aliasing of the loop variable with the dict value made explicit; ASSUMES the values of the dict are pairwise distinct objects, as everywhere in the value encoding of containers)")
        return new

    def loop(self, s, kind):
        if s.orelse:
            raise OutOfSubset("loop else")
        fs = self.cur_fs
        k = self.loopnum.get(id(s))
        if kind == "for" and not getattr(s, "_alias_done", False):
            if not hasattr(s, "_alias_new"):
                s._alias_new = self._alias_loop(s)  # kept on the original node: one desugared loop per source loop, never collected
            new = s._alias_new
            if new is not None:
                new._alias_done = True
                self.loopnum[id(new)] = k
                s = new
        invs = fs.invariants.get(k, []) if fs and k is not None else []
        if not self.frames and self.fs is not None and self.fs.kind != "lemma":
            # which loops of the unit are cut with declared invariants (the verdict policy distrusts unreplayed refutations of a unit whose
            # code changed and that has a loop the contract says nothing about)
            self.eng.loops_seen.setdefault(self.fname, {})[str(k)] = bool(invs)
        dec_expr = fs.decreases.get(k) if fs and k is not None else None
        idx_name = (fs.loop_index.get(k) if fs and k is not None else None) or f"_i{k}"
        tag = f"loop{k}"
        seqinfo = None
        if kind == "for":
            seqinfo = self.iter_source(s.iter)
            self.st.locals[idx_name] = seqinfo.init_index()
            if hasattr(seqinfo, "lst"):
                # the sequence actually being iterated, for invariants (e.g. list(aset) is an arbitrary enumeration)
                self.st.locals[f"_src{k}"] = seqinfo.lst
        # 1. invariant holds on entry
        self.run_hints(f"loop{k}:init")
        for n, inv in enumerate(invs):
            self.oblige(f"inv_init#{k}.{n}", self.ev_spec(inv), {"clause": ast.unparse(inv)})
        # 2. havoc everything the body may modify
        # locals rebound in the body, plus local CONTAINERS mutated in place (value semantics); a method call on a
        # reference-typed local does not change the local itself (heap effects are havocked separately)
        mods = assigned_names(s.body) | {
            r for r in mutated_roots(s.body)
            if isinstance(self.st.locals.get(r), V) and isinstance(self.st.locals[r].sort, (S.TList, S.TSet, S.TDict))
        }
        if kind == "for":
            mods |= {idx_name}
            mods -= assigned_names([ast.Expr(value=s.target)]) if False else set()
        frame_invs = self.loop_frame_invariants(s.body)
        for key, mk in frame_invs:
            self.oblige(f"loopframe_init#{k}:{key[0]}.{key[1]}", mk())
        self.havoc(mods, s.body, tag)
        self.havoc_alloc(tag)
        for nme in sorted(mods):
            hv = self.st.locals.get(nme)
            if isinstance(hv, V) and (isinstance(hv.sort, S.TRef) or (isinstance(hv.sort, S.TOpt) and isinstance(hv.sort.inner, S.TRef))):
                # A-TYPES: a rebound reference-typed local still holds an allocated object of its declared class
                self.assume_wf_input(hv)
        for key, mk in frame_invs:
            self.st.assume(mk())
        for inv in invs:
            self.st.assume(self.ev_spec(inv))
        if kind == "for":
            self.st.assume(seqinfo.index_inv(self.st.locals[idx_name]))
            guard = seqinfo.has_next(self.st.locals[idx_name])
        else:
            guard = None
        which = self.choose(2)  # 0: one arbitrary iteration, 1: exit
        if which == 0:
            if kind == "for":
                self.st.assume(guard)
                if not self.feasible():
                    raise PathEnd()
                item = seqinfo.item(self.st.locals[idx_name])
                if isinstance(item, V) and not self.spec:
                    self.note_read(item)  # an element read out of a container in the heap: allocated, of its declared class
                self.assign(s.target, item)
                nxt = seqinfo.advance(self.st.locals[idx_name], item)
            else:
                c = self.ev_cond(s.test)
                self.st.assume(c)
                if not self.feasible():
                    raise PathEnd()
            dec0 = self.ev_spec_val(dec_expr) if dec_expr is not None else None
            self.run_hints(f"loop{k}:body")
            try:
                self.exec_block(s.body)
            except ContinueSig:
                pass
            except BreakSig:
                return  # continue after the loop with the state at the break
            if kind == "for":
                self.st.locals[idx_name] = nxt
            self.run_hints(f"loop{k}:step")
            for key, mk in frame_invs:
                self.oblige(f"loopframe_step#{k}:{key[0]}.{key[1]}", mk())
            for n, inv in enumerate(invs):
                self.oblige(f"inv_step#{k}.{n}", self.ev_spec(inv), {"clause": ast.unparse(inv)})
            if dec0 is not None:
                dec1 = self.ev_spec_val(dec_expr)
                self.oblige(f"decreases#{k}", z3.And(dec1.t < dec0.t, dec0.t >= 0) if dec0.sort is TInt else dec1.t < dec0.t)
            self.oblige(f"cover#{k}", z3.BoolVal(False))
            self.obls[-1].expect = "sat"
            raise PathEnd()
        else:
            if kind == "for":
                self.st.assume(z3.Not(guard))
                if seqinfo.strict_fail is not None:
                    if self.branch(seqinfo.strict_fail(self.st.locals[idx_name])):
                        raise PyRaise(ExcObj("ValueError", (), origin=s.lineno))
            else:
                c = self.ev_cond(s.test)
                self.st.assume(z3.Not(c))
            if not self.feasible():
                raise PathEnd()
            self.run_hints(f"loop{k}:exit")

    def loop_frame_invariants(self, body):
        """implicit invariant for every heap field the loop body may write: objects that existed at function entry
        and are outside the contract's assigns set still hold their entry values (checked, not assumed)"""
        out = []
        fs = self.fs
        if fs is None or fs.kind == "lemma" or self.frames:
            return out
        for key in sorted(self.body_heap_writes(body)):
            tg = self.frame_targets(fs, key)
            if tg == "all":
                continue
            so = self.m.field_sort(*key)[1]

            def mk(key=key, tg=tg, so=so):
                r = z3.Const(S.fresh_name("lf"), S.RefS)
                cur = self.heap_arrays(self.st, key, so)
                old = self.heap_arrays(self.old_st, key, so)
                cond = z3.And(z3.Select(self.entry_alloc, r), *[r != t for t in tg])
                return z3.ForAll([r], z3.Implies(cond, z3.And(*[x == y for x, y in zip(so.select(cur, r).terms, so.select(old, r).terms)])))

            out.append((key, mk))
        return out

    def havoc(self, names, body, tag):
        for n in sorted(names):
            v = self.st.locals.get(n)
            if isinstance(v, V):
                nv = v.sort.fresh(f"{tag}.{n}")
                self.st.locals[n] = nv
                if isinstance(v.sort, S.TList):
                    self.st.assume(nv.terms[0] >= 0)
                if isinstance(v.sort, S.TDict) and v.sort.ordered:
                    self.assume_odict_wf(nv)
        # heap: fields written in the body (syntactic) or assigned by callees -> havoc whole field
        for key in self.body_heap_writes(body):
            so = self.m.field_sort(*key)[1]
            self.st.heap[key] = tuple(
                z3.Const(S.fresh_name(f"{tag}.H.{key[0]}.{key[1]}{sfx}"), zs) for sfx, zs in so.lifted(S.RefS)
            )

    def body_heap_writes(self, body):
        keys = set()
        fields = set()
        called = []
        for s in body:
            for n in ast.walk(s):
                if isinstance(n, ast.Attribute) and isinstance(n.ctx, ast.Store):
                    fields.add(n.attr)
                if isinstance(n, (ast.Assign, ast.AugAssign)):
                    tg = n.targets if isinstance(n, ast.Assign) else [n.target]
                    for t in tg:
                        while isinstance(t, ast.Subscript):
                            t = t.value
                        if isinstance(t, ast.Attribute):
                            fields.add(t.attr)
                if isinstance(n, ast.Call) and isinstance(n.func, ast.Attribute):
                    # x.f.append(...)  mutates field f ; x.m(...) may assign per contract
                    # (reading methods of the builtin containers and of str leave a container-valued field as it is; a method of a
                    # referenced object never changes the field that holds the reference — its effects come from its contract)
                    if n.func.attr not in _READONLY_METHODS:
                        if isinstance(n.func.value, ast.Attribute):
                            fields.add(n.func.value.attr)
                        t = n.func.value
                        while isinstance(t, ast.Subscript):
                            t = t.value
                        if isinstance(t, ast.Attribute):
                            fields.add(t.attr)
                    called.append(n.func.attr)
                if isinstance(n, ast.Call) and isinstance(n.func, ast.Name):
                    called.append(n.func.id)
        for cname, d in self.m.classes.items():
            for f in d.fields:
                if f in fields:
                    keys.add((cname, f))
        # callee assigns
        for q, c in self.m.contracts.items():
            if q.split(".")[-1] in called:
                for a in c.assigns:
                    if isinstance(a, ast.Attribute):
                        for cname, d in self.m.classes.items():
                            if a.attr in d.fields:
                                keys.add((cname, a.attr))
                    elif isinstance(a, ast.Call):
                        cn, f = ast.literal_eval(a.args[0]).split(".")
                        k2, _ = self.heap_key(cn, f)
                        if k2:
                            keys.add(k2)
        for q in self.m.inlines:
            if q.split(".")[-1] in called or (q.endswith(".__init__") and q.split(".")[-2] in called):
                fnode, _, _ = locate(self.eng.repo, self.m.inlines[q], q)
                if fnode is not None:
                    keys |= self.body_heap_writes(fnode.body)
        return keys

    def iter_source(self, node):
        from .builtins import make_iter

        return make_iter(self, node)

    # ---- assignment ----------------------------------------------------------------------------
    def assign(self, target, v, ann=None):
        if isinstance(target, ast.Name):
            old = self.st.locals.get(target.id)
            if isinstance(v, V) and getattr(v, "meta", None) == "emptylit":
                decl = self.cur_fs.local_sorts.get(target.id) if self.cur_fs is not None else None
                if decl is not None:
                    v = self.coerce(v, decl)
                elif isinstance(old, V):
                    v = self.coerce(v, old.sort)
            self.st.locals[target.id] = v
        elif isinstance(target, (ast.Tuple, ast.List)):
            if not isinstance(v, V) or not isinstance(v.sort, S.TTuple):
                raise OutOfSubset("unpacking non-tuple")
            if len(target.elts) != len(v.sort.elems):
                raise OutOfSubset("unpacking arity")
            for n, t in enumerate(target.elts):
                self.assign(t, v.sort.item(v, n))
        elif isinstance(target, ast.Attribute):
            base = self.ev(target.value)
            if isinstance(base, V) and isinstance(base.sort, S.TOpt) and isinstance(base.sort.inner, S.TRef):
                base = self.unwrap_opt(base, target)
            if not (isinstance(base, V) and isinstance(base.sort, S.TRef)):
                raise OutOfSubset(f"attribute store on {base!r}")
            self.set_field(base, target.attr, v)
        elif isinstance(target, ast.Subscript):
            c = self.ev(target.value)
            k = self.ev(target.slice)
            from .builtins import record_class, record_set

            if isinstance(c, V) and isinstance(c.sort, S.TOpt) and isinstance(c.sort.inner, S.TRef):
                c = self.coerce(c, c.sort.inner)
            if record_class(self, c) is not None:
                record_set(self, c, k, v, target)
                return
            if isinstance(c.sort, S.TDict) and getattr(c, "meta", None) == "emptylit":
                nso = S.TDict(k.sort, v.sort, ordered=True)
                nv = nso.set(nso.empty(), k, v)
            elif isinstance(c.sort, S.TDict):
                nv = c.sort.set(c, self.coerce(k, c.sort.key), self.coerce(v, c.sort.val))
            elif isinstance(c.sort, S.TList):
                k = self.coerce(k, TInt)
                n = c.terms[0]
                idx = z3.If(k.t < 0, k.t + n, k.t)
                if not self.spec and self.branch(z3.Not(z3.And(idx >= 0, idx < n))):
                    raise PyRaise(ExcObj("IndexError", (), origin=target.lineno))
                nv = c.sort.setitem(c, idx, self.coerce(v, c.sort.elem))
            else:
                raise OutOfSubset(f"subscript store on {c.sort}")
            self.assign(target.value, nv)
        elif isinstance(target, ast.Starred):
            raise OutOfSubset("starred target")
        else:
            raise OutOfSubset(f"assignment target {type(target).__name__}")

    def unwrap_opt(self, v, node):
        if not self.spec:
            if self.branch(v.terms[0]):
                raise PyRaise(ExcObj("AttributeError", (), origin=getattr(node, "lineno", None)))
        return v.sort.payload(v)

    # ------------------------------------------------------------------------------ expressions
    def ev(self, node):
        m = getattr(self, "ex_" + type(node).__name__, None)
        if m is None:
            raise OutOfSubset(f"expression {type(node).__name__} at line {getattr(node, 'lineno', '?')}")
        return m(node)

    def ex_Constant(self, n):
        c = n.value
        if c is None:
            return NONE
        if isinstance(c, bool):
            return mk_bool(c)
        if isinstance(c, int):
            return mk_int(c)
        if isinstance(c, float):
            return mk_real(repr(c))
        if isinstance(c, str):
            return mk_str(c)
        if isinstance(c, bytes):
            # bytes are sequences of ints
            so = S.TList(TInt)
            r = so.empty()
            for b in c:
                r = so.append(r, mk_int(b))
            return r
        raise OutOfSubset(f"constant {c!r}")

    def ex_Name(self, n):
        name = n.id
        if name in self.bound:
            return self.bound[name]
        if name in self.st.locals:
            return self.st.locals[name]
        if name == "result" and self.spec:
            raise OutOfSubset("`result` used where there is none")
        return self.global_name(name, n)

    def global_name(self, name, n=None):
        m = self.m
        if name in m.consts:
            return self.const_value(name)
        if name in m.classes:
            return ClassObj(name)
        if name in m.excs:
            return ExcClassObj(name)
        if name in m.fns or name in m.lemmas or name in m.contracts or name in m.inlines:
            return FuncObj(name)
        from .builtins import BUILTINS

        if name in BUILTINS:
            return FuncObj("builtin:" + name)
        if name in ("True", "False"):
            return mk_bool(name == "True")
        if self.auto_inline_function(name):
            return FuncObj(name)
        return ModuleObj(name)

    def _unit_file(self):
        fs = self.fs
        return getattr(fs, "file", None) if fs is not None else None

    def auto_inline_function(self, name):
        """a module-level helper of the file under verification that has no contract: its REAL body is inlined at the call (this is
        what a small 'extract function' refactoring produces); recorded in the evidence as an inlined function"""
        f = self._unit_file()
        if not f or not name.isidentifier() or name in self.m.inlines:
            return name in self.m.inlines
        try:
            fnode, _, cnode = locate(self.eng.repo, f, name)
        except Exception:
            return False
        if fnode is None or cnode is not None or any(isinstance(x, (ast.Yield, ast.YieldFrom)) for x in ast.walk(fnode)):
            return False
        self.m.inlines[name] = f
        self.eng.idioms.setdefault(self.fname, set()).add(f"helper {name} (no contract) inlined from {f}")
        return True

    def auto_inline_method(self, clsname, attr):
        f = self._unit_file()
        if not f:
            return None
        todo, seen = [clsname], set()
        while todo:
            c = todo.pop(0)
            if c in seen:
                continue
            seen.add(c)
            q = f"{c}.{attr}"
            try:
                fnode, _, cnode = locate(self.eng.repo, f, q)
            except Exception:
                fnode = None
            if fnode is not None and not any(isinstance(x, (ast.Yield, ast.YieldFrom)) for x in ast.walk(fnode)):
                decos = {ast.unparse(d).split(".")[-1] for d in fnode.decorator_list}
                if decos - {"staticmethod"}:
                    return None  # properties, classmethods, cached ... are not guessed
                self.m.inlines[q] = f
                if "staticmethod" in decos:
                    self.eng.static_helpers.add(q)
                self.eng.idioms.setdefault(self.fname, set()).add(f"helper {q} (no contract) inlined from {f}")
                return q
            if c in self.m.classes:
                todo += self.m.classes[c].bases
        return None

    def const_value(self, dotted):
        so, val = self.m.consts[dotted]
        if val is not None:
            v = self.ev_spec_val(val) if isinstance(val, ast.AST) else val
            return self.coerce(v, so)
        return so.const("const." + dotted)

    def ex_Attribute(self, n):
        # dotted global names first
        dotted = _dotted(n)
        if dotted is not None:
            root = dotted.split(".")[0]
            if root not in self.st.locals and root not in self.bound:
                r = self.dotted_global(dotted)
                if r is not None:
                    return r
        base = self.ev(n.value)
        return self.getattr(base, n.attr, n)

    def dotted_global(self, dotted):
        m = self.m
        if dotted in m.consts:
            return self.const_value(dotted)
        if dotted in m.contracts or dotted in m.inlines:
            return FuncObj(dotted)
        if dotted in m.excs:
            return ExcClassObj(dotted)
        from .builtins import BUILTINS

        if dotted in BUILTINS:
            return FuncObj("builtin:" + dotted)
        return None

    def getattr(self, base, attr, node):
        if isinstance(base, ModuleObj):
            d = base.dotted + "." + attr
            r = self.dotted_global(d)
            return r if r is not None else ModuleObj(d)
        if isinstance(base, ClassObj):
            q, kind = self.m.find_method(base.name, attr)
            if q:
                return FuncObj(q)
            d = f"{base.name}.{attr}"
            if d in self.m.consts:
                return self.const_value(d)
            raise OutOfSubset(f"class attribute {d}")
        if isinstance(base, FuncObj) and attr == "__call__":
            return base
        if isinstance(base, SuperObj):
            for b in self.m.classes[base.cls].bases:
                q, kind = self.m.find_method(b, attr)
                if q:
                    return FuncObj(q, recv=base.recv, )
            raise OutOfSubset(f"super().{attr}: no contract in the bases of {base.cls}")
        if isinstance(base, ExcObj):
            raise OutOfSubset("exception attribute")
        if isinstance(base, V):
            so = base.sort
            if isinstance(so, S.TOpt) and isinstance(so.inner, S.TRef):
                base = self.unwrap_opt(base, node)
                so = base.sort
            elif isinstance(so, S.TOpt) and isinstance(so.inner, (S.TList, S.TSet, S.TDict, S.TStrC)):
                # method call on an Optional container: allowed where the path condition excludes None
                base = self.coerce(base, so.inner)
                so = base.sort
            if isinstance(so, S.TRef):
                v = self.get_field(base, attr)
                if v is not None:
                    return v
                q, kind = self.m.find_method(so.cls, attr)
                if q:
                    spec = self.m.contracts.get(q)
                    if (spec and spec.options.get("property")) or (q in self.m.inlines and q in self.m.options.get("properties", [])):
                        return self.call_named(q, kind, [base], {}, node)
                    if q in self.eng.static_helpers:
                        return FuncObj(q, recv=None)
                    fo = FuncObj(q, recv=base)
                    fo.virtual = True
                    return fo
                # pure spec function used as ghost field:  obj.ghostfn  ->  ghostfn(obj)
                if attr in self.m.fns:
                    return self.call_spec(self.m.fns[attr], [base], {})
                if so.cls in self.m.classes and self.m.classes[so.cls].record:
                    from .builtins import value_method

                    return value_method(self, base, attr, node)
                q = self.auto_inline_method(so.cls, attr)
                if q:
                    fo = FuncObj(q, recv=None if q in self.eng.static_helpers else base)
                    return fo
                raise OutOfSubset(f"attribute {so.cls}.{attr} not declared")
            from .builtins import value_method

            return value_method(self, base, attr, node)
        raise OutOfSubset(f"attribute {attr} of {base!r}")

    def ex_NamedExpr(self, n):
        v = self.ev(n.value)
        self.assign(n.target, v)
        return v

    def ex_BoolOp(self, n):
        if self.spec or all(_pure_expr(v) for v in n.values[1:]):
            vals = [self.ev(v) for v in n.values]
            if all(isinstance(v, V) and v.sort is TBool for v in vals):
                f = z3.And if isinstance(n.op, ast.And) else z3.Or
                return mk_bool(f(*[v.t for v in vals]))
            if self.spec:
                if any(isinstance(v, V) and isinstance(v.sort, (S.TList, S.TSet, S.TDict, S.TStrC)) for v in vals):
                    # `xs or []` in a specification is the value, as in the code
                    try:
                        return self._boolop_value(n, vals)
                    except OutOfSubset:
                        pass
                f = z3.And if isinstance(n.op, ast.And) else z3.Or
                return mk_bool(f(*[self.truthy(v) for v in vals]))
            # value-returning and/or over non-bools: build ite chain (if the operand sorts cannot be unified the expression is
            # only usable as a condition: its truth value)
            try:
                return self._boolop_value(n, vals)
            except OutOfSubset:
                f = z3.And if isinstance(n.op, ast.And) else z3.Or
                return mk_bool(f(*[self.truthy(v) for v in vals]))
        cur = self.ev(n.values[0])
        for nxt in n.values[1:]:
            t = self.truthy(cur)
            go_on = self.branch(t) if isinstance(n.op, ast.And) else not self.branch(t)
            if not go_on:
                if isinstance(n.op, ast.Or) and isinstance(cur, V) and isinstance(cur.sort, S.TOpt):
                    return cur.sort.payload(cur)  # a truthy Optional is not None
                return cur
            cur = self.ev(nxt)
        return cur

    def _boolop_value(self, n, vals):
        if all(isinstance(v, V) and getattr(v, "meta", None) == "emptylit" for v in vals):
            return vals[-1]  # `{} or {}`: every operand is an empty literal, so is the value
        res = vals[-1]
        for v in reversed(vals[:-1]):
            t = self.truthy(v)
            if isinstance(n.op, ast.Or) and isinstance(v, V) and isinstance(v.sort, S.TOpt) and isinstance(res, V) and not isinstance(res.sort, S.TOpt):
                v = v.sort.payload(v)  # `opt or default`: a truthy Optional is its payload
            a, b = self.unify(v, res)
            res = a.sort.ite(t, b, a) if isinstance(n.op, ast.And) else a.sort.ite(t, a, b)
        return res

    def ex_UnaryOp(self, n):
        v = self.ev(n.operand)
        if isinstance(n.op, ast.Not):
            return mk_bool(z3.Not(self.truthy(v)))
        if isinstance(n.op, ast.USub):
            return V(v.sort, (-v.t,))
        if isinstance(n.op, ast.UAdd):
            return v
        raise OutOfSubset("unary op")

    def ex_BinOp(self, n):
        return self.binop(n.op, self.ev(n.left), self.ev(n.right), n)

    def binop(self, op, a, b, node=None):
        from .builtins import binop

        return binop(self, op, a, b, node)

    def ex_Compare(self, n):
        left = self.ev(n.left)
        res = []
        for op, rn in zip(n.ops, n.comparators):
            right = self.ev(rn)
            res.append(self.compare(op, left, right, n))
            left = right
        return mk_bool(z3.And(*res)) if len(res) > 1 else mk_bool(res[0])

    def compare(self, op, a, b, node=None):
        from .builtins import contains

        if isinstance(op, ast.Eq):
            return self.eq(a, b)
        if isinstance(op, ast.NotEq):
            return z3.Not(self.eq(a, b))
        if isinstance(op, (ast.Is, ast.IsNot)):
            for x in (a, b):
                if isinstance(x, ModuleObj):
                    # an unbound name falls back to "some module"; comparing it with None would silently be a constant
                    raise OutOfSubset(f"name {x.dotted} is not bound here (`is` on an unknown global)")
            if isinstance(b, V) and b.sort is TNone:
                r = self.is_none(a) if isinstance(a, V) else z3.BoolVal(False)
            elif isinstance(a, V) and a.sort is TNone:
                r = self.is_none(b) if isinstance(b, V) else z3.BoolVal(False)
            elif isinstance(a, V) and isinstance(b, V) and isinstance(a.sort, S.TRef) and isinstance(b.sort, S.TRef):
                r = a.t == b.t
            elif isinstance(a, V) and isinstance(b, V) and a.sort is TBool and b.sort is TBool:
                r = a.t == b.t
            elif (isinstance(a, V) and isinstance(b, V) and all(isinstance(x.sort, S.TRef) or (isinstance(x.sort, S.TOpt) and isinstance(x.sort.inner, S.TRef)) for x in (a, b))):
                # identity between an object and an Optional object (or two Optional ones): both None, or both present and the same object
                def parts(x):
                    if isinstance(x.sort, S.TRef):
                        return z3.BoolVal(False), x.t
                    return self.is_none(x), x.terms[1]
                (na, ra), (nb, rb) = parts(a), parts(b)
                r = z3.Or(z3.And(na, nb), z3.And(z3.Not(na), z3.Not(nb), ra == rb))
            elif isinstance(a, ExcObj) and isinstance(b, ExcObj):
                r = z3.BoolVal(a is b)
            else:
                raise OutOfSubset(f"`is` on {a!r}, {b!r}")
            return r if isinstance(op, ast.Is) else z3.Not(r)
        if isinstance(op, (ast.In, ast.NotIn)):
            r = contains(self, b, a)
            return r if isinstance(op, ast.In) else z3.Not(r)
        if isinstance(a, V) and isinstance(a.sort, S.TOpt):
            a = a.sort.payload(a)  # A-TYPES: ordering against None is a dynamic type error, not modelled
        if isinstance(b, V) and isinstance(b.sort, S.TOpt):
            b = b.sort.payload(b)
        a, b = self.unify(a, b)
        if a.sort in (TInt, TReal):
            return {ast.Lt: a.t < b.t, ast.LtE: a.t <= b.t, ast.Gt: a.t > b.t, ast.GtE: a.t >= b.t}[type(op)]
        if a.sort is TStr:
            if S.TStrC.mode == "z3":
                lt = lambda x, y: x < y
            else:
                f = self.eng.ufunc("str_lt", S.StrAbs, S.StrAbs, z3.BoolSort())
                lt = lambda x, y: f(x, y)
                if not self.st.ghost.get("str_lt_axioms"):
                    self.st.ghost["str_lt_axioms"] = True
                    x, y, w = z3.Consts("slx sly slw", S.StrAbs)
                    self.st.assume(z3.ForAll([x, y], z3.Implies(f(x, y), z3.Not(f(y, x)))))
                    self.st.assume(z3.ForAll([x, y], z3.Or(f(x, y), f(y, x), x == y)))
                    self.st.assume(z3.ForAll([x, y, w], z3.Implies(z3.And(f(x, y), f(y, w)), f(x, w))))
            return {
                ast.Lt: lt(a.t, b.t), ast.Gt: lt(b.t, a.t),
                ast.LtE: z3.Or(a.t == b.t, lt(a.t, b.t)), ast.GtE: z3.Or(a.t == b.t, lt(b.t, a.t)),
            }[type(op)]
        raise OutOfSubset(f"comparison {type(op).__name__} on {a.sort}")

    def ex_IfExp(self, n):
        if self.spec or (_pure_expr(n.body) and _pure_expr(n.orelse)):
            c = self.ev_cond(n.test)
            sc = z3.simplify(c)
            if z3.is_true(sc):
                return self.ev(n.body)
            if z3.is_false(sc):
                return self.ev(n.orelse)
            if self.spec:
                a, b = self.ev(n.body), self.ev(n.orelse)
                a, b = self.unify(a, b)
                return a.sort.ite(c, a, b)
        c = self.ev_cond(n.test)
        return self.ev(n.body) if self.branch(c) else self.ev(n.orelse)

    def ex_Tuple(self, n):
        vals = []
        for e in n.elts:
            if isinstance(e, ast.Starred):
                return self.ex_List(n, as_tuple=True)
            vals.append(self.ev(e))
        if not all(isinstance(v, V) for v in vals):
            raise OutOfSubset("tuple of non-values")
        return S.TTuple([v.sort for v in vals]).make(vals)

    def ex_List(self, n, as_tuple=False):
        from .builtins import list_literal

        r = list_literal(self, n)
        if isinstance(r, V) and n.elts and getattr(r, "meta", None) is None:
            try:
                r.meta = "display"  # written as [a, b, c] in the source: its length is a literal
            except AttributeError:
                pass
        return r

    def ex_Set(self, n):
        vals = [self.ev(e) for e in n.elts]
        so = S.TSet(vals[0].sort)
        r = so.empty()
        for v in vals:
            r = so.add(r, self.coerce(v, so.elem))
        return r

    def ex_Dict(self, n):
        rc = self.m.options.get("dict_literal_class")
        if isinstance(rc, (list, tuple)):
            # several record classes: the literal is an instance of the FIRST declared class whose vocabulary contains all of its keys
            # (and whose remaining keys are optional)
            lit = [k.value for k in n.keys if isinstance(k, ast.Constant) and isinstance(k.value, str)]
            cands = sorted(rc, key=lambda c: len(self.m.classes[c].fields))  # the smallest fitting vocabulary ...
            ret = getattr(self.fs, "ret", None) if self.fs is not None else None
            if isinstance(ret, S.TRef) and ret.cls in rc:
                cands = [ret.cls] + [c for c in cands if c != ret.cls]  # ... after the class the unit is declared to return
            rc = next((c for c in cands if n.keys and len(lit) == len(n.keys) and all(k in self.m.classes[c].fields for k in lit)
                       and all(isinstance(so, S.TOpt) for f, so in self.m.classes[c].fields.items() if f not in lit)), None)
        if rc and n.keys and all(isinstance(k, ast.Constant) and isinstance(k.value, str) and k.value in self.m.classes[rc].fields for k in n.keys):
            # a dict literal with this vocabulary of keys is an instance of the declared record class
            ref = self.new_ref(rc)
            given = {k.value: v for k, v in zip(n.keys, n.values)}
            for f, so in self.m.classes[rc].fields.items():
                if f in given:
                    from .builtins import wrap_present

                    self.set_field(ref, f, wrap_present(self, self.ev(given[f]), so))
                elif isinstance(so, S.TOpt):
                    self.set_field(ref, f, so.none())
                else:
                    raise OutOfSubset(f"record literal without mandatory key {f}")
            return ref
        if not n.keys:
            v = S.TDict(TVal, TVal).empty()
            v.meta = "emptylit"
            return v
        ks = [self.ev(k) for k in n.keys]
        vs = [self.ev(v) for v in n.values]
        so = S.TDict(ks[0].sort, vs[0].sort, ordered=True)
        r = so.empty()
        for k, v in zip(ks, vs):
            r = so.set(r, self.coerce(k, so.key), self.coerce(v, so.val))
        return r

    def ex_Subscript(self, n):
        from .builtins import subscript

        return subscript(self, n)

    def ex_JoinedStr(self, n):
        from .builtins import fstring

        return fstring(self, n)

    def ex_Await(self, n):
        v = self.ev(n.value)
        self.yield_point("await")
        return v

    def ex_Lambda(self, n):
        return ("lambda", n, dict(self.st.locals), dict(self.bound))

    def ex_ListComp(self, n):
        from .builtins import comprehension

        return comprehension(self, n, "list")

    def ex_SetComp(self, n):
        from .builtins import comprehension

        return comprehension(self, n, "set")

    def ex_DictComp(self, n):
        from .builtins import comprehension

        return comprehension(self, n, "dict")

    def ex_GeneratorExp(self, n):
        return ("genexp", n)

    def ex_Starred(self, n):
        raise OutOfSubset("starred expression")

    # ------------------------------------------------------------------------------ calls
    def ex_Call(self, n):
        from .builtins import call_builtin, call_special

        r = call_special(self, n)
        if r is not NotImplemented:
            return r
        g = self._gather_idiom(n)
        if g is not None:
            return g
        if isinstance(n.func, ast.Name) and n.func.id == "super" and not n.args and "super" not in self.st.locals:
            owner = self.current_class()
            recv = self.st.locals.get("self")
            if owner is None or not isinstance(recv, V):
                raise OutOfSubset("super() outside a method under contract")
            return SuperObj(recv, owner)
        f = self.ev(n.func)
        if isinstance(f, ExcClassObj):
            # exception message expressions are not evaluated (documented drop: they are side-effect free strings)
            return ExcObj(f.name, (), origin=getattr(n, "lineno", None))
        ignore = isinstance(f, FuncObj) and f.name in self.m.contracts and self.m.contracts[f.name].options.get("ignore_args")
        split_star = isinstance(f, FuncObj) and f.name in self.m.contracts and self.m.contracts[f.name].options.get("split_star")
        args = []
        if ignore == "all":
            # the callee's contract does not depend on its arguments (declared ignore_args="all"): they are not evaluated; the
            # receiver (if any) is still passed
            return self.call(f, [], {}, n)
        for a in n.args:
            if isinstance(a, ast.Starred):
                if ignore:
                    continue
                v = a.value
                if split_star and isinstance(v, ast.Call) and isinstance(v.func, ast.Attribute) and v.func.attr == "split" and len(v.args) == 1:
                    # idiom  f(x, *s.split(sep))  ==>  f(x, s, sep)   (callee declared split_star=True: an assumed contract over
                    # the unsplit string; recorded as an idiom rewrite)
                    args.append(self.ev(v.func.value))
                    args.append(self.ev(v.args[0]))
                    self.eng.idioms.setdefault(self.fname, set()).add(f"line {getattr(n, 'lineno', '?')}: {f.name}(.., *s.split(sep)) -> {f.name}(.., s, sep)")
                    continue
                raise OutOfSubset("*args at call")
            args.append(self.ev(a))
        kwargs = {}
        for kw in n.keywords:
            if kw.arg is None:
                if ignore:
                    continue
                raise OutOfSubset("**kwargs at call")
            kwargs[kw.arg] = self.ev(kw.value)
        return self.call(f, args, kwargs, n)

    def _gather_idiom(self, n):
        """asyncio.gather(*(asyncio.create_task(CALL) for x in XS)) — the concurrent map that streamflow uses everywhere.
        (a) CALL is a pure lookup (a contract declared pure=True): the result is the list [CALL for x in XS], pointwise and in order.
        (b) CALL is `x.m(args)` with effects: the gather is a call of the LEMMA gather_<m>(XS, args) of the contract file, whose ghost
            loop runs the calls one after the other (A-GATHER-SEQ: tasks are sequentialised in list order; interleavings at their
            await points are not modelled) — a proved unit, not an assumed one.  Anything else stays outside the subset."""
        if not (_dotted(n.func) == "asyncio.gather" and len(n.args) == 1 and not n.keywords and isinstance(n.args[0], ast.Starred)
                and isinstance(n.args[0].value, ast.GeneratorExp)):
            return None
        ge = n.args[0].value
        c = ge.elt
        if not (isinstance(c, ast.Call) and _dotted(c.func) == "asyncio.create_task" and len(c.args) == 1 and isinstance(c.args[0], ast.Call)
                and len(ge.generators) == 1 and not ge.generators[0].ifs and not ge.generators[0].is_async):
            raise OutOfSubset("asyncio.gather over something else than create_task(call) for x in xs")
        inner = c.args[0]
        gen = ge.generators[0]
        from .builtins import comprehension

        dec_mark = len(self.dec.trace) if hasattr(self.dec, "trace") else None
        try:
            lc = ast.ListComp(elt=inner, generators=[gen])
            ast.copy_location(lc, n)
            ast.fix_missing_locations(lc)
            r = comprehension(self, lc, "list")
            self.eng.idioms.setdefault(self.fname, set()).add(f"line {getattr(n, 'lineno', '?')}: gather of pure lookups -> list comprehension")
            return r
        except OutOfSubset as e:
            pure_err = e
        # (b) effectful: x.m(args) for x in XS  ->  lemma gather_m(XS, *args)
        if (isinstance(inner.func, ast.Attribute) and isinstance(inner.func.value, ast.Name) and isinstance(gen.target, ast.Name)
                and inner.func.value.id == gen.target.id and not inner.keywords
                and not any(isinstance(x, ast.Name) and x.id == gen.target.id for a in inner.args for x in ast.walk(a))):
            lname = "gather_" + inner.func.attr
            if lname in self.m.lemmas:
                from .builtins import as_list

                xs = self.ev(gen.iter)
                xs = as_list(self, xs) if not (isinstance(xs, V) and isinstance(xs.sort, S.TList)) else xs
                args = [xs] + [self.ev(a) for a in inner.args]
                self.eng.idioms.setdefault(self.fname, set()).add(
                    f"line {getattr(n, 'lineno', '?')}: gather of {inner.func.attr}() tasks -> lemma {lname} (sequentialised, A-GATHER-SEQ)")
                r = self.call_contract(self.m.lemmas[lname], args, {}, n)
                return r if r is not None else NONE
        raise OutOfSubset(f"asyncio.gather: {pure_err}")

    def call(self, f, args, kwargs, node):
        from .builtins import call_builtin

        if isinstance(f, tuple) and f[0] == "boundbuiltin":
            return f[1](*args, **kwargs)
        if isinstance(f, V) and isinstance(f.sort, S.TFn):
            names = f.sort.names
            for k, nm in enumerate(names):
                last = k == len(names) - 1
                if last:
                    self.st.assume(f.t == k) if not self.spec else None
                if last or self.branch(f.t == k):
                    return self.call(FuncObj(nm), args, kwargs, node)
        if isinstance(f, tuple) and f[0] == "lambda":
            return self.call_lambda(f, args)
        if isinstance(f, ClassObj):
            if f.name in self.m.contracts:  # external constructor under an assumed contract
                return self.call_contract(self.m.contracts[f.name], args, kwargs, node)
            return self.construct(f.name, args, kwargs, node)
        if isinstance(f, ExcClassObj):
            return ExcObj(f.name, tuple(args), origin=getattr(node, "lineno", None))
        if isinstance(f, FuncObj):
            if f.name.startswith("builtin:"):
                return call_builtin(self, f.name[8:], args, kwargs, node)
            if f.recv is not None:
                if getattr(f, "virtual", False) and not self.spec:
                    alt = self.dispatch_target(f)
                    if alt is not None:
                        f = alt
                args = [f.recv] + args
            m = self.m
            if f.name in m.fns:
                return self.call_spec(m.fns[f.name], args, kwargs)
            if f.name in m.lemmas:
                return self.call_contract(m.lemmas[f.name], args, kwargs, node)
            if f.name in m.contracts:
                return self.call_contract(m.contracts[f.name], args, kwargs, node)
            if f.name in m.inlines:
                return self.call_inline(f.name, args, kwargs, node)
        raise OutOfSubset(f"call of {f!r} ({ast.unparse(node)[:60]})")

    def dispatch_target(self, f):
        """virtual call obj.m(...): if subclasses of obj's static class bring their own contract for m, branch on the dynamic
        type (most specific classes first) and call that contract instead of the statically resolved one"""
        recv = f.recv
        static = recv.sort.cls
        meth = f.name.rsplit(".", 1)[-1]
        base = self.m.contracts.get(f.name)
        if base is not None and base.options.get("final"):
            return None  # the assumed contract is declared to hold for every override (no case split on the dynamic type)
        cands = []
        for c in self.m.classes:
            if c != static and self.m.is_subclass(c, static):
                q = f"{c}.{meth}"
                if q in self.m.contracts or q in self.m.inlines:
                    cands.append((c, q))
        # most specific first
        cands.sort(key=lambda cq: -sum(1 for d in self.m.classes if self.m.is_subclass(cq[0], d)))
        for c, q in cands:
            if self.branch(self.eng.isinstance_formula(recv.t, c)):
                return FuncObj(q, recv=V(S.TRef(c), recv.terms))
        return None

    def current_class(self):
        """the class whose method body is being executed (innermost inlined frame, else the unit under verification)"""
        q = self.frames[-1] if self.frames else (self.fs.name if self.fs is not None else None)
        if q and "." in q:
            c = q.rsplit(".", 1)[0]
            return c if c in self.m.classes else None
        return None

    def call_named(self, q, kind, args, kwargs, node):
        if kind == "contract":
            return self.call_contract(self.m.contracts[q], args, kwargs, node)
        return self.call_inline(q, args, kwargs, node)

    def call_lambda(self, lam, args):
        _, n, env, bound = lam
        saved = self.bound
        self.bound = dict(bound)
        self.bound.update(self.bound_locals_overlay(env))
        for a, v in zip(n.args.args, args):
            self.bound[a.arg] = v
        try:
            return self.ev(n.body)
        finally:
            self.bound = saved

    def bound_locals_overlay(self, env):
        return {}

    def bind_args(self, params, args, kwargs, what):
        env = {}
        names = [p[0] for p in params]
        if len(args) > len(names):
            raise OutOfSubset(f"too many args for {what}")
        for nme, v in zip(names, args):
            env[nme] = v
        for k, v in kwargs.items():
            if k not in names:
                raise OutOfSubset(f"unknown kwarg {k} for {what}")
            env[k] = v
        for nme, so, dflt in params:
            if nme not in env:
                if dflt is None:
                    raise OutOfSubset(f"missing arg {nme} for {what}")
                env[nme] = self.ev_spec_val(dflt)
            if so is not None and so is not S.TExc:
                env[nme] = self.coerce_any(env[nme], so)
        return env

    def call_spec(self, fs, args, kwargs):
        env = self.bind_args(fs.params, args, kwargs, fs.name)
        if fs.kind == "spec":
            fns = self.eng.spec_ufuncs(fs)
            flat = []
            for nme, so, _ in fs.params:
                flat += list(env[nme].terms)
            return V(fs.ret, tuple(f(*flat) for f in fns))
        if fs.kind == "recursive":
            fns = self.eng.spec_ufuncs(fs)
            flat = []
            for nme, so, _ in fs.params:
                flat += list(env[nme].terms)
            app = V(fs.ret, tuple(f(*flat) for f in fns))
            if not self.unfolding and self.qdepth == 0 and not self.in_axiom:
                key = tuple(t.get_id() for t in app.terms)
                if key not in self.unfolded:
                    self.unfolded.add(key)
                    body = self.eval_pure_body(fs, env, unfolding=True)
                    b2 = self.coerce(body, fs.ret)
                    self.defn_facts.append(z3.simplify(z3.And(*[x == y for x, y in zip(app.terms, b2.terms)])))
            return app
        # pure: inline the single return expression
        rets = [s for s in fs.ghost_body if isinstance(s, ast.Return)]
        if len(rets) != 1 or len(fs.ghost_body) != 1:
            raise OutOfSubset(f"pure function {fs.name} must be a single return")
        saved_l, saved_b, saved_s = self.st.locals, self.bound, self.spec
        self.st.locals = env
        self.bound = {}
        self.spec = True
        try:
            r = self.ev(rets[0].value)
        finally:
            self.st.locals, self.bound, self.spec = saved_l, saved_b, saved_s
        if fs.ret is not None and isinstance(r, V):
            r = self.coerce(r, fs.ret)
        return r

    def eval_pure_body(self, fs, env, unfolding=False):
        rets = [s for s in fs.ghost_body if isinstance(s, ast.Return)]
        if len(rets) != 1 or len(fs.ghost_body) != 1:
            raise OutOfSubset(f"spec function {fs.name} must be a single return")
        saved = (self.st.locals, self.bound, self.spec, self.unfolding)
        self.st.locals, self.bound, self.spec = env, {}, True
        self.unfolding = unfolding or self.unfolding
        try:
            return self.ev(rets[0].value)
        finally:
            self.st.locals, self.bound, self.spec, self.unfolding = saved

    def bind_ghosts(self, fs, env):
        """ghost(name, expr): a fresh constant of expr's sort, extensionally equal to expr in the current (entry) state"""
        for name, e in fs.ghosts:
            saved = self.st.locals
            self.st.locals = env
            try:
                v = self.ev_spec_val(e)
            finally:
                self.st.locals = saved
            g = v.sort.fresh("ghost." + name)
            # full (not range-limited) equality of every leaf: two bindings of the same expression are then equal
            # terms by congruence, without any induction over list prefixes
            for a, b in zip(g.terms, v.terms):
                if isinstance(a.sort(), z3.ArraySortRef):
                    j = z3.Const(S.fresh_name("gj"), a.sort().domain())
                    self.st.assume(z3.ForAll([j], z3.Select(a, j) == z3.simplify(z3.Select(b, j))))
                else:
                    self.st.assume(a == b)
            if isinstance(v.sort, S.TList):
                self.st.assume(g.terms[0] >= 0)
            env[name] = g

    def name_value(self, v, name):
        """replace lambda-built array leaves by fresh constants with a total pointwise definition (keeps lambdas out of
        the arguments of spec functions inside quantified lemma statements)"""
        if not isinstance(v, V) or not any(isinstance(t.sort(), z3.ArraySortRef) and not z3.is_const(t) for t in v.terms):
            return v
        g = v.sort.fresh("arg." + name)
        for a, b in zip(g.terms, v.terms):
            if isinstance(a.sort(), z3.ArraySortRef):
                if z3.is_const(b):
                    self.st.assume(a == b)
                else:
                    j = z3.Const(S.fresh_name("nj"), a.sort().domain())
                    self.st.assume(z3.ForAll([j], z3.Select(a, j) == z3.simplify(z3.Select(b, j))))
            else:
                self.st.assume(a == b)
        return g

    def run_hints(self, where):
        fs = self.cur_fs if self.cur_fs is not None else self.fs
        for h in (fs.hints.get(where, []) if fs else []):
            saved = self.spec
            try:
                if isinstance(h, ast.Call) and isinstance(h.func, ast.Name) and h.func.id == "let":
                    # let(name=expr, ...): specification-only names for values at this point
                    for kw in h.keywords:
                        self.st.locals[kw.arg] = self.name_value(self.ev_spec_val(kw.value), kw.arg)
                elif isinstance(h, ast.Call) and isinstance(h.func, ast.Name) and h.func.id in self.m.lemmas:
                    self.spec = False
                    self.ev(h)
                elif _only_unfolds(h):
                    # instances of the defining equations of @recursive spec functions: definitional, assumed
                    self.st.assume(self.ev_spec(h))
                else:
                    # a plain fact: proved here, then available
                    c = self.ev_spec(h)
                    self.callsite_counter["hintfact"] = self.callsite_counter.get("hintfact", 0) + 1
                    self.oblige(f"hint#{self.callsite_counter['hintfact']}@{where}", c, {"clause": ast.unparse(h)})
                    self.st.assume(c)
            finally:
                self.spec = saved

    def call_contract(self, fs: FnSpec, args, kwargs, node):
        """modular call: precondition obligations, havoc assigns, assume postconditions"""
        if self.spec and fs.kind != "lemma":
            return self.call_pure_contract(fs, args, kwargs, node)
        env = self.bind_args(fs.params, args, kwargs, fs.name)
        if fs.kind == "lemma":
            env = {k: self.name_value(v, k) for k, v in env.items()}
        site = self.callsite_counter.get(fs.name, 0)
        self.callsite_counter[fs.name] = site + 1
        saved_locals, saved_old, saved_bound = self.st.locals, self.old_st, self.bound
        self.bound = {}
        try:
            self.st.locals = env
            gnames = {g for g, _ in fs.ghosts}
            late = [k for k, r in enumerate(fs.requires) if any(isinstance(x, ast.Name) and x.id in gnames for x in ast.walk(r))]
            for k, r in enumerate(fs.requires):
                if k not in late:
                    self.oblige(f"pre@{fs.name}#{k}@{site}", self.ev_spec(r), {"clause": ast.unparse(r)})
            self.bind_ghosts(fs, env)
            for k in late:  # preconditions phrased over ghost names
                r = fs.requires[k]
                self.oblige(f"pre@{fs.name}#{k}@{site}", self.ev_spec(r), {"clause": ast.unparse(r)})
            for gname, _ in fs.ghosts:
                self.call_ghosts[(fs.name, site, gname)] = env[gname]
            pre_st = self.st.copy()
            self.old_st = pre_st
            # exceptional outcomes
            for k, (en, when, strict) in enumerate(fs.raises):
                if when is not None and not strict:
                    # may raise, and only when the condition holds
                    if self.choose(2) == 1:
                        self.st.assume(self.ev_spec(when))
                        if not self.feasible():
                            raise PathEnd()
                        self.raise_from_call(fs, k, en, env, pre_st)
                elif when is not None:
                    c = self.ev_spec(when)
                    self.st.locals = saved_locals
                    taken = self.branch(c)
                    self.st.locals = env
                    if taken:
                        self.raise_from_call(fs, k, en, env, pre_st)
                else:
                    if self.choose(2) == 1:
                        self.raise_from_call(fs, k, en, env, pre_st)
            self.havoc_assigns(fs, pre_st)
            if fs.kind != "lemma" and (fs.options.get("allocates") or (fs.ret is not None and _mentions_ref(fs.ret)) or _mentions_fresh(fs)):
                self.havoc_alloc("call")
            res = NONE
            if fs.ret is not None and fs.ret is not TNone:
                res = fs.ret.fresh(f"ret.{fs.name}")
                self.note_read(res)
                if isinstance(res.sort, S.TList):
                    self.st.assume(res.terms[0] >= 0)
                if isinstance(res.sort, S.TDict) and res.sort.ordered:
                    self.assume_odict_wf(res)
            self.call_results[(fs.name, site)] = res
            env2 = dict(env)
            env2["result"] = res
            self.st.locals = env2
            was_feasible = self.feasible()
            for e in fs.ensures:
                if _mentions_internal_calls(e):
                    # a clause about the callee's own internal calls (result_of / ghost_of): an obligation of the callee, it says
                    # nothing a caller can use
                    continue
                self.st.assume(self.ev_spec(e))
            if was_feasible and not self.feasible() and not _never_returns(fs):
                # the callee's postcondition contradicts what is known at this call site: everything after the call would be
                # "proved" vacuously.  Reported as a checker error, never as success.
                self.eng.dead_calls.append(f"{self.fname}: postcondition of {fs.name} (call #{site}) is unsatisfiable at the call site")
            return res
        finally:
            self.st.locals, self.old_st, self.bound = saved_locals, saved_old, saved_bound

    def call_pure_contract(self, fs, args, kwargs, node):
        """a call evaluated inside a pure context (body of any()/all()/a comprehension, or a specification): allowed only for
        contracts declared pure=True, without assigns, whose result is given functionally by `ensures(result == E)`.
        The callee's preconditions are collected and become one quantified obligation of the enclosing construct."""
        if not fs.options.get("pure") or fs.assigns:
            raise OutOfSubset(f"call of {fs.name} in a pure context (contract is not declared pure=True)")
        env = self.bind_args(fs.params, args, kwargs, fs.name)
        defs = [e for e in fs.ensures if isinstance(e, ast.Compare) and len(e.ops) == 1 and isinstance(e.ops[0], ast.Eq)
                and isinstance(e.left, ast.Name) and e.left.id == "result"]
        if len(defs) != 1:
            return self.call_pure_uf(fs, env)
        saved = (self.st.locals, self.bound, self.old_st)
        self.st.locals, self.bound = env, dict(self.bound)
        self.old_st = self.st
        try:
            pre = [self.ev_spec(r) for r in fs.requires]
            # a strict raises clause is part of the precondition in a pure context (no exception may escape any()/all())
            for en, when, strict in fs.raises:
                pre.append(z3.Not(self.ev_spec(when)) if when is not None else z3.BoolVal(False))
            if self.spec_pre is not None:
                self.spec_pre.extend(pre)
            r = self.ev(defs[0].comparators[0])
        finally:
            self.st.locals, self.bound, self.old_st = saved
        return self.coerce(r, fs.ret) if fs.ret is not None and isinstance(r, V) else r

    def call_pure_uf(self, fs, env):
        """pure contract without a functional definition, over heap-independent (non-reference) parameters: the result is an
        uninterpreted function of the arguments and the contract's clauses become one global axiom about that function"""
        for nme, so, _ in fs.params:
            if so is None or _mentions_ref(so):
                raise OutOfSubset(f"pure contract {fs.name}: parameter {nme} is heap-dependent; needs `ensures(result == E)`")
        key = "purefn:" + fs.name
        dom = []
        for nme, so, _ in fs.params:
            dom += [zs for _, zs in so.leaves()]
        if key not in self.eng.ufuncs:
            self.eng.ufuncs[key] = [z3.Function("fn." + fs.name + sfx, *dom, zs) for sfx, zs in fs.ret.leaves()]
            # axiom: forall params. requires => ensures[result := fn(params)]
            qenv, bound = {}, []
            for nme, so, _ in fs.params:
                v = so.const(f"qp.{fs.name}.{nme}")
                qenv[nme] = v
                bound += list(v.terms)
            qenv["result"] = V(fs.ret, tuple(f(*bound) for f in self.eng.ufuncs[key]))
            saved = (self.st.locals, self.bound, self.old_st, self.spec_pre)
            self.st.locals, self.bound, self.old_st, self.spec_pre = qenv, {}, self.st, None
            try:
                pre = [self.ev_spec(r) for r in fs.requires]
                post = [self.ev_spec(e) for e in fs.ensures]
            finally:
                self.st.locals, self.bound, self.old_st, self.spec_pre = saved
            self.eng.extra_axioms[key] = z3.ForAll(bound, z3.Implies(z3.And(*pre), z3.And(*post)))
        flat = []
        for nme, so, _ in fs.params:
            flat += list(env[nme].terms)
        saved = (self.st.locals, self.bound, self.old_st)
        self.st.locals, self.bound, self.old_st = env, dict(self.bound), self.st
        try:
            pre = [self.ev_spec(r) for r in fs.requires]
            for en, when, strict in fs.raises:
                pre.append(z3.Not(self.ev_spec(when)) if when is not None else z3.BoolVal(False))
        finally:
            self.st.locals, self.bound, self.old_st = saved
        if self.spec_pre is not None:
            self.spec_pre.extend(pre)
        return V(fs.ret, tuple(f(*flat) for f in self.eng.ufuncs[key]))

    def raise_from_call(self, fs, k, en, env, pre_st):
        exc = ExcObj(en, (), origin=f"call {fs.name}")
        if k in fs.reraise:
            # the callee raises the very exception object it was given (identity matters to callers that compare with `is`)
            exc = env[fs.reraise[k]]
        env = dict(env)
        env["raised"] = exc
        self.st.locals = env
        self.havoc_assigns(fs, pre_st)
        if fs.raise_ensures[k] is not None:
            c = fs.raise_ensures[k]
            if _is_raised_identity(c):
                # `raised is <param>`: the callee re-raises the object it was handed
                exc = env[c.comparators[0].id]
            else:
                self.st.assume(self.ev_spec(c))
        raise PyRaise(exc)

    def havoc_assigns(self, fs, pre_st):
        for a in fs.assigns:
            if isinstance(a, ast.Call) and isinstance(a.func, ast.Name) and a.func.id == "all_of":
                c, f = ast.literal_eval(a.args[0]).split(".")
                key, so = self.heap_key(c, f)
                self.st.heap[key] = tuple(
                    z3.Const(S.fresh_name(f"hv.{c}.{f}{sfx}"), zs) for sfx, zs in so.lifted(S.RefS)
                )
            elif isinstance(a, ast.Attribute):
                base = self.ev_spec_val(a.value)
                if isinstance(base.sort, S.TOpt):
                    base = base.sort.payload(base)
                key, so = self.heap_key(base.sort.cls, a.attr)
                nv = so.fresh(f"hv.{a.attr}")
                if isinstance(so, S.TList):
                    self.st.assume(nv.terms[0] >= 0)
                self.st.heap[key] = so.store(self.heap_arrays(self.st, key, so), base.t, nv)
            else:
                raise OutOfSubset(f"assigns target {ast.unparse(a)}")

    def call_inline(self, q, args, kwargs, node, recv_new=None):
        if q in self.frames or len(self.frames) > 6:
            raise OutOfSubset(f"recursive inline {q}")
        fnode, seg, _ = locate(self.eng.repo, self.m.inlines[q], q)
        if fnode is None:
            raise OutOfSubset(f"inline function {q} not found")
        self.eng.functions_info.setdefault(
            q,
            {
                "file": self.m.inlines[q],
                "qualname": q,
                "sha256": hashlib.sha256(seg.encode()).hexdigest(),
                "lines": seg.count("\n") + 1,
                "inlined": True,
            },
        )
        a = fnode.args
        if a.vararg or a.kwarg:
            raise OutOfSubset(f"inline {q}: *args/**kwargs")
        pos = a.posonlyargs + a.args
        defaults = [None] * (len(pos) - len(a.defaults)) + list(a.defaults)
        params = [(p.arg, None, d) for p, d in zip(pos, defaults)]
        params += [(p.arg, None, d) for p, d in zip(a.kwonlyargs, a.kw_defaults)]
        saved_locals = self.st.locals
        env = {}
        names = [p[0] for p in params]
        for nme, v in zip(names, args):
            env[nme] = v
        for k, v in kwargs.items():
            if k not in names:
                raise OutOfSubset(f"unknown kwarg {k} for {q}")
            env[k] = v
        for nme, _, d in params:
            if nme not in env:
                if d is None:
                    raise OutOfSubset(f"missing arg {nme} for {q}")
                self.st.locals = {}
                env[nme] = self.ev(d)
        saved_loopnum, saved_curfs, saved_bound = self.loopnum, self.cur_fs, self.bound
        self.st.locals = env
        self.bound = {}
        self.loopnum = number_loops(fnode)
        self.cur_fs = self.m.contracts.get(q + "#loops")  # optional loop annotations for inlined code
        self.frames.append(q)
        try:
            self.exec_block(fnode.body)
            res = NONE
        except ReturnSig as r:
            res = r.value
        finally:
            self.frames.pop()
            self.st.locals, self.loopnum, self.cur_fs, self.bound = saved_locals, saved_loopnum, saved_curfs, saved_bound
        return res

    def construct(self, clsname, args, kwargs, node):
        q, kind = self.m.find_method(clsname, "__init__")
        ref = self.new_ref(clsname)
        if q is None and self.m.classes[clsname].record and not args:
            # Rec(k=v, ...) in ghost code: the dict literal {"k": v, ...} of that record class (absent optional keys stay absent)
            from .builtins import wrap_present

            for f, so in self.m.classes[clsname].fields.items():
                if f in kwargs:
                    self.set_field(ref, f, wrap_present(self, kwargs[f], so))
                elif isinstance(so, S.TOpt):
                    self.set_field(ref, f, so.none())
                else:
                    raise OutOfSubset(f"record {clsname} built without mandatory key {f}")
            if set(kwargs) - set(self.m.classes[clsname].fields):
                raise OutOfSubset(f"record {clsname} has no key {sorted(set(kwargs) - set(self.m.classes[clsname].fields))}")
            return ref
        if q is None:
            # no constructor under contract: fields start unconstrained but the object is fresh
            if args or kwargs:
                raise OutOfSubset(f"constructor of {clsname} not declared (inline or contract)")
            return ref
        if kind == "contract":
            self.call_contract(self.m.contracts[q], [ref] + args, kwargs, node)
        else:
            self.call_inline(q, [ref] + args, kwargs, node)
        return ref


def _load(t):
    t2 = ast.parse(ast.unparse(t), mode="eval").body
    return t2


def _dotted(n):
    parts = []
    while isinstance(n, ast.Attribute):
        parts.append(n.attr)
        n = n.value
    if isinstance(n, ast.Name):
        parts.append(n.id)
        return ".".join(reversed(parts))
    return None


def _pure_expr(n):
    """syntactically free of calls/walrus/await (safe to evaluate eagerly)"""
    for x in ast.walk(n):
        if isinstance(x, (ast.NamedExpr, ast.Await, ast.Yield, ast.YieldFrom)):
            return False
        if isinstance(x, ast.Call):
            f = x.func
            nm = f.id if isinstance(f, ast.Name) else (f.attr if isinstance(f, ast.Attribute) else None)
            if nm not in ("len", "isinstance"):
                return False
        if isinstance(x, (ast.Subscript, ast.Attribute)):
            return False
    return True


def _is_raised_identity(c):
    return (isinstance(c, ast.Compare) and isinstance(c.left, ast.Name) and c.left.id == "raised" and len(c.ops) == 1
            and isinstance(c.ops[0], ast.Is) and isinstance(c.comparators[0], ast.Name))


def _never_returns(fs):
    return any(isinstance(e, ast.Constant) and e.value is False for e in fs.ensures)


def _vacuous_copy(fs):
    """the decorator a decorator-unit speaks about is absent: its clauses hold vacuously (same obligation ids, goal True)"""
    import copy

    c = copy.copy(fs)
    c.ensures = [ast.parse("True", mode="eval").body for _ in fs.ensures]
    return c


def _mentions_internal_calls(e):
    return any(isinstance(x, ast.Call) and isinstance(x.func, ast.Name) and x.func.id in ("result_of", "ghost_of") for x in ast.walk(e))


def _mentions_fresh(fs):
    for e in list(fs.ensures) + [x for x in fs.raise_ensures if x is not None]:
        for n in ast.walk(e):
            if isinstance(n, ast.Call) and isinstance(n.func, ast.Name) and n.func.id in ("fresh", "allocated"):
                return True
    return False


def _only_unfolds(h):
    """forall(dom.., lambda..: <conj of unfold(...)>) or unfold(...) — nothing else"""
    if isinstance(h, ast.Call) and isinstance(h.func, ast.Name):
        if h.func.id == "unfold":
            return True
        if h.func.id == "forall" and isinstance(h.args[-1], ast.Lambda):
            return _only_unfolds(h.args[-1].body)
    if isinstance(h, ast.BoolOp) and isinstance(h.op, ast.And):
        return all(_only_unfolds(v) for v in h.values)
    return False


def _mentions_ref(so):
    if isinstance(so, S.TRef):
        return True
    for attr in ("inner", "elem", "val", "key"):
        x = getattr(so, attr, None)
        if isinstance(x, S.Sort) and _mentions_ref(x):
            return True
    if isinstance(so, S.TTuple):
        return any(_mentions_ref(e) for e in so.elems)
    return False


def _has_quant(f):
    seen = set()
    todo = [f]
    while todo:
        x = todo.pop()
        if x.get_id() in seen:
            continue
        seen.add(x.get_id())
        if z3.is_quantifier(x):
            return True
        todo.extend(x.children())
    return False
