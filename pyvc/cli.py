"""vcheck <Cxx> [--tier quick|thorough] [--replay file]

exit 0  every obligation discharged (known findings printed as KNOWN-FINDING lines)
exit 1  an obligation is refuted  ->  `VIOLATION property=<id> replay=<path>[ no-failing-input-found]`
exit 2  undecided (solver unknown / timeout, function not found, construct outside the subset)
exit 3  checker failure (zero obligations, vacuous contract, baseline obligation missing, traceback)
"""
from __future__ import annotations

import argparse
import glob
import json
import os
import re
import subprocess
import sys
import time
import traceback

HERE = os.path.dirname(os.path.dirname(os.path.abspath(__file__)))
sys.path.insert(0, HERE)

from pyvc.props import PROPS  # noqa: E402
from pyvc.run import verify_module  # noqa: E402

# the interpreter that has the repository's dependencies; overridable for environments where /venv is unusable
VENV_PY = os.environ.get("VERIF_NATIVE_PY", "/venv/bin/python")
if not os.path.exists(os.path.realpath(VENV_PY)):
    # /venv/bin/python cannot run here (its 3.12 interpreter is missing): use the fallback runtime shipped in
    # /verif/devshim (python3.11 + a pure-Python cachebox).  The evidence records which interpreter was used.
    VENV_PY = os.path.join(HERE, "tools", "native_py.sh")


_INTERNAL = re.compile(r"/(inv_init|inv_step|loopframe_init|loopframe_step|hint#|assert#|decreases#|pre@(fold_|lemma_|law_)[^/]*)")


def is_proof_internal(v):
    """obligations that belong to the proof (invariants, hints, ghost assertions, lemma preconditions) rather than to a contract clause"""
    return bool(_INTERNAL.search(v["oid"])) or v.get("unit_kind") == "lemma"


def sanitize(s):
    return re.sub(r"[^A-Za-z0-9_.#@-]+", "_", s)


def aggregate(results):
    """per obligation id -> status over all paths"""
    agg = {}
    for r in results:
        a = agg.setdefault(
            r["oid"],
            {"oid": r["oid"], "unit": r["unit"], "unit_kind": r["unit_kind"], "kind": r["kind"], "expect": r["expect"],
             "instances": 0, "results": [], "time": 0.0, "backends": set(), "witness": None, "info": r["info"], "known": r["info"].get("known")},
        )
        a["instances"] += 1
        a["results"].append(r["result"])
        a["time"] += r["time"]
        a["backends"].add(r["backend"])
        if r["expect"] == "unsat" and r["result"] == "sat" and a["witness"] is None:
            a["witness"] = r
    for a in agg.values():
        rs = a["results"]
        if a["expect"] == "unsat":
            a["status"] = "refuted" if "sat" in rs else ("proved" if all(x == "unsat" for x in rs) else "undecided")
        else:
            a["status"] = "live" if any(x != "unsat" for x in rs) else "dead"
    return agg


_replay_cache = {}


_unit_owner = {}  # unit -> property whose harness knows how to replay it (dependencies)


def run_replay(pid, rp, repo, seed):
    """native replay, once per verification unit and run (the drivers search per unit, not per clause)"""
    try:
        unit = json.load(open(rp)).get("unit")
    except Exception:
        unit = None
    pid = _unit_owner.get(unit, pid)
    if unit is not None and unit in _replay_cache:
        h = dict(_replay_cache[unit])
        h["cached_from_unit"] = unit
        return h
    h = run_harness(pid, "replay", rp, repo, seed)
    if unit is not None and h is not None:
        _replay_cache[unit] = h
    return h


def run_harness(pid, mode, arg, repo, seed, timeout=600):
    os.environ["VERIF_PROPERTY"] = pid
    pid = PROPS.get(pid, {}).get("contract_module", pid) if isinstance(PROPS.get(pid), dict) else pid
    h = os.path.join(HERE, "harness", f"{pid}.py")
    if not os.path.exists(h):
        return None
    if not os.path.exists(os.path.realpath(VENV_PY)):
        return {"rc": 127, "out": "", "err": f"{VENV_PY} is not runnable here: native replay / cross-check skipped"}
    env_extra_path = ""
    env = dict(os.environ)
    env["VERIF_REPO"] = repo
    env["PYTHONPATH"] = repo + os.pathsep + HERE
    env["VERIF_SEED"] = str(seed)
    env.pop("PYTHONSAFEPATH", None)
    try:
        p = subprocess.run([VENV_PY, h, mode, str(arg)], capture_output=True, text=True, timeout=timeout, env=env, cwd=repo)
    except subprocess.TimeoutExpired:
        return {"rc": 124, "out": "", "err": "timeout"}
    return {"rc": p.returncode, "out": p.stdout[-6000:], "err": p.stderr[-4000:]}


def main():
    ap = argparse.ArgumentParser()
    ap.add_argument("prop")
    ap.add_argument("--tier", default=os.environ.get("VERIF_TIER", "quick"))
    ap.add_argument("--replay")
    ap.add_argument("--verbose", action="store_true")
    ap.add_argument("--update-baseline", action="store_true")
    a = ap.parse_args()
    pid = a.prop
    repo = os.environ.get("VERIF_REPO", "/repo")
    seed = int(os.environ.get("VERIF_SEED", "0") or 0)
    tier = a.tier if a.tier in ("quick", "thorough") else "quick"
    if a.replay:
        r = run_harness(pid, "replay", os.path.abspath(a.replay), repo, seed)
        if r is None:
            print(f"no replay harness for {pid}")
            return 3
        sys.stdout.write(r["out"])
        sys.stderr.write(r["err"])
        return r["rc"]
    meta = PROPS[pid]
    t0 = time.time()
    # several properties may be decided by one contract module (e.g. the scheduler fragment serves C10, C11, C12)
    owner = meta.get("contract_module", pid)
    mods = sorted(glob.glob(os.path.join(HERE, "contracts", f"{owner}.py")) + glob.glob(os.path.join(HERE, "contracts", f"{owner}_*.py")))
    if not mods:
        print(f"CHECKER-ERROR property={pid} no contract module")
        return 3
    timeout_ms = 20000 if tier == "quick" else 120000
    reports = []
    for mp in mods:
        reports.append(verify_module(mp, repo, timeout_ms=timeout_ms, verbose=a.verbose))
    # contracts this property's proofs ASSUME and that are proved under another property: re-proved here, so that a change
    # breaking them is reported for this property too
    for dep in meta.get("depends", []):
        dep_pid, units = dep[0], dep[1]
        rep = verify_module(os.path.join(HERE, "contracts", f"{dep_pid}.py"), repo, timeout_ms=timeout_ms, only=set(units), verbose=a.verbose)
        rep["dependency_of"] = dep_pid
        rep["only_tagged"] = len(dep) > 2 and dep[2] == "only_tagged"
        reports.append(rep)
    for rep in reports:
        if rep.get("dependency_of"):
            for u in rep["units"] + rep["undecided"]:
                _unit_owner[u["unit"]] = rep["dependency_of"]
    # clauses written for another property (ensures_for) are not part of this one's claim; in a unit re-proved as a dependency
    # with "only_tagged", only the clauses tagged for THIS property (and the proof-internal obligations behind them) count
    for rep in reports:
        dep_tagged = rep.get("only_tagged")
        keep = []
        for r in rep["results"]:
            fp = r["info"].get("for_property")
            if fp is not None and fp != pid:
                continue
            if dep_tagged and fp is None and re.search(r"/(post#|raises#|exc:|frame:)", r["oid"]):
                continue
            keep.append(r)
        rep["results"] = keep
    results = [r for rep in reports for r in rep["results"]]
    if meta.get("ignore_known_clauses"):
        # clauses recorded as findings of ANOTHER property served by the same contract module are not part of this one's claim
        results = [r for r in results if not r["info"].get("known")]
    undec_units = [u for rep in reports for u in rep["undecided"]]
    agg = aggregate(results)
    proof_obls = {k: v for k, v in agg.items() if v["expect"] == "unsat"}
    live_obls = {k: v for k, v in agg.items() if v["expect"] == "sat"}

    known = json.load(open(os.path.join(HERE, "known_findings.json")))
    known_ids = {(pid if k["property"] == owner else k["property"], k["obligation"]) for k in known.get("findings", [])}
    for k in known.get("findings", []):
        if k["property"] == owner:
            k["property"] = pid
    baseline_path = os.path.join(HERE, "baseline", "obligations.json")
    baseline = json.load(open(baseline_path)) if os.path.exists(baseline_path) else {}
    unit_sha = {u: f.get("sha256") for rep in reports for u, f in rep["functions"].items()}
    loops = {}
    for rep in reports:
        for u, d in (rep.get("loops") or {}).items():
            loops.setdefault(u, {}).update({str(k): bool(v) for k, v in d.items()})
    if a.update_baseline:
        baseline[pid] = sorted(k for k, v in proof_obls.items() if re.search(r"/(post#|inv_|pre@|frame|assert#|decreases|raises#)", k))
        baseline.setdefault("_sha256", {})[pid] = unit_sha
        baseline.setdefault("_loops", {})[pid] = loops
        json.dump(baseline, open(baseline_path, "w"), indent=1, sort_keys=True)
    base_sha = baseline.get("_sha256", {}).get(pid, {})
    base_loops = baseline.get("_loops", {}).get(pid, {})
    # units whose SOURCE differs from the tree the baseline was taken on
    changed_units = {u for u, h in unit_sha.items() if u in base_sha and base_sha[u] != h}
    # ... and whose proof STRUCTURE no longer matches the contract: its loops (number, and which of them the contract has an invariant
    # for — invariants are attached by loop ordinal) differ from the baseline's, or (below) baseline obligations are no longer
    # generated.  Refutations of such a unit are counter-models of a loop-cut abstraction that no longer fits, not of the code: they
    # count only if they replay natively.  A changed unit with the same loop profile is judged as before.
    restructured = {u for u in changed_units if loops.get(u, {}) != base_loops.get(u, {})}

    exit_code = 0
    lines = []
    violations = 0
    checker_errors = []
    # --- checker sanity -------------------------------------------------------------------------
    if not proof_obls:
        checker_errors.append("zero proof obligations generated")
    located = {f for rep in reports for f in rep["functions"]}
    undec_names = {u["unit"] for u in undec_units}
    restructured_missing = []
    for oid in baseline.get(pid, []):
        unit = oid.split("/")[0]
        if oid not in agg and unit not in undec_names and (unit in located or unit in {x["unit"] for rep in reports for x in rep["units"]}):
            if not re.search(r"/pre@", oid):
                if unit in changed_units:
                    restructured.add(unit)  # the code of the unit changed and so did the shape of its proof: undecided, not a checker error
                    restructured_missing.append(oid)
                else:
                    checker_errors.append(f"baseline obligation {oid} was not generated")
    units_with_canary = {}
    for k, v in live_obls.items():
        if v["kind"] == "canary":
            units_with_canary.setdefault(v["unit"], []).append(v["status"])
        if v["kind"].startswith("cover#") and v["status"] == "dead":
            checker_errors.append(f"loop body unreachable under the invariant: {k} (vacuous invariant?)")
    for rep in reports:
        for u in rep["units"]:
            if u["kind"] == "contract" and u["unit"] not in undec_names:
                sts = units_with_canary.get(u["unit"], [])
                if sts and all(s == "dead" for s in sts):
                    checker_errors.append(f"{u['unit']}: no reachable normal exit (contradictory preconditions/axioms)")
    for rep in reports:
        for dc in rep.get("dead_calls", []):
            checker_errors.append("vacuity: " + dc)
    for k, v in proof_obls.items():
        if v["kind"] == "vacuity":
            checker_errors.append(f"{k}: preconditions unsatisfiable")
    # --- verdicts ----------------------------------------------------------------------------
    os.makedirs(os.path.join(HERE, "replay", pid), exist_ok=True)
    refuted = [v for v in proof_obls.values() if v["status"] == "refuted" and v["kind"] != "vacuity"]
    undecided = [v for v in proof_obls.values() if v["status"] == "undecided"]
    known_printed = []
    internal_broken = []
    # contract-level refutations of a unit whose own invariants broke are only trusted when they replay natively
    broken_units = {v["unit"] for v in refuted if is_proof_internal(v)} | restructured
    for u in sorted(restructured):
        lines.append(f"UNDECIDED property={pid} obligation={u}/* reason=the code of {u} changed and its loops no longer match the contract's invariants "
                     f"({len([o for o in restructured_missing if o.startswith(u + '/')])} baseline obligations not generated); its obligations count only if they replay natively")
    refuted.sort(key=lambda v: (not is_proof_internal(v), v["oid"]))
    for v in refuted:
        w = v["witness"]
        rp = os.path.join(HERE, "replay", pid, sanitize(v["oid"]) + ".json")
        fn = None
        for rep in reports:
            fn = rep["functions"].get(v["unit"]) or fn
        payload = {
            "property": pid, "obligation": v["oid"], "unit": v["unit"], "function": fn, "kind": v["kind"], "clause": v["info"].get("clause"),
            "info": {k2: str(x) for k2, x in v["info"].items()}, "backend": w["backend"], "solver_time_s": w["time"], "path": w["path"],
            "model": w["model"], "repo": repo, "native": None,
        }
        json.dump(payload, open(rp, "w"), indent=1, default=str)
        h = run_replay(pid, rp, repo, seed)
        reproduced = _reproduced(h)
        if _replay_crashed(h):
            checker_errors.append(f"native replay driver crashed (rc={h['rc']}) on {v['oid']}: {h['err'][-300:]}")
        payload["native"] = h
        json.dump(payload, open(rp, "w"), indent=1, default=str)
        kf = v.get("known")
        if kf and (pid, kf) in known_ids:
            what = next(k["what"] for k in known["findings"] if k["property"] == pid and k["obligation"] == kf)
            lines.append(f"KNOWN-FINDING: property={pid} {kf}: {what}")
            known_printed.append(kf)
            continue
        if not reproduced and is_proof_internal(v):
            # a loop invariant / hint / ghost assertion no longer holds and no failing input exists natively: the PROOF broke
            # (e.g. the loop was restructured); the property itself is undecided, not violated
            internal_broken.append(v)
            lines.append(f"UNDECIDED property={pid} obligation={v['oid']} reason=proof-internal obligation refuted (invariant/hint no longer matches the code); no failing input found natively")
            continue
        if not reproduced and v["unit"] in broken_units:
            internal_broken.append(v)
            lines.append(f"UNDECIDED property={pid} obligation={v['oid']} reason=refuted, but the invariants of {v['unit']} no longer hold so the counter-model is not trusted; no failing input found natively")
            continue
        violations += 1
        lines.append(f"VIOLATION property={pid} replay={rp}" + ("" if reproduced else " no-failing-input-found"))
        lines.append(f"  obligation {v['oid']} refuted ({w['backend']}, {w['time']:.2f}s): {v['info'].get('clause', '')}")
    still_undecided = []
    for v in undecided:
        # the solver neither proved nor refuted the obligation.  That alone is never a violation; but if the native
        # driver finds an input on which the REAL code breaks the clause, the violation is demonstrated, not inferred.
        rp = os.path.join(HERE, "replay", pid, sanitize(v["oid"]) + ".json")
        fn = None
        for rep in reports:
            fn = rep["functions"].get(v["unit"]) or fn
        payload = {
            "property": pid, "obligation": v["oid"], "unit": v["unit"], "function": fn, "kind": v["kind"], "clause": v["info"].get("clause"),
            "info": {k2: str(x) for k2, x in v["info"].items()}, "backend": "z3+cvc5", "solver": "unknown (no proof, no model)",
            "model": None, "repo": repo, "native": None, "in_baseline": v["oid"] in baseline.get(pid, []),
        }
        json.dump(payload, open(rp, "w"), indent=1, default=str)
        h = run_replay(pid, rp, repo, seed)
        if _replay_crashed(h):
            checker_errors.append(f"native replay driver crashed (rc={h['rc']}) on {v['oid']}: {h['err'][-300:]}")
        if _reproduced(h):
            payload = json.load(open(rp))
            payload["native"] = h
            json.dump(payload, open(rp, "w"), indent=1, default=str)
            kf = v.get("known")
            if kf and (pid, kf) in known_ids:
                what = next(k["what"] for k in known["findings"] if k["property"] == pid and k["obligation"] == kf)
                lines.append(f"KNOWN-FINDING: property={pid} {kf}: {what}")
                known_printed.append(kf)
                continue
            violations += 1
            lines.append(f"VIOLATION property={pid} replay={rp}")
            lines.append(f"  obligation {v['oid']} no longer provable and the native driver found a failing input on the real code: {v['info'].get('clause', '')}")
        else:
            still_undecided.append(v)
            lines.append(f"UNDECIDED property={pid} obligation={v['oid']} reason=solver:{','.join(sorted(set(v['results'])))}")
    undecided = still_undecided
    still_units = []
    for u in undec_units:
        # the function left the verifier's subset (or was not found): no proof either way.  The native driver may still
        # demonstrate a violation of the unit's contract on the real code; only then is it reported as one.
        rp = os.path.join(HERE, "replay", pid, sanitize(u["unit"]) + "_undecided.json")
        payload = {"property": pid, "obligation": u["unit"] + "/*", "unit": u["unit"], "kind": "undecided-unit", "solver": "no VC generated: " + u["reason"],
                   "model": None, "repo": repo, "native": None}
        json.dump(payload, open(rp, "w"), indent=1, default=str)
        h = run_replay(pid, rp, repo, seed)
        if _replay_crashed(h):
            checker_errors.append(f"native replay driver crashed (rc={h['rc']}) on {u['unit']}: {h['err'][-300:]}")
        if _reproduced(h):
            payload = json.load(open(rp))
            payload["native"] = h
            json.dump(payload, open(rp, "w"), indent=1, default=str)
            violations += 1
            lines.append(f"VIOLATION property={pid} replay={rp}")
            lines.append(f"  {u['unit']} is outside the verifier's subset ({u['reason']}); the native driver found an input on which the real code breaks its contract")
        else:
            still_units.append(u)
            lines.append(f"UNDECIDED property={pid} obligation={u['unit']}/* reason={u['reason']}")
    undec_units = still_units
    # --- bounded stand-ins and run-time cross-check (never counted as proved) ------------------------
    bounded = None
    cross = None
    if meta.get("harness_modes"):
        if "bounded" in meta["harness_modes"]:
            h = run_harness(pid, "bounded", tier, repo, seed, timeout=900 if tier == "quick" else 3600)
            bounded = _parse_json_tail(h)
            if h and h["rc"] == 1:
                rp = os.path.join(HERE, "replay", pid, "bounded.json")
                json.dump({"property": pid, "obligation": "bounded-stand-in", "harness": h, "result": bounded}, open(rp, "w"), indent=1)
                kfs = (bounded or {}).get("known_findings", [])
                new = (bounded or {}).get("violations", [])
                if new:
                    violations += 1
                    lines.append(f"VIOLATION property={pid} replay={rp}")
                    for x in new[:5]:
                        lines.append(f"  bounded stand-in: {x}")
            elif h and h["rc"] == 127:
                lines.append(f"NOTE property={pid} bounded stand-in skipped: {h['err']}")
                bounded = {"skipped": h["err"]}
            elif h and (h["rc"] not in (0, 1) or not isinstance(bounded, dict)):
                checker_errors.append(f"bounded stand-in crashed rc={h['rc']}: {h['err'][-300:]}")
            for kf in (bounded or {}).get("known_findings", []):
                if (pid, kf) in known_ids:
                    what = next(k["what"] for k in known["findings"] if k["property"] == pid and k["obligation"] == kf)
                    lines.append(f"KNOWN-FINDING: property={pid} {kf}: {what}")
                    known_printed.append(kf)
        if "crosscheck" in meta["harness_modes"]:
            n = 50 if tier == "quick" else 2000
            h = run_harness(pid, "crosscheck", n, repo, seed, timeout=900 if tier == "quick" else 3000)
            cross = _parse_json_tail(h)
            for kf in (cross or {}).get("known_findings", []) if isinstance(cross, dict) else []:
                if (pid, kf) in known_ids and kf not in known_printed:
                    what = next(k["what"] for k in known["findings"] if k["property"] == pid and k["obligation"] == kf)
                    lines.append(f"KNOWN-FINDING: property={pid} {kf}: {what}")
                    known_printed.append(kf)
                elif (pid, kf) not in known_ids:
                    violations += 1
                    lines.append(f"VIOLATION property={pid} replay=" + os.path.join(HERE, "replay", pid, "runtime_contract_check.json"))
                    lines.append(f"  run-time check reported finding {kf}, which known_findings.json does not list")
                    json.dump({"property": pid, "obligation": kf, "harness": h, "result": cross}, open(os.path.join(HERE, "replay", pid, "runtime_contract_check.json"), "w"), indent=1)
            if h and h["rc"] == 1 and not (isinstance(cross, dict) and (cross.get("native_contract_failures") or cross.get("samples"))):
                # exit 1 without a reported failing input: an uncaught exception in the driver, not a verdict
                checker_errors.append(f"cross-check driver crashed (rc=1, no failing input reported): {h['err'][-400:]}")
            elif h and h["rc"] == 1:
                # the run-time evaluation of the contracts on the real code found a failing input (bounded, native)
                rp = os.path.join(HERE, "replay", pid, "runtime_contract_check.json")
                json.dump({"property": pid, "obligation": "run-time contract evaluation on the real code", "harness": h, "result": cross}, open(rp, "w"), indent=1)
                violations += 1
                lines.append(f"VIOLATION property={pid} replay={rp}")
            elif h and h["rc"] == 3:
                checker_errors.append(f"cross-check: trusted axiom or encoder summary disagrees with CPython: {h['out'][-500:]}")
            elif h and h["rc"] == 127:
                lines.append(f"NOTE property={pid} native cross-check skipped: {h['err']}")
                cross = {"skipped": h["err"]}
            elif h and h["rc"] not in (0,):
                checker_errors.append(f"cross-check crashed rc={h['rc']}: {h['err'][-300:]}")

    if violations:
        exit_code = 1
    elif internal_broken or restructured:
        exit_code = 2
    elif checker_errors:
        exit_code = 3
    elif undecided or undec_units:
        exit_code = 2
    for e in checker_errors:
        lines.append(f"CHECKER-ERROR property={pid} {e}")

    # --- evidence ------------------------------------------------------------------------------
    discharged = sum(1 for v in proof_obls.values() if v["status"] == "proved")
    trusted = sorted({t for rep in reports for t in rep["trusted"]} | set(meta.get("assumptions", [])))
    functions = {}
    for rep in reports:
        for k, f in rep["functions"].items():
            f = dict(f)
            f["dropped_logger_lines"] = rep["dropped"].get(k, [])
            # source-level readings the generator applied to this unit (each is part of the trusted encoding, stated here)
            f["idiom_rewrites"] = (rep.get("idioms") or {}).get(k, [])
            functions[k] = f
    samples = []
    for v in list(proof_obls.values())[:6]:
        samples.append({"obligation": v["oid"], "clause": v["info"].get("clause"), "paths": v["instances"], "status": v["status"], "backend": sorted(v["backends"])})
    backends = {}
    for r in results:
        if r["expect"] == "unsat":
            backends[r["backend"]] = backends.get(r["backend"], 0) + 1
    solver_times = [r["time"] for r in results]
    coverage = {
        "obligations": len(proof_obls),
        "discharged": discharged,
        "obligation_instances_over_paths": sum(v["instances"] for v in proof_obls.values()),
        "refuted": len(refuted),
        "undecided": len(undecided) + len(undec_units),
        "known_findings_reproduced": known_printed,
        "checker_cmd": f"./vcheck {pid} --tier {tier}",
        "trusted_base": trusted,
        "functions_under_contract": functions,
        "units": [u for rep in reports for u in rep["units"]],
        "backends": backends,
        "solver_time_s": {"sum": round(sum(solver_times), 3), "max": round(max(solver_times), 3) if solver_times else 0},
        "slow_obligations": sorted({r["oid"] for r in results if r["time"] > 10}),
        "reachability_checks": {"live": sum(1 for v in live_obls.values() if v["status"] == "live"), "dead": sum(1 for v in live_obls.values() if v["status"] == "dead")},
        "paths_explored": sum(rep["stats"]["paths"] for rep in reports),
        "samples": samples,
        "bounded": bounded if bounded is not None else [],
        "bounded_note": "bounded stand-ins are listed separately and are never counted in obligations/discharged",
        "crosscheck": cross,
        "explanation": meta["explanation"],
        "generator": "pyvc: VCs generated from /repo's current ast on this run; contracts in /verif/contracts (parsed, not imported)",
        "repo": repo,
        "native_python": VENV_PY,
    }
    level = meta["category"]
    if level == "proof" and (discharged != len(proof_obls) or not proof_obls):
        # an incomplete run must not claim proof-level evidence
        coverage["note"] = "not all obligations discharged on this run"
    ev = {
        "property_id": pid, "tier": tier, "seed": seed, "level": level, "coverage": coverage,
        "assumptions": trusted + PROPS["_common_assumptions"],
        "wall_s": round(time.time() - t0, 2), "violations": violations, "exit_code": exit_code,
    }
    os.makedirs(os.path.join(HERE, "evidence"), exist_ok=True)
    json.dump(ev, open(os.path.join(HERE, "evidence", f"{pid}.json"), "w"), indent=1, default=str)
    for l in lines:
        print(l)
    print(f"{pid}: {discharged}/{len(proof_obls)} obligations discharged, {len(refuted)} refuted, {len(undecided) + len(undec_units)} undecided, "
          f"{len(functions)} functions, {time.time() - t0:.1f}s, exit {exit_code}")
    return exit_code


def _reproduced(h):
    """a replay run that REPORTS a failing input (exit 1 and the verdict line); exit 1 from an uncaught exception is a driver crash"""
    return bool(h and h["rc"] == 1 and "REPLAY-VERDICT: reproduced" in (h.get("out") or ""))


def _replay_crashed(h):
    return bool(h and ((h["rc"] == 1 and not _reproduced(h)) or h["rc"] not in (0, 1, 2, 124, 127)))


def _parse_json_tail(h):
    if not h or not h.get("out"):
        return None
    for line in reversed(h["out"].strip().splitlines()):
        line = line.strip()
        if line.startswith("{") or line.startswith("["):
            try:
                return json.loads(line)
            except Exception:
                continue
    return None


if __name__ == "__main__":
    try:
        sys.exit(main())
    except SystemExit:
        raise
    except Exception:
        traceback.print_exc()
        print("CHECKER-ERROR traceback")
        sys.exit(3)
