"""Discharge proof obligations with z3 (Python API) and /usr/bin/cvc5 as second opinion, 16-way pool."""
from __future__ import annotations

import os
import subprocess
import tempfile
import time
from concurrent.futures import ProcessPoolExecutor

import z3

CVC5 = "/usr/bin/cvc5"


def safe_check(s, timeout_ms):
    """solver.check() with a hard deadline: z3 occasionally ignores its own timeout (preprocessing of large quantified
    formulas); a timer thread interrupts the context shortly after the budget.  Returns z3.sat / z3.unsat / z3.unknown."""
    import threading

    s.set("timeout", int(timeout_ms))
    t = threading.Timer(timeout_ms / 1000.0 + 2.0, s.ctx.interrupt)
    t.daemon = True
    t.start()
    try:
        return s.check()
    except z3.Z3Exception:
        return z3.unknown
    finally:
        t.cancel()


def to_smt2(axioms, pc, goal, simplify=True):
    s = z3.Solver()
    # simplify beta-reduces select-of-lambda, which keeps the text inside what cvc5 parses
    f_ = z3.simplify if simplify else (lambda x: x)
    for a in axioms:
        s.add(f_(a))
    for f in pc:
        s.add(f_(f))
    s.add(f_(z3.Not(goal)))
    return s.to_smt2()


def _model_dict(m):
    out = {}
    for d in m.decls():
        try:
            if d.arity() == 0:
                out[d.name()] = str(m[d])
            else:
                out[d.name()] = str(m[d])[:2000]
        except Exception as e:  # pragma: no cover
            out[d.name()] = f"<{e}>"
    return out


def _symbols(f, cache):
    """names of the uninterpreted constants/functions occurring in f"""
    out = set()
    todo = [f]
    seen = set()
    while todo:
        x = todo.pop()
        i = x.get_id()
        if i in seen:
            continue
        seen.add(i)
        if z3.is_quantifier(x):
            todo.append(x.body())
            continue
        if z3.is_app(x):
            d = x.decl()
            if d.kind() == z3.Z3_OP_UNINTERPRETED:
                out.add(d.name())
            todo.extend(x.children())
    return out


_COMMON = ("in.self", "dyntype", "alloc")


def _has_q(f):
    todo = [f]
    seen = set()
    while todo:
        x = todo.pop()
        if x.get_id() in seen:
            continue
        seen.add(x.get_id())
        if z3.is_quantifier(x):
            return True
        todo.extend(x.children())
    return False


def _relevant(assertions, hops):
    """all quantifier-free assertions + the quantified ones within `hops` symbol-sharing steps of the (negated) goal"""
    if len(assertions) < 4:
        return None
    goal = assertions[-1]
    syms = [_symbols(a, None) for a in assertions]
    core = {x for x in syms[-1] if not x.startswith(_COMMON)}
    keep = set([len(assertions) - 1])
    for _ in range(hops):
        new = set()
        for i, a in enumerate(assertions[:-1]):
            if i in keep:
                continue
            if _has_q(a) and (syms[i] & core):
                keep.add(i)
                new |= {x for x in syms[i] if not x.startswith(_COMMON)}
        if _ == 0:
            first = set(new)
        core |= new if _ < hops - 1 else set()
    out = [a for i, a in enumerate(assertions) if i in keep or not _has_q(a)]
    if len(out) == len(assertions):
        return None
    return out


def _solve(task):
    oid, idx, smt2, timeout_ms, want_model, use_cvc5 = task[:6]
    seed, vname = (task[6], task[7]) if len(task) > 6 else (0, "")
    t0 = time.time()
    res, model, backend, detail = "unknown", None, "z3" + (f"[{vname}]" if vname else ""), ""
    try:
        ctx = z3.Context()
        s = z3.Solver(ctx=ctx)
        s.from_string(smt2)
        if seed:
            s.set("random_seed", seed)
        r = safe_check(s, timeout_ms)
        res = str(r)
        if r == z3.sat and want_model:
            model = _model_dict(s.model())
        if r == z3.unknown:
            detail = s.reason_unknown()
            # relevance portfolio: dropping hypotheses is sound for `unsat`; with fewer quantified facts the
            # instantiation search often terminates at once.  A `sat` answer of a weakened query proves nothing.
            for hops in (1, 2):
                sub = _relevant(list(s.assertions()), hops)
                if sub is None:
                    break
                s2 = z3.Solver(ctx=ctx)
                for f in sub:
                    s2.add(f)
                if seed:
                    s2.set("random_seed", seed)
                if safe_check(s2, max(2000, timeout_ms // 3)) == z3.unsat:
                    res, backend, detail = "unsat", f"z3(relevance-{hops})" + (f"[{vname}]" if vname else ""), ""
                    break
    except Exception as e:
        res, detail = "unknown", f"z3 error: {e}"
    if res == "unknown" and use_cvc5:
        try:
            with tempfile.NamedTemporaryFile("w", suffix=".smt2", delete=False) as f:
                f.write("(set-logic ALL)\n" + smt2)
                fn = f.name
            p = subprocess.run(
                [CVC5, "--tlimit", str(timeout_ms), "--strings-exp", fn], capture_output=True, text=True, timeout=timeout_ms / 1000 + 5
            )
            os.unlink(fn)
            out = p.stdout.strip().splitlines()
            if out and out[0] in ("unsat", "sat"):
                # a cvc5 `sat` carries no model here: report it but let the caller treat it as refuted-without-model
                res, backend = out[0], "cvc5"
            else:
                detail += " | cvc5: " + (p.stdout + p.stderr)[:200]
        except Exception as e:
            detail += f" | cvc5 error: {e}"
    return oid, idx, res, model, backend, time.time() - t0, detail


def discharge(obls, axioms, timeout_ms=20000, workers=16, use_cvc5=True):
    """-> list of dict per obligation instance (one per path)"""
    tasks = []
    for i, o in enumerate(obls):
        smt2 = to_smt2(axioms, o.pc, o.goal)
        tasks.append((o.oid, i, smt2, timeout_ms if o.expect == "unsat" else min(timeout_ms, 5000), True, use_cvc5 and o.expect == "unsat"))
    results = [None] * len(obls)
    if workers <= 1 or len(tasks) <= 2:
        for t in tasks:
            r = _solve(t)
            results[r[1]] = r
    else:
        with ProcessPoolExecutor(max_workers=workers) as ex:
            for r in ex.map(_solve, tasks, chunksize=1):
                results[r[1]] = r
    out = []
    for o, r in zip(obls, results):
        out.append(
            {
                "oid": o.oid,
                "kind": o.kind,
                "expect": o.expect,
                "path": o.path,
                "result": r[2],
                "model": r[3],
                "backend": r[4],
                "time": r[5],
                "detail": r[6],
                "info": o.info,
            }
        )
    return out


# The quantified queries of the larger units are UNSTABLE in z3: the same obligation is `unsat` in half a second or `unknown` after
# the whole budget depending on term order and random seed (measured on ScatterStep._scatter/inv_step#0.1: 3 of 8 variants
# succeed), and which one happens changes with machine load.  An obligation that survives the short in-process attempt is
# therefore given to a PORTFOLIO: the same formula as simplified and as raw text, under several random seeds, in separate
# processes.  Every variant is the full query (axioms + path condition + negated goal), so `unsat` from any of them is a proof and
# `sat` from any of them is a counter-model; the first decisive answer wins and the other variants of that obligation are killed.
VARIANTS = (("simp", 0), ("raw", 0), ("simp-s3", 3), ("raw-s2", 2), ("raw-s5", 5), ("simp-s7", 7))


def _child(task, conn):
    try:
        os.setsid()  # own process group: killing the group also ends a cvc5 child
    except OSError:
        pass
    try:
        conn.send(_solve(task))
    except BaseException as e:  # pragma: no cover
        try:
            conn.send((task[0], task[1], "unknown", None, "z3", 0.0, f"worker error: {e}"))
        except Exception:
            pass
    finally:
        conn.close()


def _kill(proc):
    import signal

    try:
        os.killpg(proc.pid, signal.SIGKILL)
    except (ProcessLookupError, PermissionError, OSError):
        try:
            proc.kill()
        except Exception:
            pass


def _portfolio(tasks, workers):
    """tasks: [(rank, solve_task)]; -> {idx: (result, model, backend, time, detail)}.  Variants are scheduled rank by rank (every
    obligation gets its first variant before any gets its second), at most `workers` processes at a time, one pipe per process
    (a killed process can then corrupt nothing but its own pipe)."""
    import multiprocessing as mp
    from multiprocessing.connection import wait

    ctx = mp.get_context("fork")
    pending = sorted(tasks, key=lambda t: (t[0], t[1][1]))
    running = {}  # conn -> (proc, idx, t0, hard limit in s)
    answers = {}  # idx -> [(result, model, backend, time, detail)]
    done = {}
    total = {}
    for _, t in tasks:
        total[t[1]] = total.get(t[1], 0) + 1

    def settle(idx):
        rs = answers.get(idx, [])
        best = None
        for want in ("unsat", "sat"):
            cands = [r for r in rs if r[0] == want]
            if cands:
                # a counter-model is worth more than a bare `sat`
                cands.sort(key=lambda r: (r[1] is None, r[3]))
                best = cands[0]
                break
        if best is None and len(rs) >= total[idx]:
            det = " || ".join(sorted({f"{r[2]}: {r[4]}" for r in rs if r[4]}))
            best = ("unknown", None, "z3", max([r[3] for r in rs] or [0.0]), det[:600])
        if best is not None:
            done[idx] = best
        return best is not None

    while pending or running:
        while pending and len(running) < workers:
            _, t = pending.pop(0)
            if t[1] in done:
                continue
            pc, cc = ctx.Pipe(False)
            p = ctx.Process(target=_child, args=(t, cc), daemon=True)
            p.start()
            cc.close()
            running[pc] = (p, t[1], time.time(), 3.0 * t[3] / 1000.0 + 30.0)
        if not running:
            continue
        # hard deadline per process (z3 budget + two relevance attempts + cvc5, with slack): a worker that is still there after it
        # is stuck, not thinking — it is killed and counts as `unknown`
        now = time.time()
        for c2, (p2, i2, t2, lim) in list(running.items()):
            if now - t2 > lim:
                _kill(p2)
                running.pop(c2)
                c2.close()
                p2.join(5)
                if i2 not in done:
                    answers.setdefault(i2, []).append(("unknown", None, "z3", now - t2, "worker exceeded its hard deadline"))
                    settle(i2)
        for conn in wait(list(running), timeout=1.0):
            if conn not in running:
                continue  # a variant of an obligation settled earlier in this batch: already killed
            p, idx, t0, _lim = running.pop(conn)
            try:
                r = conn.recv()
                ans = (r[2], r[3], r[4], r[5], r[6])
            except (EOFError, OSError):
                ans = ("unknown", None, "z3", time.time() - t0, "worker died")
            conn.close()
            p.join(5)
            if idx in done:
                continue
            answers.setdefault(idx, []).append(ans)
            if settle(idx):
                pending = [x for x in pending if x[1][1] != idx]
                for c2, (p2, i2, _t, _l) in list(running.items()):
                    if i2 == idx:
                        _kill(p2)
                        running.pop(c2)
                        c2.close()
                        p2.join(5)
    return done


def discharge_jobs(jobs, timeout_ms=20000, workers=16, use_cvc5=True, fast_ms=1500):
    """jobs: [(Obligation, axioms, unit, unit_kind)].  Each obligation is first tried in-process with a short
    budget (most discharge in milliseconds); the rest go to the pool with the full budget."""
    out = [None] * len(jobs)
    slow = []
    for i, (o, axioms, unit, ukind) in enumerate(jobs):
        t0 = time.time()
        s = z3.Solver()
        for a in axioms:
            s.add(a)
        for f in o.pc:
            s.add(f)
        s.add(z3.Not(o.goal))
        r = safe_check(s, fast_ms if o.expect == "unsat" else 800)
        model = _model_dict(s.model()) if r == z3.sat else None
        if r == z3.unknown and o.expect == "unsat":
            slow.append(i)
            continue
        out[i] = (str(r), model, "z3", time.time() - t0, s.reason_unknown() if r == z3.unknown else "")
    if slow:
        tasks = []
        for i in slow:
            o, axioms, unit, ukind = jobs[i]
            tmo = timeout_ms if o.expect == "unsat" else min(timeout_ms, 3000)
            simp = to_smt2(axioms, o.pc, o.goal)
            raw = to_smt2(axioms, o.pc, o.goal, simplify=False)
            for rank, (vname, seed) in enumerate(VARIANTS):
                txt = simp if vname.startswith("simp") else raw
                # cvc5 gives a second opinion once per obligation (on the simplified text, which is what it parses)
                tasks.append((rank, (o.oid, i, txt, tmo, True, use_cvc5 and o.expect == "unsat" and rank == 0, seed, vname if rank else "")))
        for i, r in _portfolio(tasks, workers).items():
            out[i] = r
    res = []
    for (o, axioms, unit, ukind), r in zip(jobs, out):
        res.append(
            {
                "oid": o.oid, "kind": o.kind, "expect": o.expect, "path": list(o.path), "result": r[0], "model": r[1],
                "backend": r[2], "time": r[3], "detail": r[4], "info": o.info, "unit": unit, "unit_kind": ukind,
            }
        )
    return res
