"""verify one contract module: lemmas first (each lemma is available as an axiom to the units after it),
then every @contract; all obligations are then discharged in one 16-way pool."""
from __future__ import annotations

import time

from . import contracts as C
from . import discharge as D
from .core import Decider, OutOfSubset
from .engine import Engine, Interp


def verify_module(path, repo, timeout_ms=20000, workers=16, only=None, verbose=False):
    m = C.load(path)
    eng = Engine(m, repo)
    report = {"module": path, "results": [], "undecided": [], "trusted": [], "units": []}
    t0 = time.time()
    units = [("lemma", fs) for fs in m.lemmas.values()] + [
        ("contract", fs) for fs in m.contracts.values() if fs.kind == "contract"
    ]
    jobs = []  # (obligation, axioms, unit, kind)
    for kind, fs in units:
        if only and fs.unit not in only:
            continue
        try:
            obls = eng.verify(fs)
        except OutOfSubset as e:
            report["undecided"].append({"unit": fs.unit, "reason": f"out of subset: {e}"})
            continue
        except AssertionError as e:
            # an internal representation assumption of the generator does not hold for this code (e.g. a sort key that is a list):
            # the unit is outside the subset, not a checker failure
            report["undecided"].append({"unit": fs.unit, "reason": f"out of subset: {e}"})
            continue
        except RecursionError as e:  # pragma: no cover
            report["undecided"].append({"unit": fs.name, "reason": f"engine recursion: {e}"})
            continue
        axioms = list(eng.base_axioms())
        for o in obls:
            jobs.append((o, axioms, fs.unit, kind))
        report["units"].append({"unit": fs.unit, "kind": kind, "obligation_instances": len(obls)})
        if kind == "lemma" and fs.options.get("auto"):
            # @lemma(auto=True): available to later units; its own obligations are discharged below like any other
            it = Interp(eng, None, Decider([]), spec_only=True)
            eng.proved_lemmas.append(it.quantify_fn(fs))
    report["gen_time"] = time.time() - t0
    t1 = time.time()
    res = D.discharge_jobs(jobs, timeout_ms=timeout_ms, workers=workers)
    report["solve_time"] = time.time() - t1
    report["results"] = res
    if verbose:
        for r in res:
            print(f"  {r['oid']:60s} {r['result']:8s} {r['backend']} {r['time']:.2f}s {r['detail'][:60]}")
    for a in m.axioms:
        report["trusted"].append(f"axiom {a.name} [{a.tag}]" + (": " + a.notes[0] if a.notes else ""))
    for q, c in m.contracts.items():
        if c.kind in ("extern", "assumed"):
            report["trusted"].append(f"{c.kind} contract {q}")
    report["functions"] = eng.functions_info
    report["dropped"] = {k: sorted(v) for k, v in eng.dropped.items()}
    report["stats"] = eng.stats
    report["dead_calls"] = sorted(set(eng.dead_calls))
    report["idioms"] = {k: sorted(v) for k, v in eng.idioms.items()}
    report["loops"] = eng.loops_seen
    report["time"] = time.time() - t0
    return report


if __name__ == "__main__":
    import sys

    rep = verify_module(sys.argv[1], sys.argv[2] if len(sys.argv) > 2 else "/repo", verbose=True, only=set(sys.argv[3:]) or None)
    for u in rep["undecided"]:
        print("UNDECIDED", u)
    print(rep["stats"], f"gen {rep['gen_time']:.1f}s solve {rep['solve_time']:.1f}s")
