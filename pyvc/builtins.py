"""Summaries of Python builtins / container methods used by the functions under contract.

Every summary is part of the trusted encoding of Python's semantics (A-NOEXC-BUILTIN, A-STR, A-DICT-ORDER,
A-SET-ORDER); each is exercised against CPython by the encoder cross-check.
"""
from __future__ import annotations

import ast

import z3

from . import sorts as S
from .core import ClassObj, ExcClassObj, ExcObj, FuncObj, ModuleObj, OutOfSubset, PathEnd, PyRaise
from .sorts import NONE, TBool, TInt, TNone, TReal, TStr, TVal, V, mk_bool, mk_int, mk_real, mk_str

BUILTINS = {
    "len", "int", "str", "float", "bool", "min", "max", "abs", "any", "all", "sum", "isinstance", "list", "set", "dict",
    "tuple", "sorted", "zip", "enumerate", "range", "next", "iter", "cast", "type", "id", "repr", "round", "frozenset",
    "reversed", "callable", "hasattr", "print", "parses_int", "cmp_to_key", "divmod", "deque",
}


# ----------------------------------------------------------------------------------------- strings
def s_concat(it, a, b):
    if S.TStrC.mode == "z3":
        return V(TStr, (z3.Concat(a.t, b.t),))
    f = it.eng.ufunc("str_concat", S.StrAbs, S.StrAbs, S.StrAbs)
    # concatenation is kept in a canonical right-nested form without empty literals, so that associativity and the unit
    # law hold syntactically (no quantified axioms needed): (a + b) + c and a + (b + c) are the same term
    empty = S.str_lit("")
    # push concatenation inside conditionals so that each branch stays canonical
    for x, other, left in ((a, b, True), (b, a, False)):
        if z3.is_app(x.t) and x.t.decl().kind() == z3.Z3_OP_ITE:
            c, t1, t2 = x.t.children()
            r1 = s_concat(it, V(TStr, (t1,)), other) if left else s_concat(it, other, V(TStr, (t1,)))
            r2 = s_concat(it, V(TStr, (t2,)), other) if left else s_concat(it, other, V(TStr, (t2,)))
            return V(TStr, (z3.If(c, r1.t, r2.t),))

    def flat(t):
        if z3.is_app(t) and t.decl().name() == "str_concat":
            return flat(t.arg(0)) + flat(t.arg(1))
        return [] if t.eq(empty) else [t]

    parts = flat(a.t) + flat(b.t)
    if not parts:
        return V(TStr, (empty,))
    res = parts[-1]
    for t in reversed(parts[:-1]):
        res = f(t, res)
    return V(TStr, (res,))


def s_len(it, a):
    if S.TStrC.mode == "z3":
        return mk_int(z3.Length(a.t))
    return mk_int(it.eng.ufunc("str_len", S.StrAbs, z3.IntSort())(a.t))


def to_str(it, v):
    """Python str(v)"""
    if isinstance(v, V):
        if v.sort is TStr:
            return v
        zs = TStr.zsort
        if v.sort is TInt:
            if S.TStrC.mode == "z3":
                return V(TStr, (z3.If(v.t >= 0, z3.IntToStr(v.t), z3.Concat(z3.StringVal("-"), z3.IntToStr(-v.t))),))
            return V(TStr, (it.eng.ufunc("int_tostr", z3.IntSort(), zs)(v.t),))
        if v.sort is TVal:
            return V(TStr, (it.eng.ufunc("val_tostr", S.ValS, zs)(v.t),))
        if v.sort is TReal:
            return V(TStr, (it.eng.ufunc("real_tostr", z3.RealSort(), zs)(v.t),))
        if v.sort is TBool:
            return V(TStr, (z3.If(v.t, S.str_lit("True"), S.str_lit("False")),))
        if v.sort is TNone:
            return mk_str("None")
        if isinstance(v.sort, S.TOpt):
            inner = to_str(it, v.sort.payload(v))
            return V(TStr, (z3.If(v.terms[0], S.str_lit("None"), inner.t),))
        if isinstance(v.sort, S.TRef):
            # str(obj) is obj.__str__() when the class (or a base) has a __str__ under contract
            q, kind = it.m.find_method(v.sort.cls, "__str__") if v.sort.cls else (None, None)
            if q and not it.spec:
                return it.coerce(it.call_named(q, kind, [v], {}, None), TStr)
            return V(TStr, (it.eng.ufunc("ref_tostr", S.RefS, zs)(v.t),))
    raise OutOfSubset(f"str() of {v!r}")


def fstring(it, n):
    acc = None
    for part in n.values:
        if isinstance(part, ast.Constant):
            p = mk_str(part.value)
        elif isinstance(part, ast.FormattedValue):
            v = it.ev(part.value)
            if part.conversion == 114:  # !r
                raise OutOfSubset("f-string !r")
            if part.format_spec is not None:
                # f"{x:spec}" with a literal spec: the contract module names the spec function standing for it
                # (OPTIONS = {"format_specs": {"o": "octal"}}): an uninterpreted function of the value
                fsp = part.format_spec
                lit = fsp.values[0].value if isinstance(fsp, ast.JoinedStr) and len(fsp.values) == 1 and isinstance(fsp.values[0], ast.Constant) else None
                fname = (it.m.options.get("format_specs") or {}).get(lit)
                if fname is None or fname not in it.m.fns:
                    raise OutOfSubset("f-string format spec")
                p = it.call_spec(it.m.fns[fname], [v], {})
            else:
                p = to_str(it, v)
        else:
            raise OutOfSubset("f-string part")
        acc = p if acc is None else s_concat(it, acc, p)
    return acc if acc is not None else mk_str("")


# ----------------------------------------------------------------------------------------- lists
def list_from_lambda(it, elem_sort, n, fn):
    """list of length n whose i-th element is fn(i) (V of elem_sort)"""
    i = z3.Int(S.fresh_name("li"))
    it.qdepth += 1
    try:
        e = it.coerce(fn(i), elem_sort)
    finally:
        it.qdepth -= 1
    arrs = tuple(z3.Lambda([i], t) for t in e.terms)
    return S.TList(elem_sort).make(n, arrs)


def list_concat(it, a, b):
    a, b = it.unify(a, b)
    so = a.sort
    n1 = a.terms[0]
    return list_from_lambda(
        it, so.elem, n1 + b.terms[0], lambda i: so.elem.ite(i < n1, so.at(a, i), so.at(b, i - n1))
    )


def as_list(it, v):
    """materialise an iterable value as a list value (order as Python iterates it)"""
    if isinstance(v, V):
        if isinstance(v.sort, S.TList):
            return v
        if isinstance(v.sort, S.TDict):
            if not v.sort.ordered:
                raise OutOfSubset("list() of unordered dict")
            return v.sort.keys_list(v)
        if isinstance(v.sort, S.TTuple):
            es = v.sort.elems
            if es and all(e == es[0] for e in es):
                so = S.TList(es[0])
                r = so.empty()
                for k in range(len(es)):
                    r = so.append(r, v.sort.item(v, k))
                return r
            if not es:
                r = S.TList(TVal).empty()
                r.meta = "emptylit"
                return r
    if isinstance(v, tuple):
        if v[0] in ("keys",):
            return as_list(it, v[1])
        if v[0] == "values":
            d = v[1]
            if not d.sort.ordered:
                raise OutOfSubset("values() of unordered dict as list")
            kl = d.sort.keys_list(d)
            return list_from_lambda(
                it, d.sort.val, kl.terms[0], lambda i: d.sort.get(d, d.sort.keylist.at(kl, i))
            )
        if v[0] == "items":
            d = v[1]
            if not d.sort.ordered:
                raise OutOfSubset("items() of unordered dict as list")
            kl = d.sort.keys_list(d)
            tso = S.TTuple([d.sort.key, d.sort.val])
            return list_from_lambda(
                it,
                tso,
                kl.terms[0],
                lambda i: tso.make([d.sort.keylist.at(kl, i), d.sort.get(d, d.sort.keylist.at(kl, i))]),
            )
        if v[0] == "range":
            lo, hi = v[1], v[2]
            n = z3.If(hi > lo, hi - lo, 0)
            return list_from_lambda(it, TInt, n, lambda i: mk_int(lo + i))
    raise OutOfSubset(f"cannot view {v!r} as a list")


def list_literal(it, n):
    parts = []  # list values to concatenate
    cur = None
    for e in n.elts:
        if isinstance(e, ast.Starred):
            if cur is not None:
                parts.append(cur)
                cur = None
            parts.append(as_list(it, it.ev(e.value)))
        else:
            v = it.ev(e)
            if not isinstance(v, V):
                raise OutOfSubset("list element is not a value")
            if cur is None:
                cur = S.TList(v.sort).empty()
            else:
                cur, _ = cur, None
            try:
                cur = cur.sort.append(cur, it.coerce(v, cur.sort.elem))
            except OutOfSubset:
                # widen element sort (e.g. first element None)
                raise
    if cur is not None:
        parts.append(cur)
    if not parts:
        r = S.TList(TVal).empty()
        r.meta = "emptylit"
        return r
    res = parts[0]
    for p in parts[1:]:
        if getattr(res, "meta", None) == "emptylit":
            res = p
        elif getattr(p, "meta", None) == "emptylit":
            pass
        else:
            res = list_concat(it, res, p)
    return res


def norm_index(it, c, k, node):
    n = c.terms[0]
    if it.spec:
        # specifications index with non-negative expressions or literal negative constants (xs[-1])
        ks = z3.simplify(k.t)
        if z3.is_int_value(ks) and ks.as_long() < 0:
            return z3.simplify(n + ks)
        return k.t
    idx = z3.simplify(z3.If(k.t < 0, k.t + n, k.t))
    if not it.spec:
        if it.branch(z3.Not(z3.And(idx >= 0, idx < n))):
            raise PyRaise(ExcObj("IndexError", (), origin=getattr(node, "lineno", None)))
    return idx


def subscript(it, n):
    c = it.ev(n.value)
    if isinstance(n.slice, ast.Slice):
        return do_slice(it, c, n.slice, n)
    k = it.ev(n.slice)
    if isinstance(c, tuple) and c[0] in ("values", "keys", "items"):
        c = as_list(it, c)
    if not isinstance(c, V):
        raise OutOfSubset(f"subscript of {c!r}")
    so = c.sort
    if isinstance(so, S.TOpt) and isinstance(so.inner, (S.TRef, S.TList, S.TDict)):
        c = it.coerce(c, so.inner)
        so = c.sort
    if record_class(it, c) is not None:
        return record_get(it, c, k, n, strict=True)
    if isinstance(so, S.TList):
        k = it.coerce(k, TInt)
        v = so.at(c, norm_index(it, c, k, n))
        it.note_read(v)
        return v
    if isinstance(so, S.TDict):
        k = it.coerce(k, so.key)
        if not it.spec:
            if it.branch(z3.Not(so.has(c, k))):
                raise PyRaise(ExcObj("KeyError", (), origin=n.lineno))
        v = so.get(c, k)
        it.note_read(v)
        return v
    if isinstance(so, S.TTuple):
        kk = z3.simplify(k.t)
        if not z3.is_int_value(kk):
            raise OutOfSubset("tuple index not constant")
        i = kk.as_long()
        return so.item(c, i if i >= 0 else len(so.elems) + i)
    if so is TStr:
        raise OutOfSubset("string indexing")
    raise OutOfSubset(f"subscript on {so}")


def do_slice(it, c, sl, node):
    if sl.step is not None:
        raise OutOfSubset("slice step")
    if isinstance(c, V) and isinstance(c.sort, S.TList):
        n = c.terms[0]

        def bound(e, dflt):
            if e is None:
                return dflt
            b = it.coerce(it.ev(e), TInt).t
            b = z3.If(b < 0, b + n, b)
            return z3.If(b < 0, 0, z3.If(b > n, n, b))

        lo, hi = bound(sl.lower, z3.IntVal(0)), bound(sl.upper, n)
        ln = z3.If(hi > lo, hi - lo, 0)
        so = c.sort
        return list_from_lambda(it, so.elem, z3.simplify(ln), lambda i: so.at(c, lo + i))
    if isinstance(c, V) and c.sort is TStr and sl.upper is None and sl.lower is not None:
        lo = it.coerce(it.ev(sl.lower), TInt)
        if S.TStrC.mode == "z3":
            return V(TStr, (z3.SubString(c.t, lo.t, z3.Length(c.t) - lo.t),))
        return V(TStr, (it.eng.ufunc("str_drop", S.StrAbs, z3.IntSort(), S.StrAbs)(c.t, lo.t),))
    raise OutOfSubset("slice on non-list")


# ----------------------------------------------------------------------------------------- records (JSON-like dicts)
def record_class(it, v):
    if isinstance(v, V) and isinstance(v.sort, S.TRef) and v.sort.cls in it.m.classes and it.m.classes[v.sort.cls].record:
        return it.m.classes[v.sort.cls]
    return None


def _const_key(k):
    """the Python string of a literal key, or None"""
    if isinstance(k, V) and k.sort is TStr:
        for s_, t in S._str_lits.items():
            if t.eq(k.t):
                return s_
        if z3.is_string_value(k.t):
            return k.t.as_string()
    return None


def record_candidates(it, rec, k):
    """[(field name, z3 condition `k == name`)] for a key value k"""
    ck = _const_key(k)
    if ck is not None:
        return [(ck, z3.BoolVal(True))] if ck in rec.fields else []
    out = []
    for f in rec.fields:
        cond = k.t == S.str_lit(f)
        if it.must_hold(z3.Not(cond)):
            continue  # the path condition excludes this key
        out.append((f, cond))
    return out


def record_has(it, obj, k):
    rec = record_class(it, obj)
    out = []
    for f, cond in record_candidates(it, rec, k):
        v = it.get_field(obj, f)
        present = z3.Not(v.terms[0]) if isinstance(v.sort, S.TOpt) else z3.BoolVal(True)
        out.append(z3.And(cond, present))
    return z3.Or(*out) if out else z3.BoolVal(False)


def record_get(it, obj, k, node, default=None, strict=True):
    """obj[k] (strict) or obj.get(k[, default])"""
    rec = record_class(it, obj)
    cands = record_candidates(it, rec, k)
    if not it.spec and strict:
        if it.branch(z3.Not(record_has(it, obj, k))):
            raise PyRaise(ExcObj("KeyError", (), origin=getattr(node, "lineno", None)))
    vals = []
    for f, cond in cands:
        v = it.get_field(obj, f)
        if isinstance(v.sort, S.TOpt):
            if strict:
                v = v.sort.payload(v)
            else:
                # .get: absent key -> None; present -> its value (which may itself be None)
                inner = v.sort.inner
                osrt = inner if isinstance(inner, S.TOpt) else S.TOpt(inner)
                pv = it.coerce(v.sort.payload(v), osrt)
                v = osrt.ite(v.terms[0], osrt.none(), pv)
        vals.append((cond, v))
    if not vals:
        if strict:
            raise OutOfSubset(f"record {rec.name} has no key {k!r}")
        return NONE if default is None else default
    sorts = {repr(v.sort) for _, v in vals}
    if len(sorts) > 1:
        # keep the candidates of the most common sort only when the key is symbolic (others would be a type error for the caller)
        raise OutOfSubset(f"record {rec.name}: symbolic key over fields of different sorts")
    res = vals[-1][1]
    for cond, v in reversed(vals[:-1]):
        res = res.sort.ite(cond, v, res)
    if default is not None and not strict:
        d2 = it.coerce(default, res.sort)
        res = res.sort.ite(res.sort.isnone(res) if isinstance(res.sort, S.TOpt) else z3.BoolVal(False), d2, res) if isinstance(res.sort, S.TOpt) else res
    it.note_read(res)
    return res


def record_set(it, obj, k, v, node):
    rec = record_class(it, obj)
    cands = record_candidates(it, rec, k)
    if not cands:
        raise OutOfSubset(f"record {rec.name} has no key {k!r}")
    if len(cands) == 1:
        f = cands[0][0]
        it.set_field(obj, f, wrap_present(it, v, rec.fields[f]))
        return
    # symbolic key: the field whose name equals the key is written, the others keep their value
    for f, cond in cands:
        so = rec.fields[f]
        cur = it.get_field(obj, f)
        it.set_field(obj, f, so.ite(cond, wrap_present(it, v, so), cur))


def wrap_present(it, v, so):
    """value stored under an optional key: outer Opt = present"""
    if isinstance(so, S.TOpt):
        return so.some(it.coerce(v, so.inner))
    return it.coerce(v, so)


# ----------------------------------------------------------------------------------------- membership
def contains(it, c, x):
    if isinstance(c, tuple) and c[0] == "keys":
        c = c[1]
    if isinstance(c, tuple) and c[0] == "values":
        d = c[1]
        k = z3.Const(S.fresh_name("ck"), d.sort.kz)
        kv = V(d.sort.key, (k,))
        return z3.Exists([k], z3.And(d.sort.has(d, kv), it.eq(d.sort.get(d, kv), x)))
    if not isinstance(c, V):
        raise OutOfSubset(f"`in` on {c!r}")
    if isinstance(c.sort, S.TOpt) and isinstance(c.sort.inner, S.TRef):
        c = it.coerce(c, c.sort.inner)  # narrowing as everywhere else: in specifications, or where the path condition excludes None
    if record_class(it, c) is not None:
        return record_has(it, c, x)
    so = c.sort
    if isinstance(so, S.TSet):
        return so.mem(c, it.coerce(x, so.elem))
    if isinstance(so, S.TDict):
        return so.has(c, it.coerce(x, so.key))
    if isinstance(so, S.TList):
        i = z3.Int(S.fresh_name("ci"))
        return z3.Exists([i], z3.And(i >= 0, i < c.terms[0], it.eq(so.at(c, i), x)))
    if isinstance(so, S.TTuple):
        return z3.Or(*[it.eq(so.item(c, k), x) for k in range(len(so.elems))])
    if so is TStr:
        x = it.coerce(x, TStr)
        if S.TStrC.mode == "z3":
            return z3.Contains(c.t, x.t)
        return it.eng.ufunc("str_contains", S.StrAbs, S.StrAbs, z3.BoolSort())(c.t, x.t)
    raise OutOfSubset(f"`in` on {so}")


# ----------------------------------------------------------------------------------------- operators
def binop(it, op, a, b, node=None):
    if isinstance(a, V) and isinstance(a.sort, S.TOpt) and isinstance(a.sort.inner, S.TRef) and not isinstance(op, ast.Is):
        # an Optional object as the left operand of an overloaded operator: as for numbers, allowed where the path condition excludes None
        a = it.coerce(a, a.sort.inner)
    if isinstance(a, V) and isinstance(a.sort, S.TRef) and not isinstance(op, ast.Is):
        opname = {
            ast.Add: "__add__", ast.Sub: "__sub__", ast.BitOr: "__or__", ast.BitAnd: "__and__", ast.Mult: "__mul__",
        }.get(type(op))
        q, kind = it.m.find_method(a.sort.cls, opname) if opname else (None, None)
        if q is None:
            raise OutOfSubset(f"operator {type(op).__name__} on {a.sort}")
        return it.call_named(q, kind, [a, b], {}, node)
    # a dict keys view used as a set operand (s & d.keys()): the key set of the dict
    if isinstance(b, tuple) and b[0] == "keys" and isinstance(a, V) and isinstance(a.sort, S.TSet):
        b = V(S.TSet(b[1].sort.key), (b[1].terms[0],))
    if isinstance(a, tuple) and a[0] == "keys" and isinstance(b, V) and isinstance(b.sort, S.TSet):
        a = V(S.TSet(a[1].sort.key), (a[1].terms[0],))
    if not (isinstance(a, V) and isinstance(b, V)):
        raise OutOfSubset(f"binary op on {a!r}, {b!r}")
    if isinstance(op, ast.BitOr) and getattr(a, "meta", None) == "emptylit" and isinstance(a.sort, S.TDict) and (
            isinstance(b.sort, S.TDict) or record_class(it, b) is not None):
        # {} | d  is a new dict equal to d (containers are values, A-NOALIAS; a record literal on the right is fresh)
        return b
    # arithmetic on an Optional operand: allowed when the path condition excludes None (a None operand would be a TypeError)
    if isinstance(a.sort, S.TOpt) and a.sort.inner in (TInt, TReal):
        a = it.coerce(a, a.sort.inner)
    if isinstance(b.sort, S.TOpt) and b.sort.inner in (TInt, TReal):
        b = it.coerce(b, b.sort.inner)
    if a.sort is TStr and b.sort is TStr and isinstance(op, ast.Add):
        return s_concat(it, a, b)
    if isinstance(a.sort, S.TList) and isinstance(op, ast.Add):
        return list_concat(it, a, b)
    if isinstance(a.sort, S.TSet):
        b = it.coerce(b, a.sort) if isinstance(b.sort, S.TSet) else b
        x, y = a.terms[0], b.terms[0]
        es = a.sort.elem.leaves()[0][1]
        e = z3.Const(S.fresh_name("se"), es)
        if isinstance(op, ast.BitOr):
            return V(a.sort, (z3.Lambda([e], z3.Or(z3.Select(x, e), z3.Select(y, e))),))
        if isinstance(op, ast.BitAnd):
            return V(a.sort, (z3.Lambda([e], z3.And(z3.Select(x, e), z3.Select(y, e))),))
        if isinstance(op, ast.Sub):
            return V(a.sort, (z3.Lambda([e], z3.And(z3.Select(x, e), z3.Not(z3.Select(y, e)))),))
        raise OutOfSubset("set operator")
    if a.sort is TBool and b.sort is TBool and isinstance(op, (ast.BitOr, ast.BitAnd)):
        return mk_bool(z3.Or(a.t, b.t) if isinstance(op, ast.BitOr) else z3.And(a.t, b.t))
    if a.sort is TBool:
        a = it.coerce(a, TInt)
    if b.sort is TBool:
        b = it.coerce(b, TInt)
    if a.sort in (TInt, TReal) and b.sort in (TInt, TReal):
        if isinstance(op, ast.Div):
            a, b = it.coerce(a, TReal), it.coerce(b, TReal)
            if not it.spec and it.branch(b.t == 0):
                raise PyRaise(ExcObj("ZeroDivisionError", ()))
            return V(TReal, (a.t / b.t,))
        a, b = it.unify(a, b)
        if isinstance(op, ast.Add):
            return V(a.sort, (a.t + b.t,))
        if isinstance(op, ast.Sub):
            return V(a.sort, (a.t - b.t,))
        if isinstance(op, ast.Mult):
            return V(a.sort, (a.t * b.t,))
        if a.sort is TInt and isinstance(op, (ast.FloorDiv, ast.Mod)):
            if not it.spec and it.branch(b.t == 0):
                raise PyRaise(ExcObj("ZeroDivisionError", ()))
            # python floor semantics; z3 div/mod are euclidean: equal for positive divisors
            q = z3.If(b.t > 0, a.t / b.t, -((-a.t) / (-b.t)) if False else (a.t / b.t))
            if isinstance(op, ast.FloorDiv):
                fl = z3.If(b.t > 0, a.t / b.t, z3.If(a.t % b.t == 0, a.t / b.t, a.t / b.t - 1))
                return V(TInt, (fl,))
            md = z3.If(b.t > 0, a.t % b.t, z3.If(a.t % b.t == 0, 0, a.t % b.t + b.t))
            return V(TInt, (md,))
        if a.sort is TInt and isinstance(op, (ast.BitAnd, ast.BitOr, ast.BitXor, ast.LShift, ast.RShift)):
            # bitwise operators on mathematical integers: uninterpreted (nothing but functionality is assumed), so a contract that
            # depends on their value is refuted or undecided rather than the unit leaving the subset
            name = "int_" + type(op).__name__.lower()
            f = _BITFUN.get(name)
            if f is None:
                f = _BITFUN[name] = z3.Function(name, z3.IntSort(), z3.IntSort(), z3.IntSort())
            if z3.is_int_value(a.t) and z3.is_int_value(b.t):
                x, y = a.t.as_long(), b.t.as_long()
                return V(TInt, (z3.IntVal({"bitand": x & y, "bitor": x | y, "bitxor": x ^ y, "lshift": x << y if y >= 0 else 0,
                                           "rshift": x >> y if y >= 0 else 0}[type(op).__name__.lower()]),))
            return V(TInt, (f(a.t, b.t),))
    raise OutOfSubset(f"operator {type(op).__name__} on {a.sort}, {b.sort}")


_BITFUN = {}


# ----------------------------------------------------------------------------------------- iteration
class IterList:
    strict_fail = None

    def __init__(self, it, lst):
        self.it, self.lst = it, lst

    def init_index(self):
        return mk_int(0)

    def index_inv(self, i):
        return z3.And(i.t >= 0, i.t <= self.lst.terms[0])

    def has_next(self, i):
        return i.t < self.lst.terms[0]

    def item(self, i):
        v = self.lst.sort.at(self.lst, i.t)
        self.it.note_read(v)
        return v

    def advance(self, i, item):
        return mk_int(i.t + 1)


class IterZip:
    def __init__(self, it, lists, strict):
        self.it, self.lists = it, lists
        self.strict_fail = (lambda i: z3.Not(z3.And(*[i.t == l.terms[0] for l in lists]))) if strict else None

    def init_index(self):
        return mk_int(0)

    def index_inv(self, i):
        return z3.And(i.t >= 0, *[i.t <= l.terms[0] for l in self.lists])

    def has_next(self, i):
        return z3.And(*[i.t < l.terms[0] for l in self.lists])

    def item(self, i):
        vals = [l.sort.at(l, i.t) for l in self.lists]
        for v in vals:
            self.it.note_read(v)
        return S.TTuple([v.sort for v in vals]).make(vals)

    def advance(self, i, item):
        return mk_int(i.t + 1)


class IterEnumerate(IterList):
    def item(self, i):
        v = super().item(i)
        return S.TTuple([TInt, v.sort]).make([i, v])


class IterSet:
    """iteration over a set / unordered dict keys in an arbitrary duplicate-free order (A-SET-ORDER);
    the ghost index is the set of elements already visited"""

    strict_fail = None

    def __init__(self, it, memfn, elem_sort, project):
        self.it, self.mem, self.es, self.project = it, memfn, elem_sort, project
        self.sso = S.TSet(elem_sort)

    def init_index(self):
        return self.sso.empty()

    def index_inv(self, done):
        x = z3.Const(S.fresh_name("dx"), self.es.leaves()[0][1])
        return z3.ForAll([x], z3.Implies(z3.Select(done.terms[0], x), self.mem(x)))

    def has_next(self, done):
        x = z3.Const(S.fresh_name("hx"), self.es.leaves()[0][1])
        return z3.Exists([x], z3.And(self.mem(x), z3.Not(z3.Select(done.terms[0], x))))

    def item(self, done):
        x = self.es.fresh("pick")
        self.it.st.assume(z3.And(self.mem(x.t), z3.Not(z3.Select(done.terms[0], x.t))))
        self._last = x
        v = self.project(x)
        return v

    def advance(self, done, item):
        return self.sso.add(done, self._last)


def make_iter(it, node):
    v = it.ev(node)
    return iter_of_value(it, v)


def iter_of_value(it, v):
    if isinstance(v, V):
        so = v.sort
        if isinstance(so, S.TList):
            return IterList(it, v)
        if isinstance(so, S.TTuple):
            return IterList(it, as_list(it, v))
        if isinstance(so, S.TSet):
            return IterSet(it, lambda x: z3.Select(v.terms[0], x), so.elem, lambda x: x)
        if isinstance(so, S.TDict):
            if so.ordered:
                return IterList(it, so.keys_list(v))
            return IterSet(it, lambda x: z3.Select(v.terms[0], x), so.key, lambda x: x)
    if isinstance(v, tuple) and v[0] == "genexp":
        # for x in (f(y) for y in ys): the mapped list (f pure)
        g = v[1]
        n2 = ast.ListComp(elt=g.elt, generators=g.generators)
        ast.copy_location(n2, g)
        return IterList(it, comprehension(it, n2, "list"))
    if isinstance(v, tuple):
        if v[0] in ("keys", "values", "items"):
            d = v[1]
            if d.sort.ordered:
                return IterList(it, as_list(it, v))
            so = d.sort
            if v[0] == "keys":
                proj = lambda x: x
            elif v[0] == "values":
                proj = lambda x: so.get(d, x)
            else:
                proj = lambda x: S.TTuple([so.key, so.val]).make([x, so.get(d, x)])

            def proj2(x, proj=proj):
                r = proj(x)
                return r

            return IterSet(it, lambda x: z3.Select(d.terms[0], x), so.key, proj2)
        if v[0] == "zip":
            return IterZip(it, [as_list(it, x) for x in v[1]], v[2])
        if v[0] == "enumerate":
            return IterEnumerate(it, as_list(it, v[1]))
        if v[0] == "range":
            return IterList(it, as_list(it, v))
    raise OutOfSubset(f"iteration over {v!r}")


# ----------------------------------------------------------------------------------------- comprehensions
def comprehension(it, n, kind):
    if len(n.generators) != 1:
        raise OutOfSubset("nested comprehension")
    g = n.generators[0]
    if g.is_async:
        raise OutOfSubset("async comprehension")
    src = it.ev(g.iter)
    if kind == "set":
        # {elt for x in <set | unordered dict view> if cond}: order is irrelevant for a set result
        d = None
        if isinstance(src, tuple) and src[0] in ("keys", "values", "items") and not src[1].sort.ordered:
            d, view = src[1], src[0]
        elif isinstance(src, V) and isinstance(src.sort, S.TDict) and not src.sort.ordered:
            d, view = src, "keys"
        elif isinstance(src, V) and isinstance(src.sort, S.TSet):
            d, view = src, "set"
        if d is not None:
            saved_spec = it.spec
            it.spec = True
            try:
                ksort = d.sort.key if view != "set" else d.sort.elem
                kx = ksort.fresh("sck")
                guard = d.sort.has(d, kx) if view != "set" else d.sort.mem(d, kx)
                if view in ("keys", "set"):
                    item = kx
                elif view == "values":
                    item = d.sort.get(d, kx)
                else:
                    item = S.TTuple([d.sort.key, d.sort.val]).make([kx, d.sort.get(d, kx)])
                ev_k = _with_bound(it, g.target, item, lambda: it.ev(n.elt))
                cnd = _with_bound(it, g.target, item, lambda: z3.And(*[it.truthy(it.ev(c)) for c in g.ifs])) if g.ifs else z3.BoolVal(True)
                e = z3.Const(S.fresh_name("sce"), ev_k.sort.leaves()[0][1])
                body = z3.Exists(list(kx.terms), z3.And(guard, cnd, ev_k.t == e))
                return V(S.TSet(ev_k.sort), (z3.Lambda([e], body),))
            finally:
                it.spec = saved_spec
    lst = as_list(it, src) if not (isinstance(src, V) and isinstance(src.sort, (S.TSet,))) else None
    if lst is None:
        raise OutOfSubset("comprehension over a set")
    so = lst.sort
    saved_spec = it.spec
    if kind == "list" and not g.ifs:
        # [f(x) for x in xs]  -> same length, pointwise (f evaluated purely)
        def fn(i):
            return _with_bound(it, g.target, so.at(lst, i), lambda: it.ev(n.elt))

        it.spec = True
        try:
            probe = fn(z3.Int(S.fresh_name("cp")))
            return list_from_lambda(it, probe.sort, lst.terms[0], fn)
        finally:
            it.spec = saved_spec
    if kind == "list" and g.ifs:
        # filtered comprehension: order-preserving subsequence, axiomatised through a ghost index map
        it.spec = True
        try:
            def cond(i):
                return _with_bound(it, g.target, so.at(lst, i), lambda: z3.And(*[it.truthy(it.ev(c)) for c in g.ifs]))

            def elt(i):
                return _with_bound(it, g.target, so.at(lst, i), lambda: it.ev(n.elt))

            probe = elt(z3.Int(S.fresh_name("cp")))
            return filtered_list(it, lst.terms[0], cond, elt, probe.sort)
        finally:
            it.spec = saved_spec
    if kind == "set":
        it.spec = True
        try:
            probe = _with_bound(it, g.target, so.at(lst, z3.Int(S.fresh_name("cp"))), lambda: it.ev(n.elt))
            sso = S.TSet(probe.sort)
            e = z3.Const(S.fresh_name("sc"), probe.sort.leaves()[0][1])
            i = z3.Int(S.fresh_name("si"))
            ev_i = _with_bound(it, g.target, so.at(lst, i), lambda: it.ev(n.elt))
            cnd = _with_bound(it, g.target, so.at(lst, i), lambda: z3.And(*[it.truthy(it.ev(c)) for c in g.ifs])) if g.ifs else z3.BoolVal(True)
            body = z3.Exists([i], z3.And(i >= 0, i < lst.terms[0], cnd, ev_i.t == e))
            return V(sso, (z3.Lambda([e], body),))
        finally:
            it.spec = saved_spec
    raise OutOfSubset(f"{kind} comprehension form")


def filtered_list(it, n, cond, elt, elem_sort):
    """[elt(i) for i in range(n) if cond(i)] as a fresh list with a strictly increasing ghost index map
    `src: [0,len) -> [0,n)` that enumerates exactly the indices satisfying cond."""
    res = S.TList(elem_sort).fresh("filt")
    m = res.terms[0]
    src = z3.Function(S.fresh_name("filt_src"), z3.IntSort(), z3.IntSort())
    pos = z3.Function(S.fresh_name("filt_pos"), z3.IntSort(), z3.IntSort())
    j, k, i = z3.Int(S.fresh_name("fj")), z3.Int(S.fresh_name("fk")), z3.Int(S.fresh_name("fi"))
    st = it.st
    st.assume(z3.And(m >= 0, m <= n))
    st.assume(z3.ForAll([j], z3.Implies(z3.And(j >= 0, j < m), z3.And(src(j) >= 0, src(j) < n, cond(src(j)), pos(src(j)) == j))))
    st.assume(z3.ForAll([j, k], z3.Implies(z3.And(j >= 0, j < k, k < m), src(j) < src(k))))
    st.assume(z3.ForAll([i], z3.Implies(z3.And(i >= 0, i < n, cond(i)), z3.And(pos(i) >= 0, pos(i) < m, src(pos(i)) == i))))
    so = res.sort
    e_j = it.coerce(elt(src(j)), elem_sort)
    st.assume(z3.ForAll([j], z3.Implies(z3.And(j >= 0, j < m), elem_sort.eq(so.at(res, j), e_j))))
    res.meta = {"filter_src": src, "filter_pos": pos}
    return res


def _with_bound(it, target, v, thunk):
    saved = it.bound
    it.bound = dict(saved)
    it.qdepth += 1
    try:
        if isinstance(target, ast.Name):
            it.bound[target.id] = v
        elif isinstance(target, ast.Tuple):
            for k, t in enumerate(target.elts):
                if not isinstance(t, ast.Name):
                    raise OutOfSubset("nested comprehension target")
                it.bound[t.id] = v.sort.item(v, k)
        else:
            raise OutOfSubset("comprehension target")
        return thunk()
    finally:
        it.bound = saved
        it.qdepth -= 1


def quantify_over(it, dom, lam, universal):
    """forall(dom, lambda x: body) / exists(dom, lambda x: body) in specifications"""
    if not (isinstance(lam, tuple) and lam[0] == "lambda"):
        raise OutOfSubset("quantifier body must be a lambda")
    ln = lam[1]
    names = [a.arg for a in ln.args.args]
    bvars, guards, binds = [], [], {}

    def bind_one(name, d):
        if isinstance(d, tuple) and d[0] == "range":
            x = z3.Int(S.fresh_name("q" + name))
            bvars.append(x)
            guards.append(z3.And(x >= d[1], x < d[2]))
            binds[name] = mk_int(x)
        elif isinstance(d, tuple) and d[0] == "sort":
            v = d[1].fresh("q" + name)
            bvars.extend(v.terms)
            binds[name] = v
        elif isinstance(d, V) and isinstance(d.sort, S.TList):
            x = z3.Int(S.fresh_name("q" + name))
            bvars.append(x)
            guards.append(z3.And(x >= 0, x < d.terms[0]))
            binds[name] = d.sort.at(d, x)
        elif isinstance(d, V) and isinstance(d.sort, S.TSet):
            v = d.sort.elem.fresh("q" + name)
            bvars.extend(v.terms)
            guards.append(d.sort.mem(d, v))
            binds[name] = v
        elif isinstance(d, V) and isinstance(d.sort, S.TDict):
            v = d.sort.key.fresh("q" + name)
            bvars.extend(v.terms)
            guards.append(d.sort.has(d, v))
            binds[name] = v
        elif isinstance(d, tuple) and d[0] == "keys":
            bind_one(name, d[1])
        elif isinstance(d, tuple) and d[0] == "values":
            dd = d[1]
            k = dd.sort.key.fresh("qk" + name)
            bvars.extend(k.terms)
            guards.append(dd.sort.has(dd, k))
            binds[name] = dd.sort.get(dd, k)
        else:
            raise OutOfSubset(f"quantifier domain {d!r}")

    doms = dom if isinstance(dom, list) else [dom]
    if len(doms) == 1 and len(names) > 1:
        doms = doms * len(names)
    for name, d in zip(names, doms):
        bind_one(name, d)
    saved = it.bound
    it.bound = dict(lam[3])
    it.bound.update(binds)
    saved_locals = it.st.locals
    it.qdepth += 1
    try:
        body = it.ev(ln.body)
        body = it.truthy(body) if not (isinstance(body, V) and body.sort is TBool) else body.t
    finally:
        it.bound = saved
        it.st.locals = saved_locals
        it.qdepth -= 1
    g = z3.And(*guards) if guards else z3.BoolVal(True)
    if universal:
        return mk_bool(z3.ForAll(bvars, z3.Implies(g, body)))
    return mk_bool(z3.Exists(bvars, z3.And(g, body)))


# ----------------------------------------------------------------------------------------- special forms
def call_special(it, n):
    """forms that need unevaluated arguments"""
    f = n.func
    name = f.id if isinstance(f, ast.Name) else None
    if name is None:
        return NotImplemented
    if name in it.st.locals or name in it.bound:
        return NotImplemented
    if name == "old":
        return it.ev_spec_val(n.args[0], in_old=True)
    if name in ("forall", "exists"):
        *doms, lam = n.args
        dvals = [spec_domain(it, d) for d in doms]
        return quantify_over(it, dvals if len(dvals) > 1 else dvals[0], it.ev(lam), name == "forall")
    if name == "unfold":
        # unfold(f(args)): the defining equation of a @recursive spec function at these arguments (may mention bound variables)
        c = n.args[0]
        if not (isinstance(c, ast.Call) and isinstance(c.func, ast.Name) and c.func.id in it.m.fns and it.m.fns[c.func.id].kind == "recursive"):
            raise OutOfSubset("unfold() needs a call of a @recursive spec function")
        fs = it.m.fns[c.func.id]
        args = [it.ev(a) for a in c.args]
        env = it.bind_args(fs.params, args, {}, fs.name)
        saved = it.unfolding
        it.unfolding = True
        try:
            app = it.call_spec(fs, args, {})
            body = it.eval_pure_body(fs, env, unfolding=True)
        finally:
            it.unfolding = saved
        b2 = it.coerce(body, fs.ret)
        # a definition: leaf-wise identity (for list results: the whole array, not only the first len elements)
        return mk_bool(z3.And(*[x == y for x, y in zip(app.terms, b2.terms)]))
    if name == "sort_source_index":
        # for the most recent sorted(xs, ...) call on this path: the index in xs of the element at position k of the result
        if getattr(it, "last_sorted", None) is None:
            raise OutOfSubset("sort_source_index: no sorted() call on this path")
        k = it.coerce(it.ev(n.args[0]), TInt)
        return mk_int(it.last_sorted[2](k.t))
    if name == "final":
        # final("x"): the value of local x of the function under verification when it exits (for hints/postconditions)
        nm = ast.literal_eval(n.args[0])
        fl = getattr(it, "final_locals", None) or {}
        if nm not in fl:
            if len(n.args) > 1:
                return it.ev(n.args[1])  # default for exits on which the local was never bound
            raise OutOfSubset(f"final({nm!r}): no such local at this exit")
        return fl[nm]
    if name == "result_of":
        # result_of("Callee", k): the value returned by the k-th call (in path order) of that contract in this function
        key = (ast.literal_eval(n.args[0]), ast.literal_eval(n.args[1]))
        if key not in it.call_results:
            raise OutOfSubset(f"result_of{key}: no such call on this path")
        return it.call_results[key]
    if name == "ghost_of":
        key = (ast.literal_eval(n.args[0]), ast.literal_eval(n.args[1]), ast.literal_eval(n.args[2]))
        if key not in it.call_ghosts:
            raise OutOfSubset(f"ghost_of{key}: no such ghost on this path")
        return it.call_ghosts[key]
    if name == "identical":
        a, b = it.ev(n.args[0]), it.ev(n.args[1])
        a, b = it.unify(a, b)
        return mk_bool(z3.And(*[x == y for x, y in zip(a.terms, b.terms)]))
    if name == "fresh":
        # allocated by this call/function: not allocated in the old state, allocated now
        v = it.ev(n.args[0])
        return mk_bool(z3.And(z3.Not(z3.Select(it.old_st.alloc, v.t)), z3.Select(it.st.alloc, v.t)))
    if name == "allocated":
        v = it.ev(n.args[0])
        return mk_bool(z3.Select(it.st.alloc, v.t))
    if name == "allocated_before":
        v = it.ev(n.args[0])
        return mk_bool(z3.Select(it.old_st.alloc, v.t))
    if name == "implies":
        a, b = it.ev_spec(n.args[0]) if it.spec else it.truthy(it.ev(n.args[0])), None
        b = it.ev_spec(n.args[1]) if it.spec else it.truthy(it.ev(n.args[1]))
        return mk_bool(z3.Implies(a, b))
    if name == "ite":
        c = it.truthy(it.ev(n.args[0]))
        a, b = it.unify(it.ev(n.args[1]), it.ev(n.args[2]))
        return a.sort.ite(c, a, b)
    if name == "cast":
        v = it.ev(n.args[1])
        t = n.args[0]
        tn = t.id if isinstance(t, ast.Name) else (t.value if isinstance(t, ast.Constant) and isinstance(t.value, str) else None)
        if tn in it.m.classes and isinstance(v, V) and isinstance(v.sort, S.TRef):
            return V(S.TRef(tn), v.terms)  # static retyping of a reference (typing.cast has no run-time effect)
        return v
    if name == "assume" and it.fs is not None and it.fs.kind == "lemma":
        raise OutOfSubset("assume is not allowed")
    if name in ("any", "all") and len(n.args) == 1 and isinstance(n.args[0], ast.GeneratorExp):
        return any_all(it, n.args[0], name == "all")
    if name == "isinstance":
        return mk_bool(isinstance_(it, it.ev(n.args[0]), n.args[1]))
    if name == "next" and isinstance(n.args[0], ast.GeneratorExp):
        raise OutOfSubset("next(genexp)")
    return NotImplemented


def spec_domain(it, d):
    if isinstance(d, ast.Name) and d.id in ("Int", "Str", "Real", "Bool", "Val") or (
        isinstance(d, ast.Name) and d.id in it.m.classes and d.id not in it.st.locals
    ):
        return ("sort", it.m.sort_of(d))
    if isinstance(d, ast.Subscript) and isinstance(d.value, ast.Name) and d.value.id in ("Opt", "List", "Set", "Dict", "Tuple", "Ref"):
        return ("sort", it.m.sort_of(d))
    return it.ev(d)


def any_all(it, g, universal):
    if len(g.generators) != 1:
        raise OutOfSubset("nested generator")
    gen = g.generators[0]
    src = it.ev(gen.iter)
    saved = it.spec
    saved_pre = it.spec_pre
    it.spec_pre = [] if not saved else saved_pre
    it.spec = True  # the body of any()/all() is required to be pure
    try:
        if isinstance(src, V) and isinstance(src.sort, S.TSet):
            x = src.sort.elem.fresh("ax")
            guard = src.sort.mem(src, x)
            bv = list(x.terms)
            item = x
        elif isinstance(src, V) and isinstance(src.sort, S.TDict) and not src.sort.ordered:
            x = src.sort.key.fresh("ax")
            guard = src.sort.has(src, x)
            bv = list(x.terms)
            item = x
        elif isinstance(src, tuple) and src[0] in ("values", "items", "keys") and not src[1].sort.ordered:
            d = src[1]
            x = d.sort.key.fresh("ax")
            guard = d.sort.has(d, x)
            bv = list(x.terms)
            item = x if src[0] == "keys" else (d.sort.get(d, x) if src[0] == "values" else S.TTuple([d.sort.key, d.sort.val]).make([x, d.sort.get(d, x)]))
        else:
            lst = as_list(it, src)
            i = z3.Int(S.fresh_name("ai"))
            guard = z3.And(i >= 0, i < lst.terms[0])
            bv = [i]
            item = lst.sort.at(lst, i)
        body = _with_bound(it, gen.target, item, lambda: it.truthy(it.ev(g.elt)))
        conds = [_with_bound(it, gen.target, item, lambda c=c: it.truthy(it.ev(c))) for c in gen.ifs]
        guard = z3.And(guard, *conds)
    finally:
        it.spec = saved
        pres, it.spec_pre = it.spec_pre, saved_pre
    if not saved and pres:
        # callee preconditions inside the generator body must hold for every element visited
        it.callsite_counter["purepre"] = it.callsite_counter.get("purepre", 0) + 1
        it.oblige(f"pre@pure-calls#{it.callsite_counter['purepre']}", z3.ForAll(bv, z3.Implies(guard, z3.And(*pres))),
                  {"clause": "preconditions of the calls inside any()/all() hold for every element"})
    if universal:
        return mk_bool(z3.ForAll(bv, z3.Implies(guard, body)))
    return mk_bool(z3.Exists(bv, z3.And(guard, body)))


def isinstance_(it, v, tnode):
    types = tnode.elts if isinstance(tnode, ast.Tuple) else [tnode]
    res = []
    for t in types:
        tn = ast.unparse(t).split(".")[-1]
        res.append(_isinstance1(it, v, tn))
    return z3.Or(*res) if len(res) > 1 else res[0]


_PYTYPES = {
    "str": S.TStrC, "int": S.TIntC, "float": S.TRealC, "bool": S.TBoolC, "MutableSequence": S.TList, "list": S.TList,
    "MutableMapping": S.TDict, "dict": S.TDict, "set": S.TSet, "MutableSet": S.TSet, "tuple": S.TTuple,
}


def _isinstance1(it, v, tn):
    if isinstance(v, ExcObj):
        return z3.BoolVal(it.m.exc_is(v.cls, tn))
    if not isinstance(v, V):
        raise OutOfSubset(f"isinstance of {v!r}")
    so = v.sort
    if isinstance(so, S.TOpt):
        inner = _isinstance1(it, so.payload(v), tn)
        return z3.And(z3.Not(v.terms[0]), inner)
    if so is TNone:
        return z3.BoolVal(False)
    if isinstance(so, S.TRef):
        if tn in it.m.classes:
            if so.cls and it.m.is_subclass(so.cls, tn):
                return z3.BoolVal(True)
            return it.eng.isinstance_formula(v.t, tn)
        if tn in _PYTYPES:
            return z3.BoolVal(False)
        raise OutOfSubset(f"isinstance against undeclared class {tn}")
    if so is TVal:
        return it.eng.ufunc(f"val_is_{tn}", S.ValS, z3.BoolSort())(v.t)
    if tn in _PYTYPES:
        if tn == "int" and so is TBool:
            return z3.BoolVal(True)
        return z3.BoolVal(isinstance(so, _PYTYPES[tn]))
    if tn in it.m.classes:
        return z3.BoolVal(False)
    raise OutOfSubset(f"isinstance({so}, {tn})")


# ----------------------------------------------------------------------------------------- builtin calls
def call_builtin(it, name, args, kwargs, node):
    if name == "len":
        (a,) = args
        if isinstance(a, tuple) and a[0] in ("keys", "values", "items"):
            a = a[1]
        if isinstance(a, V) and isinstance(a.sort, S.TOpt) and isinstance(a.sort.inner, (S.TList, S.TDict, S.TSet, S.TStrC)):
            a = it.coerce(a, a.sort.inner)
        if isinstance(a, V):
            if isinstance(a.sort, S.TList):
                return mk_int(a.terms[0])
            if a.sort is TStr:
                return s_len(it, a)
            if isinstance(a.sort, S.TTuple):
                return mk_int(len(a.sort.elems))
            if isinstance(a.sort, S.TDict) and a.sort.ordered:
                return mk_int(a.sort.keys_list(a).terms[0])
            if isinstance(a.sort, (S.TSet, S.TDict)):
                arr = a.terms[0]
                name = f"card_{arr.sort().domain()}"
                card = it.eng.ufunc(name, arr.sort(), z3.IntSort())
                if name not in it.eng.extra_axioms:
                    # cardinality is abstract: only non-negativity and "zero iff empty" are axiomatised (global, so that it
                    # also holds under binders)
                    q = z3.Const("card_arr_" + name, arr.sort())
                    x = z3.Const("card_x_" + name, arr.sort().domain())
                    it.eng.extra_axioms[name] = z3.ForAll(
                        [q], z3.And(card(q) >= 0, (card(q) == 0) == z3.Not(z3.Exists([x], z3.Select(q, x)))), patterns=[card(q)]
                    )
                return mk_int(card(arr))
        raise OutOfSubset(f"len of {a!r}")
    if name == "int":
        (a,) = args
        if a.sort is TInt:
            return a
        if a.sort is TBool:
            return it.coerce(a, TInt)
        if a.sort is TStr:
            dec = it.eng.ufunc("str_isdec", TStr.zsort, z3.BoolSort())
            if not it.spec and it.branch(z3.Not(dec(a.t))):
                raise PyRaise(ExcObj("ValueError", (), origin=getattr(node, "lineno", None)))
            if S.TStrC.mode == "z3":
                return mk_int(z3.StrToInt(a.t))
            return mk_int(it.eng.ufunc("str_toint", S.StrAbs, z3.IntSort())(a.t))
        raise OutOfSubset(f"int() of {a.sort}")
    if name == "divmod":
        a, b = it.coerce(args[0], TInt), it.coerce(args[1], TInt)
        q = binop(it, ast.FloorDiv(), a, b, node)
        r = binop(it, ast.Mod(), a, b, node)
        return S.TTuple([TInt, TInt]).make([q, r])
    if name == "cmp_to_key":
        return ("cmp_to_key", args[0])
    if name == "parses_int":
        return mk_bool(it.eng.ufunc("str_isdec", TStr.zsort, z3.BoolSort())(args[0].t))
    if name == "str":
        return to_str(it, args[0]) if args else mk_str("")
    if name == "float":
        return it.coerce(args[0], TReal)
    if name == "bool":
        return mk_bool(it.truthy(args[0]))
    if name in ("min", "max"):
        if len(args) == 2:
            args = [x.sort.payload(x) if isinstance(x, V) and isinstance(x.sort, S.TOpt) else x for x in args]  # A-TYPES
            a, b = it.unify(*args)
            c = a.t <= b.t if name == "min" else a.t >= b.t
            return a.sort.ite(c, a, b)
        raise OutOfSubset(f"{name} arity")
    if name == "abs":
        (a,) = args
        return V(a.sort, (z3.If(a.t >= 0, a.t, -a.t),))
    if name == "deque" and not args and not kwargs:
        # collections.deque(): used as a list (append / iteration / pop from the right); popleft is not modelled
        r = S.TList(TVal).empty()
        r.meta = "emptylit"
        return r
    if name == "list":
        if not args:
            r = S.TList(TVal).empty()
            r.meta = "emptylit"
            return r
        a = args[0]
        if isinstance(a, V) and isinstance(a.sort, S.TSet):
            return set_to_list(it, a)
        return as_list(it, a)
    if name == "tuple":
        return as_list(it, args[0])
    if name in ("set", "frozenset"):
        if not args:
            r = S.TSet(TVal).empty()
            r.meta = "emptylit"
            return r
        a = args[0]
        if isinstance(a, tuple) and a[0] == "keys":
            a = a[1]
        if isinstance(a, V) and isinstance(a.sort, S.TSet):
            return a
        if isinstance(a, V) and isinstance(a.sort, S.TDict):
            return V(S.TSet(a.sort.key), (a.terms[0],))
        lst = as_list(it, a)
        e = z3.Const(S.fresh_name("se"), lst.sort.elem.leaves()[0][1])
        i = z3.Int(S.fresh_name("si"))
        body = z3.Exists([i], z3.And(i >= 0, i < lst.terms[0], lst.sort.at(lst, i).t == e))
        return V(S.TSet(lst.sort.elem), (z3.Lambda([e], body),))
    if name == "dict":
        if not args and not kwargs:
            r = S.TDict(TVal, TVal).empty()
            r.meta = "emptylit"
            return r
        raise OutOfSubset("dict(...)")
    if name == "zip":
        strict = kwargs.get("strict")
        st = strict is not None and z3.is_true(z3.simplify(strict.t))
        return ("zip", list(args), st)
    if name == "enumerate":
        return ("enumerate", args[0])
    if name == "range":
        if len(args) == 1:
            return ("range", z3.IntVal(0), it.coerce(args[0], TInt).t)
        if len(args) == 2:
            return ("range", it.coerce(args[0], TInt).t, it.coerce(args[1], TInt).t)
        raise OutOfSubset("range step")
    if name == "sorted":
        return sorted_(it, args, kwargs, node)
    if name == "type":
        (a,) = args
        if isinstance(a, ExcObj):
            return ExcClassObj(a.cls)
        if isinstance(a, V) and isinstance(a.sort, S.TRef):
            # type(obj) of an object: its dynamic class, as an opaque value (only passed on, never called)
            return V(TVal, (it.eng.ufunc("val_of_class", z3.IntSort(), S.ValS)(it.eng.dyntype(a.t)),))
        raise OutOfSubset("type()")
    if name == "round":
        # round(x[, n]) is not modelled arithmetically (A-REAL): an uninterpreted function of its arguments
        x = it.coerce(args[0], TReal)
        if len(args) == 1:
            return mk_int(it.eng.ufunc("round_to_int", z3.RealSort(), z3.IntSort())(x.t))
        n = it.coerce(args[1], TInt)
        return V(TReal, (it.eng.ufunc("round_ndigits", z3.RealSort(), z3.IntSort(), z3.RealSort())(x.t, n.t),))
    if name == "sum":
        raise OutOfSubset("sum()")
    if name == "print":
        return NONE
    raise OutOfSubset(f"builtin {name}")


def set_to_list(it, s):
    """list(aset): a duplicate-free enumeration of the set in an ARBITRARY order (A-SET-ORDER)"""
    so = S.TList(s.sort.elem)
    res = so.fresh("setlist")
    n = res.terms[0]
    i, j = z3.Int(S.fresh_name("sli")), z3.Int(S.fresh_name("slj"))
    x = z3.Const(S.fresh_name("slx"), s.sort.elem.leaves()[0][1])
    idx = z3.Function(S.fresh_name("sl_idx"), x.sort(), z3.IntSort())
    at = lambda k: so.at(res, k).t
    it.st.assume(n >= 0)
    it.st.assume(z3.ForAll([i], z3.Implies(z3.And(i >= 0, i < n), z3.And(z3.Select(s.terms[0], at(i)), idx(at(i)) == i))))
    it.st.assume(z3.ForAll([x], z3.Implies(z3.Select(s.terms[0], x), z3.And(idx(x) >= 0, idx(x) < n, at(idx(x)) == x))))
    return res


def sorted_(it, args, kwargs, node):
    """sorted(xs, key=...) : A-SORTED — a permutation of xs, ordered by the key (stable)"""
    lst = as_list(it, args[0])
    so = lst.sort
    res = so.fresh("sorted")
    n = lst.terms[0]
    perm = z3.Function(S.fresh_name("sort_perm"), z3.IntSort(), z3.IntSort())
    inv = z3.Function(S.fresh_name("sort_inv"), z3.IntSort(), z3.IntSort())
    i, j = z3.Int(S.fresh_name("soi")), z3.Int(S.fresh_name("soj"))
    st = it.st
    st.assume(res.terms[0] == n)
    rng = lambda k: z3.And(k >= 0, k < n)
    st.assume(z3.ForAll([i], z3.Implies(rng(i), z3.And(rng(perm(i)), inv(perm(i)) == i, so.elem.eq(so.at(res, i), so.at(lst, perm(i)))))))
    st.assume(z3.ForAll([i], z3.Implies(rng(i), z3.And(rng(inv(i)), perm(inv(i)) == i, so.elem.eq(so.at(res, inv(i)), so.at(lst, i))))))
    st.assume(z3.ForAll([i, j], z3.Implies(z3.And(rng(i), rng(j), i != j), perm(i) != perm(j))))
    key = kwargs.get("key")
    if key is not None:
        if isinstance(key, tuple) and key[0] == "cmp_to_key":
            cmpf = key[1]

            def le(a, b):
                r = it.call(cmpf, [a, b], {}, node)
                return r.t <= 0

        else:
            def le(a, b):
                ka, kb = it.call(key, [a], {}, node), it.call(key, [b], {}, node)
                if ka.sort in (TInt, TReal):
                    return ka.t <= kb.t
                f = it.eng.ufunc(f"le_{ka.sort.name}", ka.t.sort(), kb.t.sort(), z3.BoolSort())
                return f(ka.t, kb.t)

        saved = it.spec
        saved_pre = it.spec_pre
        it.spec_pre = [] if not saved else saved_pre
        it.spec = True
        it.qdepth += 1
        try:
            body = le(so.at(res, i), so.at(res, j))
        finally:
            it.spec = saved
            it.qdepth -= 1
            pres, it.spec_pre = it.spec_pre, saved_pre
        if not saved and pres:
            # the comparator / key function is called on arbitrary pairs of elements: its preconditions must hold for all of them
            it.callsite_counter["sortpre"] = it.callsite_counter.get("sortpre", 0) + 1
            it.oblige(f"pre@sort-key#{it.callsite_counter['sortpre']}",
                      z3.ForAll([i, j], z3.Implies(z3.And(i >= 0, i < n, j >= 0, j < n), z3.And(*pres))),
                      {"clause": "preconditions of the calls inside the sort key / comparator hold for every pair of elements"})
        st.assume(z3.ForAll([i, j], z3.Implies(z3.And(i >= 0, i < j, j < n), body)))
    else:
        if so.elem in (TInt, TReal):
            st.assume(z3.ForAll([i, j], z3.Implies(z3.And(i >= 0, i < j, j < n), so.at(res, i).t <= so.at(res, j).t)))
        else:
            raise OutOfSubset("sorted without key on non-numeric")
    res.meta = {"sort_perm": perm, "sort_inv": inv}
    it.last_sorted = (res, lst, perm, inv)
    return res


# ----------------------------------------------------------------------------------------- methods on values
def value_method(it, base, attr, node):
    so = base.sort
    bb = lambda fn: ("boundbuiltin", fn)
    if record_class(it, base) is not None:
        if attr == "get":
            return bb(lambda k, d=None: record_get(it, base, k, node, default=d, strict=False))
        raise OutOfSubset(f"method {attr} on record {base.sort.cls}")

    def writeback(nv):
        it.assign(_as_store(node.value), nv)

    if isinstance(so, S.TList):
        if attr == "append":
            def f(x):
                writeback(so.append(base, it.coerce(x, so.elem)) if getattr(base, "meta", None) != "emptylit" else S.TList(x.sort).append(S.TList(x.sort).empty(), x))
                return NONE
            return bb(f)
        if attr == "extend":
            def f(x):
                other = as_list(it, x)
                writeback(other if getattr(base, "meta", None) == "emptylit" else list_concat(it, base, other))
                return NONE
            return bb(f)
        if attr == "pop":
            def f(i=None):
                n = base.terms[0]
                if not it.spec and it.branch(n <= 0):
                    raise PyRaise(ExcObj("IndexError", ()))
                if i is None:
                    v = so.at(base, n - 1)
                    writeback(V(so, (n - 1,) + base.terms[1:]))
                    it.note_read(v)
                    return v
                k = z3.simplify(i.t)
                if z3.is_int_value(k) and k.as_long() == 0:
                    v = so.at(base, z3.IntVal(0))
                    writeback(list_from_lambda(it, so.elem, n - 1, lambda j: so.at(base, j + 1)))
                    it.note_read(v)
                    return v
                raise OutOfSubset("list.pop(i)")
            return bb(f)
        if attr == "copy":
            return bb(lambda: base)
        if attr == "clear":
            def f():
                writeback(so.empty())
                return NONE
            return bb(f)
        if attr == "remove":
            def f(x):
                x = it.coerce(x, so.elem)
                n = base.terms[0]
                if not it.spec and it.branch(z3.Not(contains(it, base, x))):
                    raise PyRaise(ExcObj("ValueError", ()))
                # removes the FIRST occurrence: k is its index
                k = z3.Int(S.fresh_name("rmk"))
                j = z3.Int(S.fresh_name("rmj"))
                it.st.assume(z3.And(k >= 0, k < n, so.elem.eq(so.at(base, k), x)))
                it.st.assume(z3.ForAll([j], z3.Implies(z3.And(j >= 0, j < k), z3.Not(so.elem.eq(so.at(base, j), x)))))
                res = list_from_lambda(it, so.elem, n - 1, lambda i: so.elem.ite(i < k, so.at(base, i), so.at(base, i + 1)))
                # spelled-out consequence (helps the solver find witnesses): every other position survives, shifted by at most one
                newidx = z3.Function(S.fresh_name("rm_newidx"), z3.IntSort(), z3.IntSort())
                it.st.assume(z3.ForAll([j], z3.Implies(z3.And(j >= 0, j < n, j != k), z3.And(
                    newidx(j) == z3.If(j < k, j, j - 1), newidx(j) >= 0, newidx(j) < n - 1,
                    so.elem.eq(so.at(res, newidx(j)), so.at(base, j))))))
                writeback(res)
                return NONE
            return bb(f)
        if attr == "index" or attr == "insert" or attr == "sort":
            raise OutOfSubset(f"list.{attr}")
    if isinstance(so, S.TSet):
        if attr == "add":
            def f(x):
                if getattr(base, "meta", None) == "emptylit":
                    s2 = S.TSet(x.sort)
                    writeback(s2.add(s2.empty(), x))
                else:
                    writeback(so.add(base, it.coerce(x, so.elem)))
                return NONE
            return bb(f)
        if attr == "discard":
            def f(x):
                writeback(so.discard(base, it.coerce(x, so.elem)))
                return NONE
            return bb(f)
        if attr == "remove":
            def f(x):
                x = it.coerce(x, so.elem)
                if not it.spec and it.branch(z3.Not(so.mem(base, x))):
                    raise PyRaise(ExcObj("KeyError", ()))
                writeback(so.discard(base, x))
                return NONE
            return bb(f)
        if attr == "copy":
            return bb(lambda: base)
        if attr in ("difference", "union", "intersection"):
            op = {"difference": ast.Sub(), "union": ast.BitOr(), "intersection": ast.BitAnd()}[attr]
            return bb(lambda o: binop(it, op, base, o if isinstance(o, V) and isinstance(o.sort, S.TSet) else call_builtin(it, "set", [o], {}, node)))
        if attr == "update":
            def f(o):
                o2 = o if isinstance(o, V) and isinstance(o.sort, S.TSet) else call_builtin(it, "set", [o], {}, node)
                writeback(binop(it, ast.BitOr(), base, o2))
                return NONE
            return bb(f)
        if attr == "pop":
            def f():
                x = so.elem.fresh("setpop")
                ne = z3.Const(S.fresh_name("spx"), so.elem.leaves()[0][1])
                if not it.spec and it.branch(z3.Not(z3.Exists([ne], z3.Select(base.terms[0], ne)))):
                    raise PyRaise(ExcObj("KeyError", ()))
                it.st.assume(so.mem(base, x))
                writeback(so.discard(base, x))
                return x
            return bb(f)
    if isinstance(so, S.TDict):
        if attr in ("keys", "values", "items"):
            return bb(lambda: (attr, base))
        if attr == "get":
            def f(k, d=NONE):
                k = it.coerce(k, so.key)
                v = so.get(base, k)
                has = so.has(base, k)
                if d.sort is TNone:
                    osrt = S.TOpt(so.val) if not isinstance(so.val, S.TOpt) else so.val
                    vv = it.coerce(v, osrt)
                    r = osrt.ite(has, vv, osrt.none())
                else:
                    if getattr(d, "meta", None) == "emptylit" and isinstance(so.val, (S.TList, S.TSet, S.TDict)) and type(d.sort) is not type(so.val):
                        # d.get(k, set()) on a dict of lists (or the like): an EMPTY default of another container kind; it can
                        # only be iterated / measured, where it behaves as the empty value of the stored kind (idiom, recorded)
                        it.eng.idioms.setdefault(it.fname, set()).add("dict.get(k, <empty container of another kind>) read as the empty value of the stored kind")
                        d = so.val.empty()
                    a, b = it.unify(v, d)
                    r = a.sort.ite(has, a, b)
                it.note_read(r)
                return r
            return bb(f)
        if attr == "setdefault":
            def f(k, d):
                k = it.coerce(k, so.key)
                has = so.has(base, k)
                dv = it.coerce(d, so.val)
                nd = so.set(base, k, dv)
                merged = so.ite(has, base, nd)
                writeback(merged)
                r = so.val.ite(has, so.get(base, k), dv)
                it.note_read(r)
                return r
            return bb(f)
        if attr == "pop":
            def f(k, d=None):
                k = it.coerce(k, so.key)
                has = so.has(base, k)
                if d is None:
                    if not it.spec and it.branch(z3.Not(has)):
                        raise PyRaise(ExcObj("KeyError", ()))
                    v = so.get(base, k)
                    writeback(it.dict_del(base, k))
                    return v
                v = so.get(base, k)
                writeback(it.dict_del(base, k))
                if d.sort is TNone:
                    osrt = S.TOpt(so.val) if not isinstance(so.val, S.TOpt) else so.val
                    return osrt.ite(has, it.coerce(v, osrt), osrt.none())
                a, b = it.unify(v, d)
                return a.sort.ite(has, a, b)
            return bb(f)
        if attr == "copy":
            return bb(lambda: base)
    if so is TStr:
        zs = TStr.zsort
        if attr == "split":
            def f(sep=None, maxsplit=None):
                if sep is None or maxsplit is not None:
                    raise OutOfSubset("str.split() form")
                nf = it.eng.ufunc("str_nsplit", zs, zs, z3.IntSort())
                pf = it.eng.ufunc("str_part", zs, zs, z3.IntSort(), zs)
                n = nf(base.t, sep.t)
                it.st.assume(n >= 1)
                return list_from_lambda(it, TStr, n, lambda i: V(TStr, (pf(base.t, sep.t, i),)))
            return bb(f)
        if attr == "splitlines":
            def f():
                nf = it.eng.ufunc("str_nlines", zs, z3.IntSort())
                pf = it.eng.ufunc("str_line", zs, z3.IntSort(), zs)
                n = nf(base.t)
                it.st.assume(n >= 0)
                return list_from_lambda(it, TStr, n, lambda i: V(TStr, (pf(base.t, i),)))
            return bb(f)
        if attr == "join":
            def f(xs):
                if isinstance(xs, V) and xs.sort is TStr:
                    if _const_key(base) == "":
                        return xs  # "".join(s) over the characters of a string is the string itself
                    raise OutOfSubset("sep.join(string)")
                lst = as_list(it, xs)
                nlit = z3.simplify(lst.terms[0])
                if (_const_key(base) == "" or getattr(xs, "meta", None) == "display") and z3.is_int_value(nlit) and 0 <= nlit.as_long() <= 12:
                    # sep.join([a, b, c]) over a list written as a display (or "".join over a list of known small length) is the
                    # concatenation a + sep + b + sep + c
                    acc = mk_str("")
                    for k in range(nlit.as_long()):
                        e = V(TStr, (z3.simplify(z3.Select(lst.terms[1], k)),))
                        acc = e if k == 0 else s_concat(it, s_concat(it, acc, base), e)
                    return acc
                jf = it.eng.ufunc("str_join", zs, z3.IntSort(), z3.ArraySort(z3.IntSort(), zs), zs)
                return V(TStr, (jf(base.t, lst.terms[0], lst.terms[1]),))
            return bb(f)
        if attr in ("startswith", "endswith"):
            def f(p):
                if S.TStrC.mode == "z3":
                    return mk_bool(z3.PrefixOf(p.t, base.t) if attr == "startswith" else z3.SuffixOf(p.t, base.t))
                return mk_bool(it.eng.ufunc("str_" + attr, zs, zs, z3.BoolSort())(base.t, p.t))
            return bb(f)
        if attr in ("isdigit", "isalpha", "isalnum", "isspace"):
            return bb(lambda: mk_bool(it.eng.ufunc("str_" + attr, zs, z3.BoolSort())(base.t)))
        if attr in ("strip", "lower", "upper", "rstrip", "lstrip"):
            def f(*a):
                if a:
                    # s.strip(chars): an uninterpreted function of the string and the character set
                    c = it.coerce(a[0], TStr)
                    return V(TStr, (it.eng.ufunc("str_" + attr + "_chars", zs, zs, zs)(base.t, c.t),))
                return V(TStr, (it.eng.ufunc("str_" + attr, zs, zs)(base.t),))
            return bb(f)
        if attr == "format":
            def f(*a, **kw):
                lit = _const_key(base)
                if lit is not None and kw and not a:
                    # named fields only: "{x}{y}".format(x=.., y=..)
                    import re as _re

                    pieces = _re.split(r"\{([A-Za-z_][A-Za-z_0-9]*)\}", lit)
                    if any("{" in p or "}" in p for p in pieces[0::2]) or any(n not in kw for n in pieces[1::2]):
                        raise OutOfSubset("str.format form")
                    acc = mk_str(pieces[0])
                    for name, rest in zip(pieces[1::2], pieces[2::2]):
                        acc = s_concat(it, acc, to_str(it, kw[name]))
                        if rest:
                            acc = s_concat(it, acc, mk_str(rest))
                    return acc
                if lit is None or lit.count("{}") != len(a) or "{" in lit.replace("{}", ""):
                    raise OutOfSubset("str.format form")
                parts = lit.split("{}")
                acc = mk_str(parts[0])
                for x, rest in zip(a, parts[1:]):
                    acc = s_concat(it, acc, to_str(it, x))
                    if rest:
                        acc = s_concat(it, acc, mk_str(rest))
                return acc
            return bb(f)
    if isinstance(so, S.TTuple):
        pass
    raise OutOfSubset(f"method {attr} on {so}")


def _as_store(n):
    """the place expression as an assignment target"""
    t = ast.parse(ast.unparse(n), mode="eval").body
    for x in ast.walk(t):
        if hasattr(x, "ctx"):
            x.ctx = ast.Load()
    t.ctx = ast.Store()
    ast.copy_location(t, n)
    ast.fix_missing_locations(t)
    return t
