"""Per-property metadata for the evidence files (level category, what the obligations cover)."""

PROPS = {
    "_common_assumptions": [
        "A-INT Python ints are mathematical integers (true in CPython)",
        "A-TYPES arguments inhabit the sorts given in the contract file (dynamic type errors are not modelled)",
        "A-NOEXC-BUILTIN builtins raise only the exceptions their summaries in pyvc/builtins.py list",
        "A-DICT-ORDER dicts iterate in insertion order; A-SET-ORDER set iteration order is arbitrary",
        "A-NOALIAS containers are values: two distinct fields/locals never alias one mutable container unless the contract models identity explicitly",
        "the encoding of Python semantics in pyvc (engine.py/builtins.py) is itself trusted; it is exercised by seeded mutants and the CPython cross-check",
        "z3 4.x/5.1 and cvc5 1.0.3 are trusted as oracles for unsat",
    ],
    "C33": {
        "category": "proof",
        "harness_modes": ["crosscheck"],
        "explanation": "compare_tags is proved (all tag pairs, all depths) to return the sign of the depth-then-numeric-component order; "
        "irreflexivity, asymmetry, transitivity and totality are lemmas over that contract (totality by a ghost loop); get_tag is proved to "
        "return a deepest tag on every prefix chain; get_job_step_name/get_job_tag are proved against assumed PurePosixPath contracts.",
        "assumptions": [
            "A-STR str.split/int/len are abstracted (str_nsplit, str_part, str_toint, str_len); axioms wf_parts_are_naturals, canonical_decimal_injective, root_tag, prefix_chain_lengths are trusted and validated against CPython by harness/C33.py",
            "A-PATHLIB PurePosixPath(job).parent/.name invert posixpath.join on normalised absolute step names (axiom job_name_splits; validated exhaustively on small paths)",
        ],
    },
    "C17": {
        "category": "proof",
        "harness_modes": ["crosscheck"],
        "explanation": "RollbackFailureManager._update_request is proved to raise FailureHandlingException (without counting or notifying) exactly when "
        "version >= max_retries and otherwise to increment the counter by one and send one ROLLBACK notification, preserving version <= max_retries; "
        "get_request is proved to hand back the same request object (the counter is never reset); DummyFailureManager.recover is proved never to return "
        "and to raise the very exception it was given; the try statement of the @recoverable wrapper is proved to call failure_manager.recover exactly "
        "once for a generic failure, never for cancellation/interrupt/unrecoverable exceptions, and never to swallow an exception raised by recover. "
        "NOT decided: that the workflow raises 'instead of hanging' (liveness), and the call sites of get_request/_update_request in _recover. Added after a second round of seeded changes: RollbackFailureManager._synchronize_workflows is proved to preserve the class invariant version <= max_retries for EVERY registered request and never to lower a count (the upstream jobs a failure drags along are counted through _update_request like the failed one), and _reduce_statuses is proved to return FAILED whenever a FAILED job status is not preceded by a CANCELLED one (a failed job fails its step; match statement supported by the generator).",
        "assumptions": [
            "assumed contracts: Scheduler.notify_status (ghost notification counter), FailureManager.recover and the wrapped coroutine `func` (ghost counters; one representative exception class per except clause), asyncio.Lock()",
            "recoverable.wrapper: only its try statement is verified (mechanically extracted); the argument-discovery statements before it are dropped and `step`, `job` are taken as parameters",
        ],
    },
    "C14": {
        "category": "proof",
        "harness_modes": ["crosscheck"],
        "explanation": "Storage.__add__/__sub__/__or__/__ior__ and Storage.__init__ are proved field-wise (including which exception is raised when); "
        "_reduce_storages is proved, for every sequence of storages, to return a normalised map whose entry for each mount point is the left fold of the "
        "operator over the sizes with that mount point (sum for +, first-minus-rest for -), by a loop invariant over recursive spec functions; "
        "Hardware._normalize_storage/normalized are proved to preserve every per-mount total and to produce a normalised map; Hardware.__add__/__sub__ are proved "
        "per mount point against those totals (aliasing keys and several keys per mount point included, because the spec is over totals); satisfies is proved to "
        "return exactly cores>=, memory>= and per-mount-total>= for every mount point of the requirement, and to raise on a missing mount point. The three laws of "
        "the statement — (h+r)-r restores every per-mount amount, cores and memory; normalisation is idempotent and total-preserving; satisfies iff at least as large — "
        "are lemmas over these contracts. The inductive facts about the folds (concatenation, duplicate-free sequences, unseen mount points) are ghost lemmas "
        "proved by ghost loops.",
        "assumptions": [
            "A-REAL float arithmetic is treated as real arithmetic (with IEEE doubles (0.1+0.2)-0.2 != 0.1; outside this family)",
            "law_add_then_sub_restores is stated for the case that the subtraction returns normally (Hardware.__sub__'s contract says it may raise WorkflowExecutionException, not exactly when)",
            "bodies of any()/all() generator expressions are evaluated as pure specifications (a KeyError inside one is not modelled; in satisfies it is excluded by the preceding key-set test)",
            "Hardware.__or__/__ior__ (deepcopy) are not under contract",
        ],
    },
    "C20": {
        "category": "proof",
        "harness_modes": ["crosscheck"],
        "explanation": "Every mutator of DirectedGraph/DirectedAcyclicGraph (_add_node, add, remove_nodes, remove_node, replace, promote_to_source) is proved to "
        "preserve the representation invariant (same key set, successor and predecessor views mirror each other, edges inside N) and to transform the abstract "
        "view (N, E) exactly: add adds the node(s) and the edge and nothing else; replace renames the node preserving every edge (self loops included), is a no-op "
        "for a missing node and raises ValueError leaving the graph unchanged when the new node exists; remove_nodes removes exactly the returned duplicate-free list and "
        "every edge touching it, removes every requested node that exists, and (when pruning) leaves no survivor that lost a successor without successors; "
        "promote_to_source removes exactly the incoming edges plus the returned ancestors under the same completeness clause. The three nested loops of "
        "remove_nodes carry inductive invariants (set iteration in arbitrary order). Queries (contains, get_nodes, successors, predecessors, empty, get_sources, get_sinks) "
        "are proved equal to the view. NOT proved: minimality of the pruned set (that nothing beyond requested nodes and dead-end ancestors is removed) and "
        "in_degree/out_degree (set cardinality is abstract); GraphMapper's map consistency.",
        "assumptions": [
            "nodes are modelled as integers (only equality and hashing are used by the code)",
            "A-SET-ORDER iteration over a set / list(aset) visits each element once in an arbitrary order; the iterated set is not mutated during the loop (true here: the bodies write other dict entries)",
        ],
    },
    "C13": {
        "category": "proof",
        "harness_modes": ["crosscheck"],
        "depends": [("C28", ["get_binding_config@For#0"])],
        "explanation": "MatchingRule.eval is proved to return exactly 'same deployment, service unset or equal, every port predicate equals str(input value)' "
        "(loop invariant over the predicates); MatchingBindingFilter.get_targets is proved to return exactly the targets admitted by some rule, AS A SEQUENCE in the "
        "declared order, and to raise iff none is admitted; the filter loop of DefaultScheduler.schedule is proved to apply every configured filter, in order, to what "
        "the previous ones kept (fold invariant over a recursive spec function, break/early exit excluded). NOT proved: MatchingBindingFilter.__init__ (JSON-shaped "
        "configuration, outside the subset: covered by the bounded run-time check only), the order in which asyncio starts the per-target tasks and grants the "
        "scheduler lock (assumed FIFO), and the placement policy inside _process_target.",
        "assumptions": [
            "A-ASYNCIO tasks created in list order start in that order and the Condition lock is granted FIFO, so the first surviving declared target is evaluated first",
            "BindingFilter.get_targets (abstract) is summarised by an uninterpreted function flt(filter, job, targets); DefaultScheduler._get_binding_filter returns the one filter instance per configuration name",
            "exceptions raised by eval for a missing port / file-list-object input are excluded by precondition (welltyped)",
        ],
    },
    "C06": {
        "category": "other",
        "harness_modes": ["crosscheck"],
        "explanation": "Fragment. Proved for every instance size and every arrival order: CWLLoopOutputAllStep._process_output returns a fresh ListToken carrying the "
        "instance's tag whose items are exactly the instance's values ordered by NUMERIC iteration index (iteration 10 after 9), and the empty list when no iteration ran; "
        "CWLLoopOutputLastStep._process_output returns the value of the iteration with the greatest numeric index retagged with the instance's tag, and a null value when "
        "no iteration ran. NOT decided here: LoopOutputStep.run (one output per loop instance, emitted when the instance is complete, never terminating early), "
        "LoopCombinatorStep.run's checklist of running instances and the LoopCombinator generators (async generators / event loops outside the current subset); "
        "the run-time check exercises only the two policies. The bounded driver also runs a real LoopCombinatorStep around 1..14 loop instances with different iteration counts (iterations in order, no termination before every instance finished).",
        "assumptions": [
            "Token.__init__, ListToken.__init__ and Token.retag (self.__class__(...)) are assumed contracts (plain field assignments / reflection)",
            "A-SORTED sorted(xs, key=k) returns a permutation of xs ordered by k (stable); the key lambda is evaluated as a pure specification",
            "stream precondition wf_instance: one value per iteration index for each loop instance, indices parse as integers",
        ],
    },
    "C01": {
        "category": "other",
        "harness_modes": ["crosscheck"],
        "depends": [("C33", ["compare_tags"]), ("C02", ["_is_parent_tag"])],
        "explanation": "Fragment (the per-function core). Proved for every list length: ScatterStep._scatter emits element i retagged <tag>.<i> with its value, in list "
        "order, followed by exactly one size token <tag> carrying the length (0 for an empty list); GatherStep._gather emits exactly one ListToken carrying the key as tag "
        "whose items are exactly the key's collected elements ordered by compare_tags, i.e. depth first and then NUMERICALLY per component (compare_tags itself is proved "
        "in C33). Lemmas over these contracts: n strictly increasing naturals below n are 0..n-1 (two ghost inductions), hence whatever the arrival order, position a of "
        "the gathered list holds the element scattered from position a (also for n >= 10). NOT decided by proof: GatherStep.run's event loop (each key gathered exactly "
        "once, at the arrival that completes it, for every interleaving of the element and size streams; forced gather at termination) — covered only by the bounded "
        "run-time round trips (lengths 0..25, shuffled arrival, every size-token position, nested scatter); ScatterStep.run; that intermediate steps are element-wise.",
        "assumptions": [
            "compare_tags' contract (proved in C33) is used as an assumed pure function; A-STR tag_append: t + '.' + str(i) appends the numeric component i",
            "Port.put appends to token_list (C03); BaseStep._persist_token returns the token it was given (C07); Token/ListToken constructors and Token.retag are assumed field assignments",
            "A-SORTED sorted(xs, key=cmp_to_key(c)) returns a permutation of xs ordered by c",
        ],
    },
    "C03": {
        "category": "proof",
        "harness_modes": ["crosscheck"],
        "explanation": "Representation invariant of Port proved for every operation history: one queue object per consumer (no sharing), each holding exactly the "
        "not-yet-delivered tail of token_list. Port.put appends to token_list and to every subscribed queue and touches nothing else; Port._init_consumer hands a late "
        "subscriber the whole history; Port.get returns, for the k-th read of a consumer, token_list[k] — every token exactly once, in put order, including tokens put "
        "before the first read. FilterTokenPort.put delivers exactly the tokens its filter admits (termination tokens always). BoundaryRule.remove_tag/is_satisfied: a rule "
        "is satisfied exactly when nothing but the removed tag was missing. InterWorkflowPort._execute_boundary_action/put (over a ghost log of deliveries): every rule, in "
        "order, fires iff its boundary tag set is complete, delivering the token (PROPAGATE) then a termination token (TERMINATE) to ITS port; the port itself receives the "
        "token exactly once — through a fired rule targeting itself (whatever its action) or else by the default delivery, never both. NOT proved: "
        "InterWorkflowPort.add_inter_port (replay of earlier tokens in put order: covered by the bounded run-time histories only), blocking of get (modelled as a "
        "precondition), 'no token after a termination token' (a producer-side obligation: BaseStep.terminate), re-entrant wiring.",
        "assumptions": [
            "A-ASYNCIO asyncio.Queue is a FIFO sequence; a blocked get resumes only when its queue is non-empty (modelled as a precondition of Port.get)",
            "A-NOREENTRANCY delivering to a boundary port does not call back into the sending port or modify its rules (frame of the assumed Port.put in contracts/C03_inter.py)",
            "boundary rules of one port are distinct objects",
        ],
    },
    "C23": {
        "category": "proof",
        "harness_modes": ["crosscheck"],
        "explanation": "The underlying byte stream is specified only by the chunking contract (read returns ANY non-empty prefix of what was asked for, nothing only at end "
        "of data), so what is proved holds for every chunking. TellableStreamWrapper.read returns exactly the requested bytes (or all that is left) and keeps position equal "
        "to the underlying cursor; SeekableStreamReaderWrapper.seek leaves wrapper and stream at the requested offset or raises ReadError (backward, or data ends first); "
        "write() copies exactly bufsize bytes or raises ReadError and terminates (decreases clause); copyfileobj copies exactly `length` bytes for every buffer size, the "
        "remainder block included; FileStreamReaderWrapper.read (non-sparse member) returns exactly min(size, remaining) bytes of the member or raises — never a short block "
        "without error. Two genuine defects found by these obligations were repaired in /repo (fix: commits 8bf7c1a, c23a6af). NOT proved: the header codec inherited "
        "from CPython's tarfile, compression wrappers, sparse members, AioTarStream.__anext__'s error mapping (recorded finding KF-C23-header-boundary-truncation), "
        "the writer side beyond copyfileobj; these are exercised only by the bounded run-time round trips against CPython's tarfile.",
        "assumptions": [
            "the chunking contract on StreamWrapper.read/write is the environment assumption (final: assumed for every implementation)",
            "bytes are modelled as integer sequences; size=None (read to end) variants of TellableStreamWrapper.read/copyfileobj are not covered",
            "A-TARFILE header encode/decode, TarInfo._block and error classes are CPython's (trusted)",
        ],
    },
    "C28": {
        "category": "proof",
        "harness_modes": ["crosscheck"],
        "explanation": "The StreamFlow file is modelled as records (JSON dicts with a fixed key vocabulary; optional keys distinguished from present-but-None). "
        "Proved for every path, trie and deployment table: WorkflowConfig.propagate returns the attribute of the deepest node on the path that carries it (the binding of the "
        "path itself or of its nearest bound ancestor), `default` otherwise; WorkflowConfig.get is the exact lookup; _get_workdir returns the deployment's own workdir or "
        "else the first one along its wraps chain and terminates (decreases on the acyclicity rank); the target loop of get_binding_config builds one Target per declared "
        "target IN THE DECLARED ORDER, on the declared deployment and service, whose DeploymentConfig.workdir is the chain workdir; Target.__init__ takes its own workdir "
        "or else the deployment's; get_wraps_config; set_targets (one tree level, the recursion through its own contract): port nodes and everything at or above the "
        "current level are untouched, every other child carries its own step target or the inherited one. NOT proved (bounded run-time check only): "
        "WorkflowConfig.put/_process_binding/__init__ (trie construction), _check_stacked_deployments (rejection of cyclic wraps chains; the acyclicity it establishes is the "
        "precondition wf_wraps of the proofs above), the plain-string form of `wraps`, the equivalence of set_targets with propagate over the whole tree.",
        "assumptions": [
            "A-JSON-RECORD dicts with a fixed vocabulary of keys are records; a key that is absent and a key that is not declared are the same",
            "DeploymentConfig/WrapsConfig constructors are assumed field assignments; os.path/posixpath/tempfile calls in Target.__init__ are uninterpreted",
            "recursive spec functions nearest/exact/chain_workdir read the heap; they are only used in functions that are proved not to write those fields (frame obligations)",
        ],
    },
    "C32": {
        "category": "other",
        "harness_modes": ["crosscheck"],
        "explanation": "Fragment. remap_path is proved equal to its functional description over abstract path functions (plain path: rebase of the unquoted relative path; "
        "file:// location: the same under the file:// prefix; any other URL scheme: unchanged). Lemmas over that contract and the trusted os.path/urllib axioms: remapping "
        "there and back restores plain paths and file:// locations whose names contain no %XX escape; other schemes are unchanged. The statement's clause for names "
        "containing percent signs does NOT hold (recorded finding KF-C32-percent-names, lemma roundtrip_any_name). NOT decided by proof: remap_token_value's recursion through "
        "secondaryFiles, listing, arrays and records (dynamic JSON values with `match` on their class: outside the subset) — covered by the bounded run-time round trips only.",
        "assumptions": [
            "A-OSPATH rebase_inverts_relpath, rebase_lands_under; A-URLLIB unquote_identity; A-STR contains_is_plain, file_url_shape — validated against CPython on every run",
            "idiom rewrite: path_processor.join(d, *rel.split(sep)) is read as join-of-split(d, rel, sep) (assumed contract over the unsplit string)",
        ],
    },
    "C25": {
        "category": "other",
        "harness_modes": ["crosscheck"],
        "explanation": "Fragment. 'Verbatim' is the structural obligation that every user-supplied value enters the command text only as shlex.quote(value) (one shell "
        "word that sh expands to exactly the value; trusted, validated against /bin/sh on every run). Proved for all strings: create_command (fresh process; default "
        "redirections) renders the working directory and every environment value as quoted words — this obligation FAILED on the pinned tree and the defect was repaired "
        "(fix: f0cd742); _build_shell_command (persistent shell) runs a command that has an environment or a working directory in a CHILD `sh -c <one quoted word>` with the "
        "directory and every value quoted, followed by the end marker with the exit status (so nothing leaks into the long-lived shell). BaseConnector.run hands the command "
        "to an executor at least once and at most twice; 'exactly once' does NOT hold (recorded finding KF-C25-timeout-reexecution). NOT decided by proof: the framing "
        "of the shell's output stream in BaseShell._read_with_output/_read_without_output (marker search, incremental UTF-8 decoding, status parsing), run_in_subprocess "
        "(OS process semantics), CommandTemplateMap.get_command (jinja2; recorded finding KF-C25-template-env-quoting) — exercised by the bounded run-time comparison "
        "of the persistent shell against fresh processes only.",
        "assumptions": [
            "A-SHLEX/A-SH a POSIX shell expands shlex.quote(x) to the single word x; `sh -c WORD` runs in a child process",
            "assumed summaries of run_in_shell (may fail before or after starting the command), run_in_subprocess, create_command (inside BaseConnector.run), get_shell",
            "string concatenation is kept in canonical right-nested form (associativity and the empty unit hold syntactically)",
        ],
    },
    "C11": {
        "category": "other",
        "harness_modes": ["crosscheck"],
        "contract_module": "C11",
        "explanation": "Fragment. With a ghost flag `reserved` per job allocation (set when _allocate_job charges the job, cleared by _free_resources, both assumed), "
        "DefaultScheduler.notify_status is proved, for every previous/new status pair of the engine's protocol and every allocation table: the new status is recorded and no "
        "other job's allocation is touched; _free_resources is called only on a reservation that exists (its precondition is an obligation at the call site) and at most once "
        "per notification; afterwards the job's hardware is reserved exactly if the job is FIREABLE or RUNNING; the scheduler's condition variable is notified exactly once, "
        "while its lock is held, whenever the allocation exists (no status change without a wake-up); a rolled-back job leaves its locations. The same clause without the "
        "protocol restriction is REFUTED (recorded finding KF-C11-out-of-order-notifications). NOT decided by proof: _allocate_job / _free_resources / _is_valid / "
        "_process_target themselves (the amounts charged per stacked level, capacity checks, placement) — they are exercised by the bounded run-time histories on the real "
        "scheduler only (capacity never exceeded, reserved == sum over fireable and running jobs, a fitting request does not stay waiting)."
        "",
        "assumptions": [
            "assumed contracts: DefaultScheduler._free_resources (requires a reservation, clears it), Condition.notify_all (requires the lock), get_connector",
            "A-ASYNCIO cooperative scheduling: the body of `async with self.wait_queue` runs with the lock held",
            "job allocations of different job names are different objects",
        ],
    },
    "C12": {
        "category": "other",
        "harness_modes": ["crosscheck"],
        "contract_module": "C11",
        "ignore_known_clauses": True,
        "explanation": "Fragment. With a ghost flag `reserved` per job allocation (set when _allocate_job charges the job, cleared by _free_resources, both assumed), "
        "DefaultScheduler.notify_status is proved, for every previous/new status pair of the engine's protocol and every allocation table: the new status is recorded and no "
        "other job's allocation is touched; _free_resources is called only on a reservation that exists (its precondition is an obligation at the call site) and at most once "
        "per notification; afterwards the job's hardware is reserved exactly if the job is FIREABLE or RUNNING; the scheduler's condition variable is notified exactly once, "
        "while its lock is held, whenever the allocation exists (no status change without a wake-up); a rolled-back job leaves its locations. The same clause without the "
        "protocol restriction is REFUTED (recorded finding KF-C11-out-of-order-notifications). NOT decided by proof: _allocate_job / _free_resources / _is_valid / "
        "_process_target themselves (the amounts charged per stacked level, capacity checks, placement) — they are exercised by the bounded run-time histories on the real "
        "scheduler only (capacity never exceeded, reserved == sum over fireable and running jobs, a fitting request does not stay waiting)."
        "C12 itself (a fitting request is EVENTUALLY granted) is a liveness property; only the safety half above is decided.",
        "assumptions": [
            "assumed contracts: DefaultScheduler._free_resources (requires a reservation, clears it), Condition.notify_all (requires the lock), get_connector",
            "A-ASYNCIO cooperative scheduling: the body of `async with self.wait_queue` runs with the lock held",
            "job allocations of different job names are different objects",
        ],
    },
    "C10": {
        "category": "other",
        "harness_modes": ["crosscheck"],
        "contract_module": "C11",
        "depends": [("C14", ["Hardware.satisfies", "Hardware.__sub__", "Hardware.__add__", "Hardware.normalized", "Hardware._normalize_storage", "_reduce_storages"]),
                    ("HW", ["Hardware.get_storage", "Hardware.get_mount_point", "DefaultScheduler._is_valid"])],
        "ignore_known_clauses": True,
        "explanation": "Fragment. DefaultScheduler._is_valid (the capacity check) is proved to accept a location only if the location itself has room for the requirement computed for it — what is left after the reservations satisfies it, ALSO when nothing is reserved there yet, or fewer occupying jobs than slots — and, when it is stacked on another location, only if that one has room too; and to accept a non-stacked location that has room (Hardware.__sub__ / satisfies enter as the spec functions proved in C14; deeper stack levels are checked by the same loop body but the contract speaks of the first two). Hardware.get_storage / get_mount_point (the lookups that decide on WHICH storage of a location a job directory is booked) are proved to return "
        "the first storage whose mount point is the path or that the path was resolved to before, and to raise KeyError otherwise (a path merely beneath a mount point must be "
        "resolved on the location: a deeper volume may be mounted in between). "
        "With a ghost flag `reserved` per job allocation (set when _allocate_job charges the job, cleared by _free_resources, both assumed), "
        "DefaultScheduler.notify_status is proved, for every previous/new status pair of the engine's protocol and every allocation table: the new status is recorded and no "
        "other job's allocation is touched; _free_resources is called only on a reservation that exists (its precondition is an obligation at the call site) and at most once "
        "per notification; afterwards the job's hardware is reserved exactly if the job is FIREABLE or RUNNING; the scheduler's condition variable is notified exactly once, "
        "while its lock is held, whenever the allocation exists (no status change without a wake-up); a rolled-back job leaves its locations. The same clause without the "
        "protocol restriction is REFUTED (recorded finding KF-C11-out-of-order-notifications). NOT decided by proof: _allocate_job / _free_resources / _is_valid / "
        "_process_target themselves (the amounts charged per stacked level, capacity checks, placement) — they are exercised by the bounded run-time histories on the real "
        "scheduler only (capacity never exceeded, reserved == sum over fireable and running jobs, a fitting request does not stay waiting)."
        "For C10 the proof contributes only the release side (nothing is released that was not reserved, so reservations never go negative and capacity checks see true usage); the capacity clause itself is bounded-only.",
        "assumptions": [
            "assumed contracts: DefaultScheduler._free_resources (requires a reservation, clears it), Condition.notify_all (requires the lock), get_connector",
            "A-ASYNCIO cooperative scheduling: the body of `async with self.wait_queue` runs with the lock held",
            "job allocations of different job names are different objects",
        ],
    },
    "C21": {
        "category": "other",
        "harness_modes": ["crosscheck"],
        "explanation": "Fragment. Proved for every tree, path and history of the registry: (1) _RemotePathMapper.get walks the tree along the components of the "
        "path (spec function node_at, lemmas missing_component_ends_the_walk / walk_defined_on_prefixes by ghost induction), returns nothing for an unknown path, "
        "returns only locations stored at the node of the path under the requested deployment and location name that pass the type filter, and — when deployment and "
        "name are both given (the availability question) — leaves out none of them; (2) DefaultDataManager.get_data_locations reports exactly the non-INVALID ones of "
        "those; (3) DefaultDataManager.get_source_location returns None or a location that is PRIMARY at the moment it is returned (every `await available.wait()` is "
        "modelled as arbitrary interference on every data_type) and is one of the reported locations; (4) _RemotePathMapper.invalidate_location, under the "
        "representation invariant `filed` (a location is stored under its own deployment/name and its own path is a path of the tree) and `mirrored` (valid_paths has "
        "the same keys), raises no KeyError, marks every location stored at the node for that location INVALID, never makes anything valid again and changes no location "
        "of another deployment or location name (\"nothing on other locations\"), recursion by its own contract. NOT decided by proof: that invalidation reaches "
        "everything BENEATH the path (needs the invariant that every stored location is also stored at the node of its own path — exactly what the recorded finding "
        "KF-C21-duplicate-registration breaks), _RemotePathMapper.put / register_path / register_relation (setdefault chains and reversed() on a dict are outside the "
        "verifier's subset), termination of the recursion. Those are covered by the bounded run-time comparison of random register / relate / invalidate histories "
        "(wrapped locations with mount points included) against a reference model written from the statement (harness/C21.py).",
        "assumptions": [
            "extern contracts: pathlib.Path(path).parts is a function of the path text (parts_of); asyncio.Event.wait() may change any DataLocation.data_type",
            "DataLocation.deployment / .name are inlined from streamflow/core/data.py (properties)",
            "recursive spec function node_at reads _RemotePathNode.children; it is only used in functions proved not to write that field",
            "the representation invariants `filed` and `mirrored` are preconditions of invalidate_location; they are established by put(), which is not under contract (run-time check only)",
            "dict.get(k, set()) on a dict of lists is read as the empty list (the default is only iterated)",
            "termination of invalidate_location's recursion is not proved",
        ],
    },
    "C24": {
        "category": "other",
        "harness_modes": ["crosscheck"],
        "explanation": "Fragment. The connectors join the command list with blanks and run it through `sh -c`, so agreement with the local filesystem FOR ANY PATH NAME "
        "needs, structurally, that a path enters the command only as one quoted shell word. Proved for every path text, target text, mode and flag combination: the "
        "command list that RemoteStreamFlowPath.exists / is_dir / is_file / is_executable / is_symlink / checksum / chmod / mkdir / read_text / rmtree / size / symlink_to / "
        "hardlink_to hands to Connector.run (ghost log LOG.cmds) is exactly the fixed command of that operation with the path (and the link target) inserted as "
        "shlex.quote(text) — or nothing is run here because the operation is delegated to the inner path of a wrapped location, whose own contract speaks for it; `-p` is "
        "passed to mkdir exactly when parents or exist_ok, `-h` to chmod exactly when not follow_symlinks, `head -c n` exactly when n >= 0. On the pinned tree nine of "
        "these obligations failed (unquoted or double-quoted paths): repaired in /repo (fix 0509690). NOT decided by proof: what the commands DO (the semantics of "
        "test/mkdir/ln/find/sha1sum and of shlex.quote under /bin/sh), the parsing of their output (glob, walk, size, checksum), write_text's streaming, resolve, and the "
        "local side. Those are covered by the bounded run-time comparison of random operation histories on two equal directory trees (names with blanks, quotes, `$`, "
        "backticks, glob characters, leading dashes, unicode, tabs, backslashes; contents with trailing newlines), which also found the checksum, glob and walk defects "
        "repaired in /repo and the three recorded findings. File names containing a newline are not generated (line-based parsing of find/printf output).",
        "assumptions": [
            "A-SHLEX/A-SH shlex.quote(x) is one shell word that /bin/sh expands to exactly x (validated by harness/C25.py against /bin/sh)",
            "extern contracts: Connector.run records its command list in the ghost log; RemoteStreamFlowPath.__str__ is the path text; _get_inner_path returns some path; the operations of the inner path (StreamFlowPath.*) are assumed not to use this method's ghost log",
            "f\"{mode:o}\" is the uninterpreted function octal(mode); str(n) of an int is uninterpreted",
            "size(): int() of the command output may raise ValueError for non-ASCII digits (not excluded)",
        ],
    },
    "C09": {
        "category": "other",
        "harness_modes": ["crosscheck"],
        "explanation": "Fragment. Cache coherence is an invariant — every cached row equals the stored row — that each public operation must preserve. Proved for every "
        "cache content, id and update: update_deployment / update_filter / update_port / update_step / update_target / update_workflow drop exactly the entry `id` from the "
        "cache of THEIR table, leave every other entry of that cache and all six other caches as they were (frame obligations), and return the id; update_execution touches "
        "no cache. For the six cached getters the arguments of the @cached decorator are read from the real source (decorator units): the cache named by the lambda is the "
        "cache that the matching update_* invalidates (identity of the cache object, for every heap), and rows are handed out through postprocess_deepcopy_mutables (a caller "
        "editing a returned row, at any depth, cannot reach the cached one). On the pinned tree the second clause failed (shallow copies; repaired in /repo, fix 795c2d3). "
        "NOT decided by proof: the SQL text (that update_x updates table x, that get_x selects by id), the behaviour of cachebox.cached itself (key = the id, miss => call and "
        "insert, hit => postprocess(cached)), the uncached multi-row getters, and interleavings of a read with an update on the event loop. Covered by the bounded run-time "
        "histories of harness/C09.py: random inserts, updates, reads and in-place edits of returned rows over all seven tables, every row compared after every step with the "
        "uncached function under the decorator.",
        "assumptions": [
            "cachebox 6.2 (read from its Python sources _wrappers.py/utils.py): the key of cached(cache=lambda self: ...) for one int argument is that int (self excluded); a hit returns postprocess(cached value); LRUCache(maxsize=sys.maxsize) never evicts",
            "extern contracts: SqliteConnection.__aenter__, Db.execute (arguments not evaluated: the SQL text and parameters are not analysed), Stmt.__aenter__",
            "decorator units read only the keyword arguments of @cached(...); a lambda is applied to `self`, any other argument is compared as source text",
            "in this sandbox the native driver runs against devshim/cachebox (pure Python stand-in written from those sources), not the compiled cachebox",
        ],
    },
    "C02": {
        "category": "other",
        "harness_modes": ["crosscheck"],
        "explanation": "Fragment. Proved for all strings and lists: _is_parent_tag(tag, parent) is true exactly when parent has no more dot-separated components than tag and "
        "the leading components of tag are the components of parent (component-wise, so 0.1 is not a parent of 0.10); Combinator._add_to_port appends the token to the list "
        "of its port (creating it) and touches no other port; CartesianProductCombinator._add_to_port appends unless a token with the same tag is already there, in which case "
        "the list is unchanged (loop invariant). NOT decided by proof: combine / _product / _add_to_list / dict_product are (async) generators over nested dict-of-dict-of-deque "
        "state, outside the verifier's subset; the statement's main clauses — exactly one combination per deepest tag with broadcasting of shallower tags, the full cross "
        "product with composite tags, composition of nested combinators, and independence from the arrival order — are decided only by the BOUNDED run-time check of "
        "harness/C02.py: generated token streams (0..4 tokens per port, tag depth 1..3, indices 0/1/2/10/11, parent/child mixes, three ports at three depths), flat and nested "
        "trees (dot, cartesian, dot over cartesian), EVERY arrival permutation up to 6 tokens and 150 sampled orders beyond, compared with the combinations the statement "
        "prescribes. A cartesian product over an inner combinator fails for every input (recorded finding).",
        "assumptions": [
            "A-STR str.split is abstracted (number of parts, i-th part)",
            "collections.deque() is modelled as a list (append, iteration); the dict of port lists is insertion-ordered",
        ],
    },
    "C07": {
        "category": "other",
        "harness_modes": ["crosscheck"],
        "depends": [("C01", ["ScatterStep._scatter", "GatherStep._gather"], "only_tagged")],
        "explanation": "Fragment. With a ghost model of the token and provenance tables (row ids increase; depender -> set of dependees), BaseStep._persist_token is proved, "
        "for every token, input-id list and table state: a token that already has an id is refused (WorkflowDefinitionException) before anything is written; the token is saved "
        "exactly once and gets the next id; if an input id is missing the step fails (WorkflowExecutionException) instead of recording a shorter link set; otherwise the token is "
        "linked to EXACTLY the given ids (none for an empty list), no other record changes, and the invariant 'every dependee id is smaller than its depender id' is preserved — "
        "so the recorded relation is contained in <, hence acyclic, with every dependee persisted first. get_entity_ids is proved to return exactly the ids of the persisted "
        "entities. SqliteDatabase.add_provenance is proved to hand executemany one (dependee, depender) row per input id, all of them. Two CALL SITES are proved too (clauses `ensures_for(\"C07\", ...)` of the C01 units, re-proved here; a ghost log records, per _persist_token call, "
        "the token, the port and the ENTITIES whose ids were passed): ScatterStep._scatter links every emitted element and the size token to exactly the scattered list token, each "
        "persisted for the port it is put on; GatherStep._gather links the gathered list to the size token of the key followed by every collected element of the key. "
        "NOT decided by proof: the other ~33 call sites of _persist_token inside the steps' run loops, Token.save itself, the SQL. Covered by the bounded run-time check: real "
        "transformers (1..3 ports, tags arriving in independent orders per port), gathers of 1..40 elements with a delivered or a synthesised size token, and a real scatter in "
        "front of a gather are executed by the real executor and the WHOLE provenance table is compared with the construction.",
        "assumptions": [
            "extern contracts: Token.save hands out increasing row ids (SQLite AUTOINCREMENT) and requires an unsaved token; Database.add_provenance adds the links it is given; Db.executemany records its rows",
            "`if token.persistent_id` treats the id 0 like None (ids start at 1)",
        ],
    },
    "C26": {
        "category": "other",
        "technique": "BOUNDED run-time check of random interleavings against the statement's five clauses (harness/C26.py) decides the property; only three sequential contracts (deploy, get_connector, _set_failed) are proved by pyvc",
        "harness_modes": ["crosscheck"],
        "explanation": "BOUNDED ONLY for the property itself. The lifecycle is a protocol over interleavings of coroutines (_deploy, _inner_deploy, undeploy, the per-deployment "
        "events); the verifier has no yield-point invariants, so no clause of C26 is proved. The only obligations are three sequential contracts: deploy() leaves the deployment "
        "holding itself (its own name in its dependency set), get_connector returns the registered connector or None, and _set_failed (the code path of a failed deployment) "
        "removes the deployment from the live map, discards it from EVERY dependency set while no other member and no key of the graph changes, and sets its event (the loop "
        "over dependency_graph.values() is read as a keyed loop with write-back, assuming distinct set objects per key). The property is decided, bounded, by harness/C26.py: "
        "random interleavings (600 per quick run; event-loop turns drawn at random before and inside every request and inside the fake connectors) of 1..4 concurrent deploy / "
        "use requests followed by 0..3 concurrent undeploy requests and undeploy_all, over a wraps chain inner <- mid <- outer of instrumented fake connectors, each lazy or eager, "
        "with an injected deploy failure in a third of the runs; the connectors' call log is checked against the five clauses of the statement. A deploy request racing with an "
        "undeploy of the same chain is not generated (the statement does not define its outcome; the implementation answers it with 'FAILED deployment'). On the pinned tree this "
        "check found three defects, repaired in /repo (d7b60d1, 88eb9dc).",
        "assumptions": [
            "assumed contract: DefaultDeploymentManager._deploy returns only for a registered deployment",
            "bounded: nothing about interleavings is proved; cooperative scheduling is exercised only through the random event-loop turns of the driver",
        ],
    },
    "C27": {
        "category": "other",
        "harness_modes": ["crosscheck"],
        "explanation": "Fragment. Proved: the polling loop of QueueManagerConnector.run (statement unit While#0, mechanically extracted) ends only on a listing of the queued jobs "
        "that does not contain the job id, every listing is requested while the jobs-cache lock is held, and the lock is released when the loop ends; "
        "SlurmConnector._get_running_jobs asks squeue for ALL the scheduled job ids and for every state in which a job is still in the queue (COMPLETING included), and its "
        "@cached decorator names the per-connector jobs cache under the constant key (one shared listing per polling interval). NOT decided by proof: that the cache is cleared "
        "under the lock after a submission (the statements before the loop), the freshness of a cached listing (TTL), _get_output / _get_returncode, undeploy, the other queue "
        "managers (PBS, Flux). Covered, bounded, by harness/C27.py: the real SlurmConnector over a LocalConnector against fake sbatch / squeue / scontrol / scancel whose queue is "
        "a directory; 1..6 concurrent jobs with random pending / running / completing times (several ending within one polling interval), slow squeue answers, polling intervals "
        "0.1..0.3 s; every run() must return after its job left the queue with that job's final output and exit code; a random undeploy must cancel exactly the registered "
        "jobs. On the pinned tree undeploy always failed (repaired in /repo, 1e124dc).",
        "assumptions": [
            "extern contract: _get_running_jobs requires the cache lock to be held; asyncio.sleep; logger",
            "the While#0 unit takes `self`, `location`, `job_id` as parameters: everything of run() outside the loop is dropped",
            "in this sandbox the driver runs against devshim/cachebox (TTLCache with expiry on lookup), not the compiled cachebox",
        ],
    },
    "C08": {
        "category": "other",
        "harness_modes": ["crosscheck"],
        # "two loads of the same record are equal but independent": the getters hand out deep copies of the cached rows (proved as
        # decorator units in contracts/C09.py; re-proved here so that a change of one of them is reported for C08 too)
        "depends": [("C09", ["SqliteDatabase.get_deployment@decorator:cached", "SqliteDatabase.get_filter@decorator:cached", "SqliteDatabase.get_port@decorator:cached",
                             "SqliteDatabase.get_step@decorator:cached", "SqliteDatabase.get_target@decorator:cached", "SqliteDatabase.get_token@decorator:cached"])],
        "explanation": "Fragment: the save / load PAIRS that are straight-line code are proved, each round trip as a lemma over the two contracts of the pair. "
        "(1) contracts/C08.py — the base Token: save() writes the token at most once (a token that already has an id, or whose save is in flight, is not written "
        "again; the second saver returns only after the first one has set its event; the event is set on every way out, by try/finally), the one add_token call carries exactly the "
        "token's own tag, value, recoverable flag and the given port, and the token takes the id the database hands out; Token._load builds a fresh token with exactly the tag, "
        "value and recoverable flag of the row and no persistent id. "
        "(2) contracts/C08_config.py — Config.save/load, WrapsConfig.save/load (the optional `service` key is written exactly when there is a service and read back as None "
        "when absent), FilterConfig.save/load, DeploymentConfig.save/load (all eight fields, the two nested configurations as the rows their own save() produces), Target.save "
        "(saves its deployment first and stores ITS id with the target's own locations, service and working directory), Target._load, LocalTarget._load, against ghost tables "
        "id -> row (records); lemmas config_round_trip, wraps_round_trip, filter_round_trip, deployment_round_trip, target_round_trip: the loaded object has the same fields. "
        "Every three-branch save() is proved to write at most once, to keep an id once assigned, and to return only with an id (the second saver resumes from Event.wait, "
        "modelled as a yield point with a stated rely condition). "
        "(3) contracts/C08_steps.py — Port.save, Port._load and, for GatherStep, ScatterStep, TransferStep, InputInjectorStep, DeployStep, CombinatorStep: the constructor "
        "(which port is wired under which name, registered in the workflow without replacing a port of that name), _save_additional_params (the params dict as a record: exactly "
        "the keys, each carrying the field / the persistent id it should; GatherStep, ScatterStep and DeployStep save what they refer to first, so the stored id is never None) and "
        "_load (every key goes to the constructor argument it came from; ports are resolved through the loading context and referred to by name); lemmas "
        "gather/scatter/transfer/input_injector/deploy/combinator_step_round_trip: same name, depth, deployment, combinator, and the port wired under each name is the port the "
        "context loads from the id it was saved under. "
        "(4) contracts/C08_tokens.py — ListToken._save_value (every element is saved first; one id per element, in list order, repetitions kept, none of them None) and "
        "ListToken._load (position j is the token the context loads from id j); lemma list_token_round_trip. asyncio.gather(*(create_task(f(x)) for x in xs)) is read as a "
        "list comprehension when f is a pure lookup, and as a call of the PROVED lemma gather_save (ghost loop over Token.save) when f is save(). "
        "(5) contracts/C08_hw.py — CWLHardwareRequirement: the constructor keeps every GIVEN resource as given (0 is a value, not 'unset'), _save_additional_params writes all six "
        "keys with the requirement's own values, _load hands each back to the argument it came from; lemma hardware_requirement_round_trip. "
        "(6) 'two loads are independent': the six @cached getters of SqliteDatabase hand out deep copies of the cached rows (decorator units of contracts/C09.py, re-proved here). "
        "NOT decided by proof: the other pairs whose code is a concurrent map over a dict or builds dicts with zip (Combinator.save/load and its subclasses, ObjectToken, "
        "ExecuteStep, BindingConfig, ScheduleStep, Workflow.save/load, Step.save/load), CWL processors, commands and transformers, Job/JobToken, the loading contexts, the SQL. "
        "Covered, bounded, by harness/C08.py: random token trees (nested list/object tokens over JSON values with unicode, the same token instance reachable from two containers "
        "and saved concurrently), random workflow graphs (scatter, gather, combinator and loop-combinator steps with nested dot / cartesian / loop combinators, plain / job / "
        "connector ports), random targets / deployments (wraps, policies, working directories with blanks, empty-string services) / filters and workflows with deploy and schedule "
        "steps are saved and loaded twice through fresh contexts, compared structurally, edited in place to check independence, and deep-copied through the "
        "WorkflowBuilder; CWL processor trees and the hardware requirements of CWL schedule steps (zero, default-valued, fractional, expression and unset resources) are compared attribute by attribute. One port wired twice to a step does not survive (recorded finding).",
        "assumptions": [
            "extern contracts: Database.add_token / add_filter / add_deployment / add_target / add_port store exactly their keyword arguments under a fresh id and get_<x> returns the stored row (SQL and the JSON column encoding are not modelled); asyncio.Event; Token._save_value returns the value (plain tokens)",
            "A-JSON-RECORD rows and params dicts are records with the declared key vocabulary; a dict literal is an instance of the record class the unit is declared to return",
            "A-YIELD Event.wait is the only modelled yield point of save(): on resumption the entity whose _saving is this event has an id, and ids once assigned never change (rely condition; the first-saver path is proved to establish it); other interference during `await` is not modelled",
            "loading contexts: load_port / load_workflow / load_deployment are functions of the persistent id (spec functions loaded_*); Combinator.save / Combinator.load are assumed functions (saved_combinator / loaded_combinator); Workflow.create_port returns a fresh registered port",
            "A-GATHER-SEQ asyncio.gather over create_task(...) is modelled as running the tasks one after the other in list order (interleavings at the tasks' await points are not modelled); Token.save's summary in contracts/C08_tokens.py (returns with an id; ids stable) is an extern there: contracts/C08.py proves id stability and 'the first saver returns normally only with an id'; that a caller which found a save in flight also resumes with an id is ASSUMED (false only if that other save failed, in which case the workflow fails through its exception)",
            "`{} | d` is d (A-NOALIAS); Token._load / Port._load / <Step>._load are verified with cls = the class itself",
            "TransferStep / InputInjectorStep store the id the job port has NOW: the round-trip lemmas assume the port has been saved (Workflow.save saves ports before steps; that call order is not under contract)",
        ],
    },
}
