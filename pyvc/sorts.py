"""Sorts and symbolic values for pyvc.

Every Python-level sort flattens into a tuple of z3 "leaf" terms (struct-of-arrays):
a value of sort S is `V(S, terms)` with `len(terms) == len(S.leaves())`.  Containers lift the
leaves of their element sort through one more array dimension, so that nothing is ever packed
into a z3 datatype and equality stays the *Python* equality (quantified for lists/dicts).
"""
from __future__ import annotations

import itertools

import z3

RefS = z3.DeclareSort("Ref")
ValS = z3.DeclareSort("Val")
StrAbs = z3.DeclareSort("Str")

_counter = itertools.count()


def reset_names():
    global _counter
    _counter = itertools.count()


def fresh_name(prefix: str) -> str:
    return f"{prefix}!{next(_counter)}"


class Sort:
    name = "?"

    def leaves(self):  # list[(suffix, z3sort)]
        raise NotImplementedError

    def fresh(self, prefix):
        n = fresh_name(prefix)
        return V(self, tuple(z3.Const(n + sfx, zs) for sfx, zs in self.leaves()))

    def const(self, name):
        return V(self, tuple(z3.Const(name + sfx, zs) for sfx, zs in self.leaves()))

    def eq(self, a, b):
        """Python `==` on two values of this sort, as a z3 Bool."""
        assert len(a.terms) == len(b.terms)
        return z3.And(*[x == y for x, y in zip(a.terms, b.terms)]) if a.terms else z3.BoolVal(True)

    def ite(self, c, a, b):
        return V(self, tuple(z3.If(c, x, y) for x, y in zip(a.terms, b.terms)))

    def truthy(self, a):
        return z3.BoolVal(True)

    def __repr__(self):
        return self.name

    def __eq__(self, other):
        return isinstance(other, Sort) and repr(self) == repr(other)

    def __hash__(self):
        return hash(repr(self))

    # lifting through an index sort (struct of arrays)
    def lifted(self, idx):
        return [(sfx, z3.ArraySort(idx, zs)) for sfx, zs in self.leaves()]

    def select(self, arrs, i):
        return V(self, tuple(z3.Select(a, i) for a in arrs))

    def store(self, arrs, i, v):
        return tuple(z3.Store(a, i, t) for a, t in zip(arrs, v.terms))


class V:
    __slots__ = ("sort", "terms", "meta")

    def __init__(self, sort, terms, meta=None):
        self.sort = sort
        self.terms = tuple(terms)
        self.meta = meta

    @property
    def t(self):
        assert len(self.terms) == 1, f"not atomic: {self.sort}"
        return self.terms[0]

    def __repr__(self):
        return f"<{self.sort}:{', '.join(str(t) for t in self.terms)}>"


class _Atomic(Sort):
    zsort = None

    def leaves(self):
        return [("", self.zsort)]


class TIntC(_Atomic):
    name = "Int"
    zsort = z3.IntSort()

    def truthy(self, a):
        return a.t != 0


class TBoolC(_Atomic):
    name = "Bool"
    zsort = z3.BoolSort()

    def truthy(self, a):
        return a.t


class TRealC(_Atomic):
    name = "Real"
    zsort = z3.RealSort()

    def truthy(self, a):
        return a.t != 0


class TStrC(_Atomic):
    """Strings.  mode 'abstract': uninterpreted sort with literal constants and uninterpreted
    operations (A-STR); mode 'z3': native z3 strings."""

    name = "Str"
    mode = "abstract"

    @property
    def zsort(self):
        return StrAbs if TStrC.mode == "abstract" else z3.StringSort()

    def leaves(self):
        return [("", self.zsort)]

    def truthy(self, a):
        return a.t != str_lit("")


_str_lits: dict[str, z3.ExprRef] = {}


def str_lit(s: str):
    if TStrC.mode == "z3":
        return z3.StringVal(s)
    if s not in _str_lits:
        safe = "".join(c if (c.isalnum() or c in "_.-") else f"_x{ord(c):02x}_" for c in s)
        _str_lits[s] = z3.Const(f"strlit.{len(_str_lits)}.{safe}", StrAbs)
    return _str_lits[s]


def str_lit_axioms():
    if TStrC.mode == "z3" or len(_str_lits) < 2:
        return []
    return [z3.Distinct(*_str_lits.values())]


class TValC(_Atomic):
    name = "Val"
    zsort = ValS


class TRef(_Atomic):
    zsort = RefS

    def __init__(self, cls=None):
        self.cls = cls
        self.name = f"Ref[{cls}]" if cls else "Ref"


class TNoneC(Sort):
    name = "None"

    def leaves(self):
        return []

    def truthy(self, a):
        return z3.BoolVal(False)


class TOpt(Sort):
    def __init__(self, inner):
        self.inner = inner
        self.name = f"Opt[{inner}]"

    def leaves(self):
        return [("?", z3.BoolSort())] + [("." + s if s else ".", zs) for s, zs in self.inner.leaves()]

    def isnone(self, a):
        return a.terms[0]

    def payload(self, a):
        return V(self.inner, a.terms[1:])

    def some(self, v):
        return V(self, (z3.BoolVal(False),) + v.terms)

    def none(self):
        d = self.inner.fresh("nonepayload")
        return V(self, (z3.BoolVal(True),) + d.terms)

    def eq(self, a, b):
        return z3.And(
            a.terms[0] == b.terms[0],
            z3.Implies(z3.Not(a.terms[0]), self.inner.eq(self.payload(a), self.payload(b))),
        )

    def truthy(self, a):
        return z3.And(z3.Not(a.terms[0]), self.inner.truthy(self.payload(a)))


class TList(Sort):
    def __init__(self, elem):
        self.elem = elem
        self.name = f"List[{elem}]"

    def leaves(self):
        return [("#", z3.IntSort())] + [("[]" + s, zs) for s, zs in self.elem.lifted(z3.IntSort())]

    def length(self, a):
        return a.terms[0]

    def at(self, a, i):
        return self.elem.select(a.terms[1:], i)

    def make(self, n, arrs):
        return V(self, (n,) + tuple(arrs))

    def empty(self):
        d = self.fresh("emptylist")
        return V(self, (z3.IntVal(0),) + d.terms[1:])

    def append(self, a, v):
        n = a.terms[0]
        return V(self, (n + 1,) + self.elem.store(a.terms[1:], n, v))

    def setitem(self, a, i, v):
        return V(self, (a.terms[0],) + self.elem.store(a.terms[1:], i, v))

    def eq(self, a, b):
        i = z3.Int(fresh_name("ieq"))
        body = z3.Implies(z3.And(i >= 0, i < a.terms[0]), self.elem.eq(self.at(a, i), self.at(b, i)))
        return z3.And(a.terms[0] == b.terms[0], z3.ForAll([i], body))

    def truthy(self, a):
        return a.terms[0] > 0


class TSet(Sort):
    def __init__(self, elem):
        assert len(elem.leaves()) == 1, "set elements must be atomic"
        self.elem = elem
        self.name = f"Set[{elem}]"

    def leaves(self):
        return [("{}", z3.ArraySort(self.elem.leaves()[0][1], z3.BoolSort()))]

    def mem(self, a, x):
        return z3.Select(a.terms[0], x.t)

    def empty(self):
        return V(self, (z3.K(self.elem.leaves()[0][1], z3.BoolVal(False)),))

    def add(self, a, x):
        return V(self, (z3.Store(a.terms[0], x.t, z3.BoolVal(True)),))

    def discard(self, a, x):
        return V(self, (z3.Store(a.terms[0], x.t, z3.BoolVal(False)),))

    def truthy(self, a):
        x = z3.Const(fresh_name("sx"), self.elem.leaves()[0][1])
        return z3.Exists([x], z3.Select(a.terms[0], x))


class TDict(Sort):
    """dict[K, V] with K atomic.  `ordered=True` adds an insertion-order key list."""

    def __init__(self, key, val, ordered=False):
        assert len(key.leaves()) == 1, "dict keys must be atomic"
        self.key = key
        self.val = val
        self.ordered = ordered
        self.name = f"{'ODict' if ordered else 'Dict'}[{key},{val}]"
        self.kz = key.leaves()[0][1]
        self.keylist = TList(key) if ordered else None

    def leaves(self):
        lv = [("{k}", z3.ArraySort(self.kz, z3.BoolSort()))] + [("{v}" + s, zs) for s, zs in self.val.lifted(self.kz)]
        if self.ordered:
            lv += [("{o}" + s, zs) for s, zs in self.keylist.leaves()]
        return lv

    def _nv(self):
        return len(self.val.leaves())

    def has(self, a, k):
        return z3.Select(a.terms[0], k.t)

    def get(self, a, k):
        return self.val.select(a.terms[1 : 1 + self._nv()], k.t)

    def keys_list(self, a):
        assert self.ordered
        return V(self.keylist, a.terms[1 + self._nv() :])

    def empty(self):
        d = self.fresh("emptydict")
        terms = [z3.K(self.kz, z3.BoolVal(False))] + list(d.terms[1 : 1 + self._nv()])
        if self.ordered:
            terms += list(self.keylist.empty().terms)
        return V(self, terms)

    def set(self, a, k, v):
        """a[k] = v  (ordered: appends k to the key list when new)."""
        nv = self._nv()
        terms = [z3.Store(a.terms[0], k.t, z3.BoolVal(True))] + list(self.val.store(a.terms[1 : 1 + nv], k.t, v))
        if self.ordered:
            old = self.keys_list(a)
            app = self.keylist.append(old, k)
            terms += list(self.keylist.ite(self.has(a, k), old, app).terms)
        return V(self, terms)

    def eq(self, a, b):
        k = z3.Const(fresh_name("keq"), self.kz)
        kv = V(self.key, (k,))
        return z3.ForAll(
            [k],
            z3.And(
                z3.Select(a.terms[0], k) == z3.Select(b.terms[0], k),
                z3.Implies(z3.Select(a.terms[0], k), self.val.eq(self.get(a, kv), self.get(b, kv))),
            ),
        )

    def truthy(self, a):
        if self.ordered:
            return self.keys_list(a).terms[0] > 0
        k = z3.Const(fresh_name("kx"), self.kz)
        return z3.Exists([k], z3.Select(a.terms[0], k))


class TTuple(Sort):
    def __init__(self, elems):
        self.elems = list(elems)
        self.name = "Tuple[" + ",".join(map(repr, self.elems)) + "]"

    def leaves(self):
        out = []
        for n, e in enumerate(self.elems):
            out += [(f"({n})" + s, zs) for s, zs in e.leaves()]
        return out

    def item(self, a, n):
        off = sum(len(e.leaves()) for e in self.elems[:n])
        e = self.elems[n]
        return V(e, a.terms[off : off + len(e.leaves())])

    def make(self, vals):
        terms = []
        for v in vals:
            terms += list(v.terms)
        return V(self, terms)

    def eq(self, a, b):
        return z3.And(*[e.eq(self.item(a, n), self.item(b, n)) for n, e in enumerate(self.elems)])

    def truthy(self, a):
        return z3.BoolVal(len(self.elems) > 0)


class TFn(_Atomic):
    """a callable drawn from a finite set of functions under contract (value = index into `names`)"""

    zsort = z3.IntSort()

    def __init__(self, names):
        self.names = list(names)
        self.name = "Fn[" + ",".join(self.names) + "]"


class TExcC(Sort):
    """pseudo-sort of exception objects passed as parameters (identity only)"""

    name = "Exc"

    def leaves(self):
        return []


TExc = TExcC()
TInt = TIntC()
TBool = TBoolC()
TReal = TRealC()
TStr = TStrC()
TVal = TValC()
TNone = TNoneC()
NONE = V(TNone, ())


def mk_int(n):
    return V(TInt, (z3.IntVal(n) if isinstance(n, int) else n,))


def mk_bool(b):
    return V(TBool, (z3.BoolVal(b) if isinstance(b, bool) else b,))


def mk_real(r):
    return V(TReal, (z3.RealVal(r) if isinstance(r, (int, float, str)) else r,))


def mk_str(s):
    return V(TStr, (str_lit(s) if isinstance(s, str) else s,))
