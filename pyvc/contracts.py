"""Loader for sidecar contract files (/verif/contracts/*.py).

Contract files are *parsed, never imported*.  Vocabulary (all top-level):

    STRINGS = "abstract" | "z3"
    cls("Name", bases=[...], field=Sort, ...)           class declaration (heap fields)
    exc("Name", base="Exception")                        exception class
    const("dotted.name", Sort)  /  const("dotted.name", Sort, value)   module-level constants
    enum("Status", WAITING=0, ...)                        IntEnum-like constants
    @spec   def f(a: S, ...) -> S: ...                    uninterpreted spec function
    @pure   def f(a: S, ...) -> S: return <expr>          spec macro (inlined)
    @axiom("TAG")  def name(a: S, ...): return <expr>     universally quantified axiom (trusted, tagged)
    @contract(file, qualname)  def _(params...) -> S:     contract of a repository function (proved)
    @extern("dotted.name")     def _(params...) -> S:     assumed contract of an external callable (trusted)
    @assumed(file, qualname)   def _(...)                 assumed contract of a repo function NOT proved here
    @lemma  def name(params...):                          ghost lemma: body is ghost code, proved by the engine
    inline(file, qualname)                                 callee executed inline (constructors, one-liners)
Inside contract bodies: requires(e) ensures(e) raises(Exc, when=e) assigns(targets...) invariant(loop, e)
decreases(loop, e) modifies_loop(loop, names...) note("...").
"""
from __future__ import annotations

import ast
import os
from dataclasses import dataclass, field

from . import sorts as S


class ContractError(Exception):
    pass


@dataclass
class ClassDecl:
    name: str
    bases: list
    fields: dict  # name -> Sort
    lineno: int = 0
    record: bool = False


@dataclass
class FnSpec:
    kind: str  # contract | extern | assumed | lemma | pure | spec | axiom
    name: str  # registry key: qualname or dotted name
    file: str | None
    params: list  # [(name, Sort|None, default_ast|None)]
    ret: object  # Sort | None
    node: ast.FunctionDef = None
    requires: list = field(default_factory=list)  # [ast.expr]
    ensures: list = field(default_factory=list)
    raises: list = field(default_factory=list)  # [(excname, when_ast|None, strict)]
    raise_ensures: list = field(default_factory=list)  # parallel to raises: ast|None, holds when that exception is raised
    assigns: list = field(default_factory=list)  # [ast.expr]
    invariants: dict = field(default_factory=dict)  # loop ordinal -> [ast.expr]
    decreases: dict = field(default_factory=dict)
    loop_index: dict = field(default_factory=dict)  # loop ordinal -> name of ghost index/done variable
    tag: str | None = None
    notes: list = field(default_factory=list)
    ghost_body: list = field(default_factory=list)  # lemma body statements
    options: dict = field(default_factory=dict)
    hints: dict = field(default_factory=dict)  # where -> [ast.expr] ghost lemma calls
    ghosts: list = field(default_factory=list)  # [(name, ast.expr)] entry-state let-bindings
    local_sorts: dict = field(default_factory=dict)
    known: dict = field(default_factory=dict)  # ensures ordinal -> known-finding id
    for_prop: dict = field(default_factory=dict)  # ensures ordinal -> property id the clause belongs to (ensures_for)
    reraise: dict = field(default_factory=dict)  # raises-clause ordinal -> name of the Exc parameter whose object is re-raised

    @property
    def unit(self):
        """name of the verification unit (a function, or one statement of it)"""
        return self.name + ("@" + self.options["stmt"] if self.options.get("stmt") else "")


class Module:
    def __init__(self, path):
        self.path = path
        self.classes: dict[str, ClassDecl] = {}
        self.excs: dict[str, str] = {
            "BaseException": None,
            "Exception": "BaseException",
            "ArithmeticError": "Exception",
            "LookupError": "Exception",
            "KeyError": "LookupError",
            "IndexError": "LookupError",
            "ValueError": "Exception",
            "TypeError": "Exception",
            "RuntimeError": "Exception",
            "NotImplementedError": "RuntimeError",
            "StopIteration": "Exception",
            "AssertionError": "Exception",
            "AttributeError": "Exception",
            "KeyboardInterrupt": "BaseException",
            "asyncio.CancelledError": "BaseException",
            "CancelledError": "BaseException",
            "OSError": "Exception",
        }
        self.consts: dict[str, tuple] = {}  # dotted -> (Sort, value ast or python const or None)
        self.fns: dict[str, FnSpec] = {}  # spec / pure
        self.axioms: list[FnSpec] = []
        self.contracts: dict[str, FnSpec] = {}  # qualname or dotted -> FnSpec (contract, extern, assumed)
        self.lemmas: dict[str, FnSpec] = {}
        self.inlines: dict[str, str] = {}  # qualname -> file
        self.strings = "abstract"
        self.options: dict = {}
        self.sort_aliases: dict[str, S.Sort] = {}
        self.exc_files: list[str] = []

    def load_exception_classes(self, repo):
        """exception hierarchy read mechanically from the repository source on every run"""
        for rel in self.exc_files:
            _, tree = parse_repo_file(repo, rel)
            for n in tree.body:
                if isinstance(n, ast.ClassDef) and n.bases:
                    b = n.bases[0]
                    bn = b.id if isinstance(b, ast.Name) else (b.attr if isinstance(b, ast.Attribute) else None)
                    if bn is not None and (bn in self.excs or bn.endswith("Exception") or bn.endswith("Error")):
                        self.excs[n.name] = bn

    # -- sorts -------------------------------------------------------------------------------
    def sort_of(self, node) -> S.Sort:
        if node is None:
            return None
        if isinstance(node, ast.Constant) and node.value is None:
            return S.TNone
        if isinstance(node, ast.Constant) and isinstance(node.value, str):
            return self.sort_of(ast.parse(node.value, mode="eval").body)
        if isinstance(node, ast.Name):
            n = node.id
            base = {"Int": S.TInt, "Bool": S.TBool, "Real": S.TReal, "Str": S.TStr, "Val": S.TVal, "Ref": S.TRef(None), "Exc": S.TExc,
                    "Bytes": S.TList(S.TInt)}
            if n in base:
                return base[n]
            if n in self.sort_aliases:
                return self.sort_aliases[n]
            if n in self.classes:
                return S.TRef(n)
            raise ContractError(f"{self.path}:{node.lineno}: unknown sort {n}")
        if isinstance(node, ast.Subscript):
            head = node.value.id
            args = node.slice.elts if isinstance(node.slice, ast.Tuple) else [node.slice]
            if head == "Opt":
                return S.TOpt(self.sort_of(args[0]))
            if head == "List":
                return S.TList(self.sort_of(args[0]))
            if head == "Set":
                return S.TSet(self.sort_of(args[0]))
            if head == "Dict":
                return S.TDict(self.sort_of(args[0]), self.sort_of(args[1]))
            if head == "ODict":
                return S.TDict(self.sort_of(args[0]), self.sort_of(args[1]), ordered=True)
            if head == "Tuple":
                return S.TTuple([self.sort_of(a) for a in args])
            if head == "Fn":
                return S.TFn([a.value if isinstance(a, ast.Constant) else ast.unparse(a) for a in args])
            if head == "Ref":
                return S.TRef(args[0].value if isinstance(args[0], ast.Constant) else args[0].id)
        raise ContractError(f"{self.path}:{getattr(node, 'lineno', '?')}: bad sort expression {ast.dump(node)}")

    def is_subclass(self, a, b):
        """class a is (transitively) a subclass of b, per the declarations."""
        seen = set()
        todo = [a]
        while todo:
            c = todo.pop()
            if c == b:
                return True
            if c in seen or c not in self.classes:
                continue
            seen.add(c)
            todo += self.classes[c].bases
        return False

    def field_sort(self, clsname, fieldname):
        seen = set()
        todo = [clsname]
        while todo:
            c = todo.pop(0)
            if c in seen or c not in self.classes:
                continue
            seen.add(c)
            d = self.classes[c]
            if fieldname in d.fields:
                return c, d.fields[fieldname]
            todo += d.bases
        return None, None

    def exc_is(self, a, b):
        while a is not None:
            if a == b:
                return True
            a = self.excs.get(a)
        return False

    def find_method(self, clsname, meth):
        """resolve Class.meth through declared bases -> (qualname, kind) where kind in contract/inline"""
        seen = set()
        todo = [clsname]
        while todo:
            c = todo.pop(0)
            if c in seen:
                continue
            seen.add(c)
            q = f"{c}.{meth}"
            if q in self.contracts:
                return q, "contract"
            if q in self.inlines:
                return q, "inline"
            if c in self.classes:
                todo += self.classes[c].bases
        return None, None


def _deco_name(d):
    if isinstance(d, ast.Call):
        d = d.func
    return d.id if isinstance(d, ast.Name) else None


def _const(node):
    return ast.literal_eval(node)


def load(path) -> Module:
    src = open(path).read()
    tree = ast.parse(src, path)
    m = Module(path)
    # two passes: classes/sorts first so that contracts may refer to them in any order
    for node in tree.body:
        if isinstance(node, ast.Assign) and isinstance(node.targets[0], ast.Name):
            n = node.targets[0].id
            if n == "STRINGS":
                m.strings = _const(node.value)
            elif n == "OPTIONS":
                m.options = _const(node.value)
        if isinstance(node, ast.Expr) and isinstance(node.value, ast.Call) and isinstance(node.value.func, ast.Name):
            f = node.value.func.id
            c = node.value
            if f == "cls":
                name = _const(c.args[0])
                m.classes[name] = ClassDecl(name, [], {}, node.lineno)
            elif f == "excs_from":
                m.exc_files.append(_const(c.args[0]))
            elif f == "exc":
                base = "Exception"
                for kw in c.keywords:
                    if kw.arg == "base":
                        base = _const(kw.value)
                m.excs[_const(c.args[0])] = base
    for node in tree.body:
        if isinstance(node, ast.Expr) and isinstance(node.value, ast.Call) and isinstance(node.value.func, ast.Name):
            f = node.value.func.id
            c = node.value
            if f == "cls":
                d = m.classes[_const(c.args[0])]
                for kw in c.keywords:
                    if kw.arg == "bases":
                        d.bases = _const(kw.value)
                    elif kw.arg == "record":
                        # a JSON-like dict with a fixed vocabulary of keys: key k <-> field k; a field of sort Opt[T] is an
                        # OPTIONAL key (outer None = key absent)
                        d.record = bool(_const(kw.value))
                    else:
                        d.fields[kw.arg] = m.sort_of(kw.value)
            elif f == "alias":
                m.sort_aliases[_const(c.args[0])] = m.sort_of(c.args[1])
            elif f == "const":
                m.consts[_const(c.args[0])] = (m.sort_of(c.args[1]), c.args[2] if len(c.args) > 2 else None)
            elif f == "enum":
                en = _const(c.args[0])
                for kw in c.keywords:
                    m.consts[f"{en}.{kw.arg}"] = (S.TInt, kw.value)
            elif f == "inline":
                m.inlines[_const(c.args[1])] = _const(c.args[0])
    for node in tree.body:
        if isinstance(node, ast.FunctionDef):
            for d in node.decorator_list:
                kind = _deco_name(d)
                if kind in ("spec", "pure", "recursive", "axiom", "contract", "extern", "assumed", "lemma"):
                    _load_fn(m, node, kind, d)
    return m


def _load_fn(m: Module, node: ast.FunctionDef, kind, deco):
    params = []
    args = node.args
    defaults = [None] * (len(args.args) - len(args.defaults)) + list(args.defaults)
    for a, dflt in zip(args.args, defaults):
        params.append((a.arg, m.sort_of(a.annotation) if a.annotation else None, dflt))
    for a, dflt in zip(args.kwonlyargs, args.kw_defaults):
        params.append((a.arg, m.sort_of(a.annotation) if a.annotation else None, dflt))
    ret = m.sort_of(node.returns) if node.returns else None
    dargs = deco.args if isinstance(deco, ast.Call) else []
    dkw = {k.arg: _const(k.value) for k in deco.keywords} if isinstance(deco, ast.Call) else {}
    if kind in ("contract", "assumed"):
        file, name = _const(dargs[0]), _const(dargs[1])
    elif kind == "extern":
        file, name = None, _const(dargs[0])
    else:
        file, name = None, node.name
    fs = FnSpec(kind=kind, name=name, file=file, params=params, ret=ret, node=node, options=dkw)
    if kind == "axiom":
        fs.tag = _const(dargs[0]) if dargs else "A-SPEC"
    body = list(node.body)
    if body and isinstance(body[0], ast.Expr) and isinstance(body[0].value, ast.Constant) and isinstance(body[0].value.value, str):
        fs.notes.append(body[0].value.value)
        body = body[1:]
    ghost = []
    for st in body:
        call = st.value if isinstance(st, ast.Expr) and isinstance(st.value, ast.Call) else None
        fn = call.func.id if call is not None and isinstance(call.func, ast.Name) else None
        if fn == "requires":
            fs.requires.append(call.args[0])
        elif fn == "ensures":
            fs.ensures.append(call.args[0])
        elif fn == "ensures_known":
            # ensures_known("KF-id", expr): a clause of the statement that is KNOWN not to hold on a recorded witness class;
            # refuted + listed in known_findings.json => KNOWN-FINDING line, not a violation; discharged => defect gone
            fs.known[len(fs.ensures)] = _const(call.args[0])
            fs.ensures.append(call.args[1])
        elif fn == "ensures_for":
            # ensures_for("Cxx", expr): a clause that belongs to the claim of ANOTHER property (which re-proves this unit as a
            # dependency): it is proved like any other, but a failure is reported for that property only
            fs.for_prop[len(fs.ensures)] = _const(call.args[0])
            fs.ensures.append(call.args[1])
        elif fn == "raises":
            when, strict, ens = None, True, None
            for kw in call.keywords:
                if kw.arg == "when":
                    when = kw.value
                if kw.arg == "strict":
                    strict = _const(kw.value)
                if kw.arg == "ensures":
                    ens = kw.value
                if kw.arg == "reraise":
                    fs.reraise[len(fs.raises)] = _const(kw.value)
            en = call.args[0]
            fs.raises.append((ast.unparse(en), when, strict))
            fs.raise_ensures.append(ens)
        elif fn == "assigns":
            fs.assigns += list(call.args)
        elif fn == "invariant":
            k = _const(call.args[0])
            fs.invariants.setdefault(k, []).append(call.args[1])
            for kw in call.keywords:
                if kw.arg == "index":
                    fs.loop_index[k] = _const(kw.value)
        elif fn == "decreases":
            fs.decreases[_const(call.args[0])] = call.args[1]
        elif fn == "loop_index":
            fs.loop_index[_const(call.args[0])] = _const(call.args[1])
        elif fn == "note":
            fs.notes.append(_const(call.args[0]))
        elif fn == "local":
            # local("name", Sort): sort of a local that the code initialises with an empty literal
            fs.local_sorts[_const(call.args[0])] = m.sort_of(call.args[1])
        elif fn == "ghost":
            # ghost(name, expr): a specification-only name for the entry-state value of expr
            fs.ghosts.append((_const(call.args[0]), call.args[1]))
        elif fn == "hint":
            # hint("exit" | "loop<k>:step" | "loop<k>:exit" | "loop<k>:init", lemma_call_or_fact)
            fs.hints.setdefault(_const(call.args[0]), []).append(call.args[1])
        elif isinstance(st, ast.Expr) and isinstance(st.value, ast.Constant) and st.value.value is Ellipsis:
            pass
        elif isinstance(st, ast.Pass):
            pass
        else:
            ghost.append(st)
    fs.ghost_body = ghost
    if kind in ("spec", "pure", "recursive"):
        m.fns[name] = fs
    elif kind == "axiom":
        m.axioms.append(fs)
    elif kind == "lemma":
        m.lemmas[name] = fs
    else:
        m.contracts[fs.unit if kind == "contract" else name] = fs


# ---- locating repository functions -------------------------------------------------------------

_src_cache: dict[str, tuple] = {}


def parse_repo_file(repo, rel):
    p = os.path.join(repo, rel)
    if p not in _src_cache:
        src = open(p).read()
        _src_cache[p] = (src, ast.parse(src, p))
    return _src_cache[p]


def locate_stmt(fnode, sel):
    """sel = "Try#0" / "While#1" ... : the n-th statement of that type in pre-order inside the function"""
    kind, _, n = sel.partition("#")
    n = int(n or 0)
    found = []

    def walk(stmts):
        for st in stmts:
            if type(st).__name__ == kind:
                found.append(st)
            if isinstance(st, (ast.FunctionDef, ast.AsyncFunctionDef, ast.ClassDef)):
                continue
            for fld in ("body", "orelse", "finalbody"):
                sub = getattr(st, fld, None)
                if isinstance(sub, list):
                    walk(sub)
            if isinstance(st, ast.Try):
                for h in st.handlers:
                    walk(h.body)

    walk(fnode.body)
    return found[n] if n < len(found) else None


def locate(repo, rel, qualname):
    """-> (FunctionDef|AsyncFunctionDef node, source segment, class node or None)"""
    src, tree = parse_repo_file(repo, rel)
    parts = qualname.split(".")
    body = tree.body
    clsnode = None
    node = None
    for i, p in enumerate(parts):
        node = None
        for n in body:
            if isinstance(n, (ast.FunctionDef, ast.AsyncFunctionDef, ast.ClassDef)) and n.name == p:
                node = n
        if node is None:
            return None, None, None
        if isinstance(node, ast.ClassDef):
            clsnode = node
        body = node.body
    if not isinstance(node, (ast.FunctionDef, ast.AsyncFunctionDef)):
        return None, None, None
    return node, ast.get_source_segment(src, node), clsnode
